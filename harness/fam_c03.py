"""FAMILIES registry of property C03: contradictions (ordering principle, pebbling,
stone, CPLS, pitfall) and Ramsey-type benchmarks (ram, vdw, ptn).

Each entry (see notes/AGENT_GUIDE.md):
  name, prop, params(rng, tier), build(p, formula_class), request(p), numvar_doc(p),
  decode_ok(p, a), exists(p), cli(p, tmpdir)
and, for the two families that have (had) a defect in cnfgen (DESIGN section 6.6; pitfall D31 is still in
the code, vdw D12 was repaired by commit f79a20a),
  request_spec(p)  -- the request for the DOCUMENTED behaviour (model variant `spec`);
                      `request` is the model variant of the code as it is today
  alternatives(p)  -- list of dict(label, request, finding): every model variant the implementation may
                      agree with, documented ones first; `finding` = dict(site, cls) when agreement with
                      that variant means the defect is (still / again) in the code, else None.
                      Reusers (C08, C10, C17) should accept agreement with any alternative.
`kind`: 'contradiction' (documented unsatisfiable), 'planted', 'ramsey'.
`build`, `request`, `cli` are side-effect free (pitfall forces the graph that
networkx drew for p['seed'] by patching networkx.random_regular_graph during the call).
Oracles (`decode_ok`, `exists`) are written from the documentation only."""
import itertools
import math
import os
import random

from lib import cmd, import_impl
import fam_streams as S
from fam_streams import arg


# --------------------------------------------------------------------------
# graph helpers (parameters are plain JSON-able dicts; objects are built in `build`)
# --------------------------------------------------------------------------
def all_pairs(n):
    return [(u, v) for u in range(1, n + 1) for v in range(u + 1, n + 1)]


def subsets_of_pairs(n):
    ps = all_pairs(n)
    for bits in range(1 << len(ps)):
        yield [list(ps[i]) for i in range(len(ps)) if (bits >> i) & 1]


def nbr_lists(n, edges):
    nb = [[] for _ in range(n + 1)]
    for u, v in edges:
        nb[u].append(v)
        nb[v].append(u)
    return [sorted(x) for x in nb[1:]]


def pred_lists(n, edges):
    pr = [[] for _ in range(n + 1)]
    for u, v in edges:
        pr[v].append(u)
    return [sorted(x) for x in pr[1:]]


def right_lists(n, bedges):
    r = [[] for _ in range(n + 1)]
    for v, j in bedges:
        r[v].append(j)
    return [sorted(x) for x in r[1:]]


def mk_graph(n, edges):
    from cnfgen.graphs import Graph
    G = Graph(n)
    for u, v in edges:
        G.add_edge(u, v)
    return G


def on_graph(p, key, plain, call):
    """call(G, overrides) on the graph argument of p: built by `plain()` or, for the history stream
    (p[key] is a list of public API calls, see fam_streams), by replaying them -- the generator is then
    called on the same object at every 'gen' op and the value of the last call is returned."""
    if key in p:
        return S.replay(p[key], call)
    return call(plain(), {})


def mk_dag(n, edges):
    from cnfgen.graphs import DirectedGraph
    D = DirectedGraph(n)
    for u, v in edges:
        D.add_edge(u, v)
    return D


def mk_bip(L, R, bedges):
    from cnfgen.graphs import BipartiteGraph
    B = BipartiteGraph(L, R)
    for u, v in bedges:
        B.add_edge(u, v)
    return B


def random_graph_edges(rng, n, p):
    return [list(e) for e in all_pairs(n) if rng.random() < p]


def pyramid_edges(h):
    """dag_pyramid as cnfgen builds it: level sizes h+1, h, ..., 1; sources first"""
    edges, level, nxt = [], list(range(1, h + 2)), h + 2
    n = h + 1
    while len(level) > 1:
        new = []
        for i in range(len(level) - 1):
            edges.append([level[i], nxt])
            edges.append([level[i + 1], nxt])
            new.append(nxt)
            nxt += 1
        level = new
        n += len(new)
    return n, edges


def write_graph(G, tmpdir, name, fmt='kthlist'):
    from cnfgen.graphs import writeGraph
    path = os.path.join(tmpdir, name)
    gtype = 'dag' if G.is_directed() else ('bipartite' if G.is_bipartite() else 'simple')
    writeGraph(G, path, gtype, fmt)
    return path


FLAGS = [(t, s, pl, kn) for t in (False, True) for s in (False, True) for pl in (False, True) for kn in (0, 2, 3)]


# --------------------------------------------------------------------------
# ordering principle
# --------------------------------------------------------------------------
def op_params(rng, tier):
    out = []
    top = 7 if tier == 'quick' else 10
    for n in range(0, top + 1):
        for (t, s, pl, kn) in FLAGS:
            out.append(dict(n=n, total=t, smart=s, plant=pl, knuth=kn))
    out.append(dict(n=3, total=False, smart=False, plant=False, knuth=5))   # any other value: plain
    out.append(dict(n=40, total=False, smart=False, plant=False, knuth=0, large=True))
    if tier != 'quick':
        out.append(dict(n=55, total=True, smart=False, plant=False, knuth=3, large=True))
        out.append(dict(n=70, total=False, smart=True, plant=True, knuth=0, large=True))
    for (t, s, pl, kn) in rng.sample(FLAGS, 6 if tier == 'quick' else 16):
        out.append(dict(n=rng.randint(15, 28), total=t, smart=s, plant=pl, knuth=kn, large=True))
    return out


def op_build(p, fc):
    from cnfgen.families.ordering import OrderingPrinciple
    return OrderingPrinciple(p['n'], total=arg(p, 'total'), smart=arg(p, 'smart'), plant=arg(p, 'plant'), knuth=arg(p, 'knuth'),
                             formula_class=fc)


def op_request(p):
    return cmd('fam_op', p['n'], p['total'], p['smart'], p['plant'], p['knuth'])


def op_numvar(p):
    n = p['n']
    return n * (n - 1) // 2 if p['smart'] else n * (n - 1)


def _order_vars(p):
    """variable ids from the documentation: x_{u,v} for ordered pairs (u != v) in lexicographic
    order; compact representation: one variable per pair u < v, true when u precedes v"""
    n = p['n']
    ids, nxt = {}, 0
    if p['smart']:
        for u in range(1, n + 1):
            for v in range(u + 1, n + 1):
                nxt += 1
                ids[(u, v)] = nxt
    else:
        for u in range(1, n + 1):
            for v in range(1, n + 1):
                if u != v:
                    nxt += 1
                    ids[(u, v)] = nxt
    return ids


def gop_decode_ok(p, a):
    """the assignment describes a strict partial order (total when required) on 1..n in which every
    vertex -- except n when `plant` -- has a neighbour before it.  Only for the full transitivity
    variants (the Knuth variants state fewer transitivity axioms, so their models need not be orders)."""
    if p['knuth'] in (2, 3) and not p['smart']:
        return None
    n = p['n']
    ids = _order_vars(p)
    if p['smart']:
        before = lambda u, v: a[ids[(u, v)]] if u < v else not a[ids[(v, u)]]
    else:
        before = lambda u, v: a[ids[(u, v)]]
    V = range(1, n + 1)
    for u in V:
        for v in V:
            if u == v:
                continue
            if before(u, v) and before(v, u):
                return False
            if (p['total'] or p['smart']) and not before(u, v) and not before(v, u):
                return False
            for w in V:
                if w != u and w != v and before(u, v) and before(v, w) and not before(u, w):
                    return False
    nb = nbr_lists(n, p['edges']) if 'edges' in p else [[u for u in V if u != v] for v in V]
    for v in V:
        if p['plant'] and v == n:
            continue
        if not any(before(u, v) for u in nb[v - 1]):
            return False
    return True


def gop_exists(p):
    """is there a linear order of 1..n in which every vertex (except n when planted) comes after one of
    its neighbours?  Without `plant` the first element of any order has no earlier neighbour."""
    n = p['n']
    if n == 0:
        return True
    if not p['plant']:
        return False
    if n > 7:
        return None
    V = range(1, n + 1)
    nb = nbr_lists(n, p['edges']) if 'edges' in p else [[u for u in V if u != v] for v in V]
    for perm in itertools.permutations(V):
        pos = {v: i for i, v in enumerate(perm)}
        if all(v == n or any(pos[u] < pos[v] for u in nb[v - 1]) for v in V):
            return True
    return False


def op_cli(p, tmpdir):
    excl = int(p['total']) + int(p['smart']) + int(p['knuth'] in (2, 3))
    if excl > 1 or p['knuth'] not in (0, 2, 3):
        return None
    argv = ['op', str(p['n'])]
    return argv + _op_flags(p)


def _op_flags(p):
    out = []
    if p['total']:
        out.append('--total')
    if p['smart']:
        out.append('--smart')
    if p['knuth'] == 2:
        out.append('--knuth2')
    if p['knuth'] == 3:
        out.append('--knuth3')
    if p['plant']:
        out.append('--plant')
    return out


def gop_params(rng, tier):
    out = []
    top = 4 if tier == 'quick' else 5
    for n in range(0, top + 1):
        for edges in subsets_of_pairs(n):
            flags = FLAGS if n <= 3 else rng.sample(FLAGS, 8 if (tier == 'quick' or n == 4) else 6)
            for (t, s, pl, kn) in flags:
                out.append(dict(n=n, edges=edges, total=t, smart=s, plant=pl, knuth=kn))
    for _ in range(8 if tier == 'quick' else 40):
        n = rng.randint(6, 22)
        (t, s, pl, kn) = rng.choice(FLAGS)
        out.append(dict(n=n, edges=random_graph_edges(rng, n, rng.choice([0.1, 0.3, 0.6, 0.9])),
                        total=t, smart=s, plant=pl, knuth=kn, large=True))
    return out


def gop_build(p, fc):
    from cnfgen.families.ordering import GraphOrderingPrinciple
    def call(G, over):
        q = dict(p, **over)
        return GraphOrderingPrinciple(G, total=arg(q, 'total'), smart=arg(q, 'smart'), plant=arg(q, 'plant'),
                                      knuth=arg(q, 'knuth'), formula_class=fc)
    return on_graph(p, 'ops', lambda: mk_graph(p['n'], p['edges']), call)


def gop_request(p):
    return cmd('fam_gop', nbr_lists(p['n'], p['edges']), p['total'], p['smart'], p['plant'], p['knuth'])


def gop_cli(p, tmpdir):
    excl = int(p['total']) + int(p['smart']) + int(p['knuth'] in (2, 3))
    if excl > 1 or p['n'] == 0:
        return None
    path = write_graph(mk_graph(p['n'], p['edges']), tmpdir, 'gop.kthlist')
    return ['op', path] + _op_flags(p)


# --------------------------------------------------------------------------
# pebbling / stone / sparse stone
# --------------------------------------------------------------------------
def all_dags(top):
    for n in range(0, top + 1):
        for edges in subsets_of_pairs(n):
            yield n, edges


def random_dag(rng, n, p):
    return [list(e) for e in all_pairs(n) if rng.random() < p]


def peb_params(rng, tier):
    out = [dict(n=n, edges=e) for n, e in all_dags(4 if tier == 'quick' else 5)]
    n, e = pyramid_edges(12)
    out.append(dict(n=n, edges=e, large=True))
    for _ in range(5 if tier == 'quick' else 30):
        n = rng.randint(6, 40)
        out.append(dict(n=n, edges=random_dag(rng, n, rng.choice([0.05, 0.2, 0.5])), large=True))
    # not topologically sorted: ValueError expected
    out.append(dict(n=3, edges=[[2, 1], [1, 3]], malformed=True))
    out.append(dict(n=2, edges=[[1, 2], [2, 1]], malformed=True))
    return out


def peb_build(p, fc):
    from cnfgen.families.pebbling import PebblingFormula
    return on_graph(p, 'ops', lambda: mk_dag(p['n'], p['edges']), lambda D, over: PebblingFormula(D, formula_class=fc))


def peb_request(p):
    return cmd('fam_peb', pred_lists(p['n'], p['edges']))


def peb_cli(p, tmpdir):
    if p['n'] == 0 or p.get('malformed'):
        return None
    return ['peb', write_graph(mk_dag(p['n'], p['edges']), tmpdir, 'peb.kthlist')]


def stone_params(rng, tier):
    out = []
    for n, e in all_dags(4 if tier == 'quick' else 5):
        for s in range(0, 4):
            if n == 5 and s == 3 and len(e) > 7:
                continue
            out.append(dict(n=n, edges=e, stones=s))
    n, e = pyramid_edges(4)
    out.append(dict(n=n, edges=e, stones=4, large=True))
    for _ in range(3 if tier == 'quick' else 12):
        n = rng.randint(5, 9)
        out.append(dict(n=n, edges=random_dag(rng, n, 0.3), stones=rng.randint(1, 4), large=True))
    out.append(dict(n=2, edges=[[2, 1]], stones=2, malformed=True))
    return out


def stone_build(p, fc):
    from cnfgen.families.pebbling import StoneFormula
    return on_graph(p, 'ops', lambda: mk_dag(p['n'], p['edges']),
                    lambda D, over: StoneFormula(D, over.get('stones', p['stones']), formula_class=fc))


def stone_request(p):
    return cmd('fam_stone', pred_lists(p['n'], p['edges']), p['stones'])


def stone_numvar(p):
    return p['stones'] + p['n'] * p['stones']


def stone_cli(p, tmpdir):
    if p['n'] == 0 or p['stones'] == 0 or p.get('malformed'):
        return None
    return ['stone', str(p['stones']), write_graph(mk_dag(p['n'], p['edges']), tmpdir, 'stone.kthlist')]


def sstone_params(rng, tier):
    out = []
    top = 3 if tier == 'quick' else 4
    for n, e in all_dags(top):
        for R in range(0, 3):
            cells = [(v, j) for v in range(1, n + 1) for j in range(1, R + 1)]
            if n == 4 and R == 2:
                masks = [rng.randrange(1 << len(cells)) for _ in range(96)]
            else:
                masks = range(1 << len(cells))
            for bits in masks:
                out.append(dict(n=n, edges=e, R=R, bedges=[list(cells[i]) for i in range(len(cells)) if (bits >> i) & 1]))
    for _ in range(6 if tier == 'quick' else 40):
        n, R = rng.randint(4, 9), rng.randint(2, 5)
        bed = [[v, j] for v in range(1, n + 1) for j in range(1, R + 1) if rng.random() < 0.5]
        out.append(dict(n=n, edges=random_dag(rng, n, 0.35), R=R, bedges=bed, large=True))
    out.append(dict(n=2, edges=[[1, 2]], R=2, bedges=[[1, 1]], left=3, malformed=True))   # sizes differ
    return out


def sstone_build(p, fc):
    from cnfgen.families.pebbling import SparseStoneFormula
    if 'bops' in p:       # history of the mapping graph, the DAG is one object for all the calls
        D = mk_dag(p['n'], p['edges'])
        return S.replay(p['bops'], lambda B, over: SparseStoneFormula(D, B, formula_class=fc))
    B = mk_bip(p.get('left', p['n']), p['R'], p['bedges'])
    return on_graph(p, 'ops', lambda: mk_dag(p['n'], p['edges']), lambda D, over: SparseStoneFormula(D, B, formula_class=fc))


def sstone_request(p):
    return cmd('fam_sstone', pred_lists(p['n'], p['edges']), right_lists(p.get('left', p['n']), p['bedges']), p['R'])


def sstone_numvar(p):
    return p['R'] + len(p['bedges'])


# --------------------------------------------------------------------------
# CPLS
# --------------------------------------------------------------------------
def cpls_params(rng, tier):
    pw = [1, 2, 4, 8] if tier == 'quick' else [1, 2, 4, 8, 16]
    out = [dict(a=a, b=b, c=c) for a in range(1, 4 if tier == 'quick' else 5) for b in pw for c in pw
           if not (b == 16 and c == 16 and a > 2)]
    out += [dict(a=2, b=3, c=2, malformed=True), dict(a=2, b=2, c=6, malformed=True), dict(a=1, b=5, c=7, malformed=True)]
    return out


def cpls_build(p, fc):
    from cnfgen.families.cpls import CPLSFormula
    return CPLSFormula(p['a'], p['b'], p['c'], formula_class=fc)


def ilog2(x):
    return x.bit_length() - 1


def cpls_numvar(p):
    a, b, c = p['a'], p['b'], p['c']
    return a * b * c + a * b * ilog2(b) + b * ilog2(c)


# --------------------------------------------------------------------------
# Pitfall
# --------------------------------------------------------------------------
def draw_regular(seed, d, v):
    """the graph PitfallFormula draws when `random` has just been seeded with `seed`:
    exactly the call of pitfall.py, then Graph.normalize"""
    import networkx
    from cnfgen.graphs import Graph
    st = random.getstate()
    try:
        random.seed(seed)
        g = networkx.random_regular_graph(d, v)
    finally:
        random.setstate(st)
    G = Graph.normalize(g)
    return sorted([min(a, b), max(a, b)] for a, b in G.edges())


def pitfall_params(rng, tier):
    out = []
    shapes = [(4, 2), (4, 3), (5, 2), (6, 3), (5, 4), (3, 2), (2, 1), (6, 2)]
    if tier != 'quick':
        shapes += [(8, 3), (7, 4), (10, 3), (6, 5), (9, 2)]
    for (v, d) in shapes:
        for ny in (2, 3, 4):
            for nz in (2, 3):
                for k in ((2,) if tier == 'quick' and v > 5 else (2, 4)):
                    seed = rng.randint(1, 10 ** 6)
                    out.append(dict(v=v, d=d, ny=ny, nz=nz, k=k, seed=seed, edges=draw_regular(seed, d, v)))
    for s in range(6):   # DESIGN section 9 D31: v=4,d=2,ny=nz=k=2 for six seeds
        out.append(dict(v=4, d=2, ny=2, nz=2, k=2, seed=s + 1, edges=draw_regular(s + 1, 2, 4)))
    # outside the hypotheses of the property (ny,nz >= 2): compared with the model all the same
    out.append(dict(v=4, d=2, ny=1, nz=2, k=2, seed=7, edges=draw_regular(7, 2, 4), boundary=True))
    out.append(dict(v=4, d=3, ny=2, nz=1, k=2, seed=7, edges=draw_regular(7, 3, 4), boundary=True))
    out.append(dict(v=4, d=4, ny=2, nz=2, k=2, seed=7, edges=[], boundary=True))
    out.append(dict(v=4, d=2, ny=2, nz=2, k=3, seed=7, edges=[], malformed=True))
    out.append(dict(v=3, d=3, ny=2, nz=2, k=2, seed=7, edges=[], malformed=True))
    out.append(dict(v=3, d=5, ny=2, nz=2, k=2, seed=7, edges=[], malformed=True))
    return out


def pitfall_build(p, fc):
    import networkx
    from cnfgen.families.pitfall import PitfallFormula
    real = networkx.random_regular_graph

    def forced(d, n, seed=None):
        real(d, n, seed=0)          # same argument errors as the real generator
        g = networkx.Graph()
        g.add_nodes_from(range(n))
        g.add_edges_from((a - 1, b - 1) for a, b in p['edges'])
        return g
    networkx.random_regular_graph = forced
    try:
        return PitfallFormula(p['v'], p['d'], p['ny'], p['nz'], p['k'], formula_class=fc)
    finally:
        networkx.random_regular_graph = real


def _pitfall_req(variant, p):
    return cmd('fam_pitfall', variant, p['v'], p['d'], p['ny'], p['nz'], p['k'], p['edges'])


def pitfall_request(p):
    """the code as it is today: shift_edgelit unrepaired (D31), argument checks of commit cc7a963"""
    return _pitfall_req('as_is', p)


def pitfall_request_spec(p):
    return _pitfall_req('spec', p)


PITFALL_FINDING = dict(site='PitfallFormula', cls='shift_edgelit-negative-literals')


def pitfall_alternatives(p):
    """model variants the implementation may agree with, documented ones first.  `*_unvalidated` is the
    argument handling before commit cc7a963 (d = v -> NetworkXError, nz = 1 -> IndexError): outside the
    hypotheses of C03 (reported under C18), accepted silently here."""
    if p.get('stream'):       # valid arguments only: the *_unvalidated variants build the same formula
        return [dict(label='spec', request=_pitfall_req('spec', p), finding=None),
                dict(label='as_is', request=_pitfall_req('as_is', p), finding=PITFALL_FINDING)]
    return [dict(label='spec', request=_pitfall_req('spec', p), finding=None),
            dict(label='spec_unvalidated', request=_pitfall_req('spec_unvalidated', p), finding=None),
            dict(label='as_is', request=_pitfall_req('as_is', p), finding=PITFALL_FINDING),
            dict(label='as_is_unvalidated', request=_pitfall_req('as_is_unvalidated', p), finding=PITFALL_FINDING)]


def pitfall_numvar(p):
    nx = p['v'] * p['d'] // 2
    return p['k'] * (nx + p['ny'] + p['nz'] + nx + p['nz'] + 3)


def pitfall_cli(p, tmpdir):
    if p.get('malformed'):
        return None
    return ['--seed', str(p['seed']), 'pitfall', str(p['v']), str(p['d']), str(p['ny']), str(p['nz']), str(p['k'])]


# --------------------------------------------------------------------------
# Ramsey number, van der Waerden, Pythagorean triples
# --------------------------------------------------------------------------
def ram_params(rng, tier):
    top = 6 if tier == 'quick' else 7
    out = [dict(s=s, k=k, N=N) for s in range(1, 5) for k in range(1, 5) for N in range(0, top + 1)]
    out.append(dict(s=4, k=4, N=18, large=True))
    out.append(dict(s=3, k=5, N=14, large=True))
    if tier != 'quick':
        out.append(dict(s=5, k=5, N=22, large=True))
        out.append(dict(s=2, k=7, N=25, large=True))
    return out


def ram_build(p, fc):
    from cnfgen.families.ramsey import RamseyNumber
    return RamseyNumber(p['s'], p['k'], p['N'], formula_class=fc)


def ram_decode_ok(p, a):
    """a graph on 1..N (variable of the pair u<v in lexicographic order) with no independent set of
    size s and no clique of size k"""
    N = p['N']
    ids = {e: i + 1 for i, e in enumerate(all_pairs(N))}
    edge = lambda u, v: a[ids[(u, v)]]
    for S in itertools.combinations(range(1, N + 1), p['s']):
        if not any(edge(u, v) for u, v in itertools.combinations(S, 2)):
            return False
    for S in itertools.combinations(range(1, N + 1), p['k']):
        if all(edge(u, v) for u, v in itertools.combinations(S, 2)):
            return False
    return True


def _exists_by_enumeration(p, nvars, ok, limit=16):
    if nvars > limit:
        return None
    for bits in range(1 << nvars):
        a = [None] + [bool((bits >> i) & 1) for i in range(nvars)]
        if ok(p, a):
            return True
    return False


def ram_exists(p):
    return _exists_by_enumeration(p, p['N'] * (p['N'] - 1) // 2, ram_decode_ok)


def vdw_params(rng, tier):
    out = []
    topN = 8 if tier == 'quick' else 11
    for N in range(0, topN + 1):
        for ks in itertools.product(range(1, 5), repeat=2):
            out.append(dict(N=N, ks=list(ks)))
    for N in range(0, 6 if tier == 'quick' else 8):
        for ks in itertools.product(range(1, 4), repeat=3):
            out.append(dict(N=N, ks=list(ks)))
    for _ in range(10 if tier == 'quick' else 60):
        C = rng.randint(2, 5)
        out.append(dict(N=rng.randint(5, 60), ks=[rng.randint(2, 6) for _ in range(C)], large=True))
    out.append(dict(N=5, ks=[1, 2]))           # DESIGN D12
    out.append(dict(N=30, ks=[3, 1, 4], large=True))
    return out


def vdw_build(p, fc):
    from cnfgen.families.ramsey import VanDerWaerden
    return VanDerWaerden(p['N'], *p['ks'], formula_class=fc)


def vdw_numvar(p):
    return p['N'] if len(p['ks']) == 2 else p['N'] * len(p['ks'])


def _progressions(N, k):
    """all arithmetic progressions i, i+d, ..., i+(k-1)d inside 1..N with d >= 1 (for k = 1: single numbers)"""
    if k == 1:
        return [[i] for i in range(1, N + 1)]
    out = []
    for i in range(1, N + 1):
        d = 1
        while i + (k - 1) * d <= N:
            out.append([i + t * d for t in range(k)])
            d += 1
    return out


def vdw_decode_ok(p, a):
    N, ks = p['N'], p['ks']
    C = len(ks)
    if C == 2:
        # two colours, one variable per number: x_i false = colour 1, true = colour 2
        colour = lambda i: 2 if a[i] else 1
    else:
        for i in range(1, N + 1):
            if sum(1 for c in range(1, C + 1) if a[(i - 1) * C + c]) != 1:
                return False
        colour = lambda i: next(c for c in range(1, C + 1) if a[(i - 1) * C + c])
    for c in range(1, C + 1):
        for ap in _progressions(N, ks[c - 1]):
            if all(colour(i) == c for i in ap):
                return False
    return True


def vdw_exists(p):
    N, ks = p['N'], p['ks']
    C = len(ks)
    if C ** N > 70000:
        return None
    for col in itertools.product(range(1, C + 1), repeat=N):
        if not any(all(col[i - 1] == c for i in ap) for c in range(1, C + 1) for ap in _progressions(N, ks[c - 1])):
            return True
    return False


def ptn_params(rng, tier):
    out = [dict(N=N) for N in range(0, 31)]
    out += [dict(N=N, large=True) for N in ((60, 150) if tier == 'quick' else (60, 150, 400, 700))]
    return out


def ptn_build(p, fc):
    from cnfgen.families.ramsey import PythagoreanTriples
    return PythagoreanTriples(p['N'], formula_class=fc)


def ptn_decode_ok(p, a):
    N = p['N']
    for x in range(1, N + 1):
        for y in range(x + 1, N + 1):
            z = math.isqrt(x * x + y * y)
            if z <= N and z * z == x * x + y * y and a[x] == a[y] == a[z]:
                return False
    return True


def ptn_exists(p):
    return _exists_by_enumeration(p, p['N'], ptn_decode_ok, limit=16)


def never(p, a):
    return False


def no_object(p):
    return False



# --------------------------------------------------------------------------
# threshold / shape / history streams (notes/LARGE_STREAMS.md, harness/fam_streams.py)
# --------------------------------------------------------------------------
def _st(ps, stream):
    for q in ps:
        q['stream'] = stream
        q['large'] = True
    return ps


def _flagdicts(fl):
    return [dict(total=t, smart=s, plant=pl, knuth=kn) for (t, s, pl, kn) in fl]


KNUTH_OTHER = [1, 4, 7, -3, None, '2', [2]]      # "anything else suppresses it"


def op_streams(rng, tier):
    quick = tier == 'quick'
    out = []
    for n in (15, 16, 17):
        out += [dict(n=n, **f) for f in _flagdicts(FLAGS)]
    for n in (31, 32, 33, 40):
        out += [dict(n=n, only=['CNF'], **f) for f in _flagdicts(rng.sample(FLAGS, 1 if quick else 8))]
    if not quick:
        for n in range(8, 25):
            if n not in (15, 16, 17):
                out += [dict(n=n, **f) for f in _flagdicts(FLAGS)]
    _st(out, 'thresholds')
    sh = S.flag_shapes(rng, ['total', 'smart', 'plant'], [dict(n=n, knuth=kn) for n in (3, 4, 5, 6) for kn in (0, 2, 3)],
                       per_value=1 if quick else 3)
    for kv in KNUTH_OTHER:
        for f in _flagdicts(rng.sample(FLAGS, 2 if quick else 6)):
            sh.append(dict(f, n=rng.randint(3, 6), knuth=0, raw=dict(knuth=kv)))
    return out + _st(sh, 'shapes')


def gop_streams(rng, tier):
    quick = tier == 'quick'
    out = []
    graphs = [(17, S.star(17)), (16, S.star(16, hub=16)), (33, S.star(33, hub=17)), (17, S.path(17)), (16, S.cycle(16)),
              (16, S.two_cycles(8)), (18, S.two_cycles(8)), (17, []), (15, S.complete_minus(15, [[1, 15], [7, 8]])),
              (33, S.hub_on_path(33, 17, hub=33))]
    for (n, es) in graphs:
        for f in _flagdicts(rng.sample(FLAGS, 3 if quick else 10)):
            out.append(dict(n=n, edges=es, **f))
    if not quick:
        for (n, es) in ((40, S.star(40)), (40, S.cycle(40))):
            for f in _flagdicts(rng.sample(FLAGS, 4)):
                out.append(dict(n=n, edges=es, only=['CNF'], **f))
    _st(out, 'thresholds')
    sh = S.flag_shapes(rng, ['total', 'smart', 'plant'],
                       [dict(n=n, edges=random_graph_edges(rng, n, 0.5), knuth=kn) for n in (3, 4, 5) for kn in (0, 2, 3)],
                       per_value=1 if quick else 3)
    for kv in KNUTH_OTHER:
        n = rng.randint(3, 6)
        sh.append(dict(rng.choice(_flagdicts(FLAGS)), n=n, edges=random_graph_edges(rng, n, 0.5), knuth=0, raw=dict(knuth=kv)))
    hist = []
    for i in range(6 if quick else 60):
        phases = S.simple_history(rng)
        for ops, fl, st in S.history_points(phases, _flagdicts(rng.sample(FLAGS, 3))):
            n, es = S.simple_fields(st)
            hist.append(dict(fl, n=n, edges=es, ops=ops))
    return out + _st(sh, 'shapes') + _st(hist, 'history')


def _dag_path(n):
    return [[v, v + 1] for v in range(1, n)]


def _sink_hub(n):
    return [[u, n] for u in range(1, n)]


def _src_hub(n):
    return [[1, v] for v in range(2, n + 1)]


def _dag_hist(rng, count, extra):
    out = []
    for i in range(count):
        phases = S.dag_history(rng)
        for ops, fl, st in S.history_points(phases, []):
            out.append(dict(extra(), n=st['n'], edges=sorted(list(e) for e in st['edges']), ops=ops))
    return out


def peb_streams(rng, tier):
    out = [dict(n=n, edges=_dag_path(n)) for n in S.TH]
    out += [dict(n=d + 1, edges=_sink_hub(d + 1)) for d in S.TH[:13]]             # in-degree = threshold
    out += [dict(n=d + 1, edges=_src_hub(d + 1)) for d in (16, 17, 128, 129, 256, 257)]
    for h in (15, 16, 17, 22, 44):
        n, e = pyramid_edges(h)
        out.append(dict(n=n, edges=e))
    out.append(dict(n=300, edges=[]))                                              # isolated vertices only
    out.append(dict(n=260, edges=_dag_path(130) + [[u + 130, v + 130] for u, v in _dag_path(130)]))   # two equal components
    _st(out, 'thresholds')
    return out + _st(_dag_hist(rng, 8 if tier == 'quick' else 80, dict), 'history')


def stone_streams(rng, tier):
    out = [dict(n=n, edges=_dag_path(n), stones=2) for n in (15, 16, 17, 64, 65, 128, 129, 257, 300)]
    out += [dict(n=3, edges=_dag_path(3), stones=s) for s in (15, 16, 17, 33)]
    out += [dict(n=2, edges=[[1, 2]], stones=s) for s in (63, 64, 65)]
    out += [dict(n=d + 1, edges=_sink_hub(d + 1), stones=1) for d in (15, 16, 17, 64, 128, 129, 256, 257)]
    out += [dict(n=6, edges=_sink_hub(6), stones=3), dict(n=300, edges=[], stones=1), dict(n=17, edges=[], stones=17)]
    _st(out, 'thresholds')
    return out + _st(_dag_hist(rng, 6 if tier == 'quick' else 60, lambda: dict(stones=rng.randint(0, 3))), 'history')


def sstone_streams(rng, tier):
    out = []
    for n in (15, 16, 17, 65, 129, 257, 300):
        out.append(dict(n=n, edges=_dag_path(n), R=4, bedges=sorted([v, 1 + (v % 4)] for v in range(1, n + 1)) ))
    for R in (15, 16, 17, 64, 65, 129, 256, 257, 1025):
        js = sorted({1, 2, R // 2, R - 1, R})
        out.append(dict(n=3, edges=[[1, 2], [1, 3], [2, 3]], R=R, bedges=[[v, j] for v in range(1, 4) for j in js if 1 <= j]))
    out.append(dict(n=2, edges=[[1, 2]], R=17, bedges=[[v, j] for v in (1, 2) for j in range(1, 18)]))       # degree 17
    out.append(dict(n=3, edges=[[1, 3], [2, 3]], R=129, bedges=[[1, j] for j in range(1, 130)] + [[2, 1], [3, 129]]))
    out.append(dict(n=4, edges=[[1, 2]], R=5, bedges=[]))                                                   # empty mapping
    out.append(dict(n=20, edges=_sink_hub(20), R=1, bedges=[[v, 1] for v in range(1, 21)]))
    _st(out, 'thresholds')
    hist = []
    for i in range(6 if tier == 'quick' else 60):
        # history of the DAG, fixed mapping graph
        phases = S.dag_history(rng, n=rng.randint(1, 5))
        n = phases[0][0][1]
        R = rng.randint(0, 3)
        bed = [[v, j] for v in range(1, n + 1) for j in range(1, R + 1) if rng.random() < 0.6]
        for ops, fl, st in S.history_points(phases, []):
            hist.append(dict(n=n, edges=sorted(list(e) for e in st['edges']), R=R, bedges=bed, ops=ops))
        # history of the mapping graph, fixed DAG
        n = rng.randint(1, 5)
        ed = random_dag(rng, n, 0.4)
        phases = S.bipartite_history(rng, L=n, R=rng.randint(0, 3))
        for ops, fl, st in S.history_points(phases, []):
            hist.append(dict(n=n, edges=ed, R=st['R'], bedges=sorted(list(e) for e in st['edges']), bops=ops))
    return out + _st(hist, 'history')


def cpls_streams(rng, tier):
    trip = [(15, 2, 2), (16, 2, 2), (17, 2, 2), (63, 1, 2), (64, 2, 1), (65, 1, 1), (127, 1, 1), (128, 2, 2), (129, 1, 2), (255, 1, 1),
            (256, 1, 1), (257, 2, 1), (258, 1, 1), (300, 1, 1), (1, 16, 16), (2, 32, 2), (1, 64, 1), (1, 128, 1), (1, 256, 1), (2, 2, 32),
            (1, 1, 64), (1, 2, 128), (1, 1, 256), (1, 1, 1024), (1, 1024, 1)]
    if tier != 'quick':
        trip += [(2, 64, 2), (3, 8, 64), (2, 16, 16), (1000, 1, 1), (1025, 2, 2), (2, 2, 1024)]
    return _st([dict(a=a, b=b, c=c) for (a, b, c) in trip], 'thresholds')


def pitfall_streams(rng, tier):
    shapes = [(16, 3, 2, 2, 2), (17, 2, 2, 2, 2), (17, 4, 3, 2, 2), (34, 3, 2, 2, 2), (65, 2, 2, 2, 2), (64, 3, 2, 3, 2),
              (6, 3, 15, 2, 2), (6, 3, 16, 2, 2), (6, 3, 17, 2, 2), (6, 3, 2, 15, 2), (6, 3, 2, 16, 2), (6, 3, 2, 17, 2), (4, 2, 2, 65, 2),
              (6, 3, 2, 2, 16), (6, 3, 2, 2, 18), (4, 3, 2, 2, 64), (10, 9, 2, 2, 2), (9, 8, 2, 2, 2)]
    if tier != 'quick':
        shapes += [(130, 3, 2, 2, 2), (4, 2, 3, 3, 130), (258, 3, 2, 2, 2), (257, 2, 2, 2, 2), (300, 3, 2, 2, 2), (6, 3, 33, 2, 2), (6, 3, 2, 129, 2), (4, 3, 2, 2, 258)]
    out = []
    for (v, d, ny, nz, k) in shapes:
        seed = rng.randint(1, 10 ** 6)
        out.append(dict(v=v, d=d, ny=ny, nz=nz, k=k, seed=seed, edges=draw_regular(seed, d, v)))
    return _st(out, 'thresholds')


def ram_streams(rng, tier):
    top = 10 if tier == 'quick' else 12
    out = [dict(s=s, k=k, N=N) for N in range(7 if tier == 'quick' else 8, top + 1) for s in range(1, 6) for k in range(1, 6)]
    out += [dict(s=s, k=k, N=N) for N in range(0, 7) for s in range(1, 6) for k in range(1, 6) if s == 5 or k == 5]
    out += [dict(s=2, k=2, N=N) for N in (15, 16, 17, 23, 24)] + [dict(s=1, k=2, N=N) for N in (63, 64, 65)]
    out += [dict(s=s, k=3, N=N) for (s, N) in ((15, 16), (16, 16), (17, 16), (17, 17), (18, 17))]
    if tier != 'quick':
        out += [dict(s=2, k=2, N=N) for N in (32, 33, 64, 65)] + [dict(s=1, k=1, N=N) for N in (129, 257)]
    return _st(out, 'thresholds')


def vdw_streams(rng, tier):
    """two colours: every N <= 130 with the lengths k around the boundaries of the generator (k = N, N+1, k-1 dividing
    N-1, k-1 >= 49); the second length is small.  Thorough: EVERY 1 <= k <= N+1.  A sample with three colours."""
    quick = tier == 'quick'
    out, seen = [], set()

    def put(N, ks, **kw):
        key = (N, tuple(ks))
        if key not in seen:
            seen.add(key)
            lits = sum(k * sum(max(0, N - d * (k - 1)) for d in range(1, (N - 1) // (k - 1) + 1)) for k in ks if k > 1)
            if lits > 1500 and quick and (N + ks[0]) % 4:
                kw['only'] = ['CNF']
            out.append(dict(N=N, ks=list(ks), **kw))
    for N in range(1, 131):
        for k in range(1, N + 2):
            special = (k in (N, N + 1) or (k >= 3 and (N - 1) % (k - 1) == 0 and (k >= 6 or N <= 45))
                       or (k >= 50 and (N + k) % 11 == 0))
            if not quick or special:
                k2 = (1, N, N + 1, 2 if N <= 40 else N - 1, 3 if N <= 60 else N)[(N + k) % 5]
                if (N + k) % 2:
                    put(N, [k, k2])
                else:
                    put(N, [k2, k])
    for N in (16, 17, 64, 65, 128, 129):
        put(N, [2, 2])
        put(N, [3, 2])
        put(N, [1, 1])
    # beyond 256: the cost of one instance is about N^2/2 literals whatever k is, unless k is close to N
    for N in (256, 257, 300) if quick else (255, 256, 257, 258, 300):
        for k in sorted({3, 17, 50, 86, 128, 129, 130, N // 2 + 1, N - 1, N, N + 1}):
            put(N, [k, 1] if k % 2 else [N, k], only=['CNF'])
    for N in (1000, 1025):
        for k in (N - 16, N - 1, N, N + 1) + ((513,) if N == 1025 else ()):
            put(N, [k, N], only=['CNF'])
    for _ in range(60 if quick else 600):
        N = rng.randint(1, 80)
        ks = [rng.choice([1, 2, 3, 4, 5, N // 2, N // 2 + 1, N - 1, N, N + 1, rng.randint(1, N + 1)]) for _ in range(rng.choice([3, 3, 4]))]
        ks = [max(1, k) for k in ks]
        if sum(N * N // max(1, 2 * (k - 1)) for k in ks) < 4000:
            put(N, ks)
    return _st(out, 'thresholds')


def ptn_streams(rng, tier):
    """the model itself (Z.sqrt on binary numbers, quadratic) on a few threshold sizes (and, in c03.ptn_dense, on every N <= 120); the dense
    enumeration of every N up to PTN_DENSE is done by c03.ptn_dense against ONE model call (see there)"""
    ns = [255, 256, 257, 258, 300]
    if tier != 'quick':
        ns += list(range(121, 151)) + [400, 500, 650, 700]
    return _st([dict(N=N) for N in ns], 'thresholds')


PTN_DENSE = dict(quick=500, thorough=1000)

FAMILIES = [
    dict(name='op', prop='C03', streams=op_streams, kind='planted', impl='OrderingPrinciple', params=op_params, build=op_build, request=op_request,
         numvar_doc=op_numvar, decode_ok=gop_decode_ok, exists=gop_exists, cli=op_cli),
    dict(name='gop', prop='C03', streams=gop_streams, kind='planted', impl='GraphOrderingPrinciple', params=gop_params, build=gop_build, request=gop_request,
         numvar_doc=op_numvar, decode_ok=gop_decode_ok, exists=gop_exists, cli=gop_cli),
    dict(name='peb', prop='C03', streams=peb_streams, kind='contradiction', impl='PebblingFormula', params=peb_params, build=peb_build, request=peb_request,
         numvar_doc=lambda p: p['n'], decode_ok=never, exists=no_object, cli=peb_cli),
    dict(name='stone', prop='C03', streams=stone_streams, kind='contradiction', impl='StoneFormula', params=stone_params, build=stone_build, request=stone_request,
         numvar_doc=stone_numvar, decode_ok=never, exists=no_object, cli=stone_cli),
    dict(name='sstone', prop='C03', streams=sstone_streams, kind='contradiction', impl='SparseStoneFormula', params=sstone_params, build=sstone_build,
         request=sstone_request, numvar_doc=sstone_numvar, decode_ok=never, exists=no_object, cli=lambda p, t: None),
    dict(name='cpls', prop='C03', streams=cpls_streams, kind='contradiction', impl='CPLSFormula', params=cpls_params, build=cpls_build,
         request=lambda p: cmd('fam_cpls', p['a'], p['b'], p['c']), numvar_doc=cpls_numvar, decode_ok=never, exists=no_object,
         cli=lambda p, t: None if p.get('malformed') else ['cpls', str(p['a']), str(p['b']), str(p['c'])]),
    dict(name='pitfall', prop='C03', streams=pitfall_streams, kind='contradiction', impl='PitfallFormula', params=pitfall_params, build=pitfall_build,
         request=pitfall_request, request_spec=pitfall_request_spec, alternatives=pitfall_alternatives,
         numvar_doc=pitfall_numvar, decode_ok=never, exists=no_object, cli=pitfall_cli),
    dict(name='ram', prop='C03', streams=ram_streams, kind='ramsey', impl='RamseyNumber', params=ram_params, build=ram_build,
         request=lambda p: cmd('fam_ram', p['s'], p['k'], p['N']), numvar_doc=lambda p: p['N'] * (p['N'] - 1) // 2,
         decode_ok=ram_decode_ok, exists=ram_exists, cli=lambda p, t: ['ram', str(p['s']), str(p['k']), str(p['N'])]),
    dict(name='vdw', prop='C03', streams=vdw_streams, kind='ramsey', impl='VanDerWaerden', params=vdw_params, build=vdw_build,
         request=lambda p: cmd('fam_vdw', 'spec', p['N'], p['ks']), request_spec=lambda p: cmd('fam_vdw', 'spec', p['N'], p['ks']),
         # the two variants differ only when some length is 1 (vdw_aps_spec N k = vdw_aps N k otherwise, by definition)
         alternatives=lambda p: [dict(label='spec', request=cmd('fam_vdw', 'spec', p['N'], p['ks']), finding=None)] +
                                ([dict(label='as_is', request=cmd('fam_vdw', 'as_is', p['N'], p['ks']),
                                       finding=dict(site='VanDerWaerden', cls='progression-length-1'))] if 1 in p['ks'] else []),
         numvar_doc=vdw_numvar, decode_ok=vdw_decode_ok, exists=vdw_exists,
         cli=lambda p, t: ['vdw', str(p['N'])] + [str(k) for k in p['ks']]),
    dict(name='ptn', prop='C03', streams=ptn_streams, kind='ramsey', impl='PythagoreanTriples', params=ptn_params, build=ptn_build,
         request=lambda p: cmd('fam_ptn', p['N']), numvar_doc=lambda p: p['N'], decode_ok=ptn_decode_ok, exists=ptn_exists,
         cli=lambda p, t: ['ptn', str(p['N'])]),
]
