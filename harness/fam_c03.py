"""FAMILIES registry of property C03: contradictions (ordering principle, pebbling,
stone, CPLS, pitfall) and Ramsey-type benchmarks (ram, vdw, ptn).

Each entry (see notes/AGENT_GUIDE.md):
  name, prop, params(rng, tier), build(p, formula_class), request(p), numvar_doc(p),
  decode_ok(p, a), exists(p), cli(p, tmpdir)
and, for the two families that have (had) a defect in cnfgen (DESIGN section 6.6; pitfall D31 is still in
the code, vdw D12 was repaired by commit f79a20a),
  request_spec(p)  -- the request for the DOCUMENTED behaviour (model variant `spec`);
                      `request` is the model variant of the code as it is today
  alternatives(p)  -- list of dict(label, request, finding): every model variant the implementation may
                      agree with, documented ones first; `finding` = dict(site, cls) when agreement with
                      that variant means the defect is (still / again) in the code, else None.
                      Reusers (C08, C10, C17) should accept agreement with any alternative.
`kind`: 'contradiction' (documented unsatisfiable), 'planted', 'ramsey'.
`build`, `request`, `cli` are side-effect free (pitfall forces the graph that
networkx drew for p['seed'] by patching networkx.random_regular_graph during the call).
Oracles (`decode_ok`, `exists`) are written from the documentation only."""
import itertools
import math
import os
import random

from lib import cmd, import_impl


# --------------------------------------------------------------------------
# graph helpers (parameters are plain JSON-able dicts; objects are built in `build`)
# --------------------------------------------------------------------------
def all_pairs(n):
    return [(u, v) for u in range(1, n + 1) for v in range(u + 1, n + 1)]


def subsets_of_pairs(n):
    ps = all_pairs(n)
    for bits in range(1 << len(ps)):
        yield [list(ps[i]) for i in range(len(ps)) if (bits >> i) & 1]


def nbr_lists(n, edges):
    nb = [[] for _ in range(n + 1)]
    for u, v in edges:
        nb[u].append(v)
        nb[v].append(u)
    return [sorted(x) for x in nb[1:]]


def pred_lists(n, edges):
    pr = [[] for _ in range(n + 1)]
    for u, v in edges:
        pr[v].append(u)
    return [sorted(x) for x in pr[1:]]


def right_lists(n, bedges):
    r = [[] for _ in range(n + 1)]
    for v, j in bedges:
        r[v].append(j)
    return [sorted(x) for x in r[1:]]


def mk_graph(n, edges):
    from cnfgen.graphs import Graph
    G = Graph(n)
    for u, v in edges:
        G.add_edge(u, v)
    return G


def mk_dag(n, edges):
    from cnfgen.graphs import DirectedGraph
    D = DirectedGraph(n)
    for u, v in edges:
        D.add_edge(u, v)
    return D


def mk_bip(L, R, bedges):
    from cnfgen.graphs import BipartiteGraph
    B = BipartiteGraph(L, R)
    for u, v in bedges:
        B.add_edge(u, v)
    return B


def random_graph_edges(rng, n, p):
    return [list(e) for e in all_pairs(n) if rng.random() < p]


def pyramid_edges(h):
    """dag_pyramid as cnfgen builds it: level sizes h+1, h, ..., 1; sources first"""
    edges, level, nxt = [], list(range(1, h + 2)), h + 2
    n = h + 1
    while len(level) > 1:
        new = []
        for i in range(len(level) - 1):
            edges.append([level[i], nxt])
            edges.append([level[i + 1], nxt])
            new.append(nxt)
            nxt += 1
        level = new
        n += len(new)
    return n, edges


def write_graph(G, tmpdir, name, fmt='kthlist'):
    from cnfgen.graphs import writeGraph
    path = os.path.join(tmpdir, name)
    gtype = 'dag' if G.is_directed() else ('bipartite' if G.is_bipartite() else 'simple')
    writeGraph(G, path, gtype, fmt)
    return path


FLAGS = [(t, s, pl, kn) for t in (False, True) for s in (False, True) for pl in (False, True) for kn in (0, 2, 3)]


# --------------------------------------------------------------------------
# ordering principle
# --------------------------------------------------------------------------
def op_params(rng, tier):
    out = []
    top = 7 if tier == 'quick' else 10
    for n in range(0, top + 1):
        for (t, s, pl, kn) in FLAGS:
            out.append(dict(n=n, total=t, smart=s, plant=pl, knuth=kn))
    out.append(dict(n=3, total=False, smart=False, plant=False, knuth=5))   # any other value: plain
    out.append(dict(n=40, total=False, smart=False, plant=False, knuth=0, large=True))
    if tier != 'quick':
        out.append(dict(n=55, total=True, smart=False, plant=False, knuth=3, large=True))
        out.append(dict(n=70, total=False, smart=True, plant=True, knuth=0, large=True))
    for (t, s, pl, kn) in rng.sample(FLAGS, 6 if tier == 'quick' else 16):
        out.append(dict(n=rng.randint(15, 28), total=t, smart=s, plant=pl, knuth=kn, large=True))
    return out


def op_build(p, fc):
    from cnfgen.families.ordering import OrderingPrinciple
    return OrderingPrinciple(p['n'], total=p['total'], smart=p['smart'], plant=p['plant'], knuth=p['knuth'], formula_class=fc)


def op_request(p):
    return cmd('fam_op', p['n'], p['total'], p['smart'], p['plant'], p['knuth'])


def op_numvar(p):
    n = p['n']
    return n * (n - 1) // 2 if p['smart'] else n * (n - 1)


def _order_vars(p):
    """variable ids from the documentation: x_{u,v} for ordered pairs (u != v) in lexicographic
    order; compact representation: one variable per pair u < v, true when u precedes v"""
    n = p['n']
    ids, nxt = {}, 0
    if p['smart']:
        for u in range(1, n + 1):
            for v in range(u + 1, n + 1):
                nxt += 1
                ids[(u, v)] = nxt
    else:
        for u in range(1, n + 1):
            for v in range(1, n + 1):
                if u != v:
                    nxt += 1
                    ids[(u, v)] = nxt
    return ids


def gop_decode_ok(p, a):
    """the assignment describes a strict partial order (total when required) on 1..n in which every
    vertex -- except n when `plant` -- has a neighbour before it.  Only for the full transitivity
    variants (the Knuth variants state fewer transitivity axioms, so their models need not be orders)."""
    if p['knuth'] in (2, 3) and not p['smart']:
        return None
    n = p['n']
    ids = _order_vars(p)
    if p['smart']:
        before = lambda u, v: a[ids[(u, v)]] if u < v else not a[ids[(v, u)]]
    else:
        before = lambda u, v: a[ids[(u, v)]]
    V = range(1, n + 1)
    for u in V:
        for v in V:
            if u == v:
                continue
            if before(u, v) and before(v, u):
                return False
            if (p['total'] or p['smart']) and not before(u, v) and not before(v, u):
                return False
            for w in V:
                if w != u and w != v and before(u, v) and before(v, w) and not before(u, w):
                    return False
    nb = nbr_lists(n, p['edges']) if 'edges' in p else [[u for u in V if u != v] for v in V]
    for v in V:
        if p['plant'] and v == n:
            continue
        if not any(before(u, v) for u in nb[v - 1]):
            return False
    return True


def gop_exists(p):
    """is there a linear order of 1..n in which every vertex (except n when planted) comes after one of
    its neighbours?  Without `plant` the first element of any order has no earlier neighbour."""
    n = p['n']
    if n == 0:
        return True
    if not p['plant']:
        return False
    if n > 7:
        return None
    V = range(1, n + 1)
    nb = nbr_lists(n, p['edges']) if 'edges' in p else [[u for u in V if u != v] for v in V]
    for perm in itertools.permutations(V):
        pos = {v: i for i, v in enumerate(perm)}
        if all(v == n or any(pos[u] < pos[v] for u in nb[v - 1]) for v in V):
            return True
    return False


def op_cli(p, tmpdir):
    excl = int(p['total']) + int(p['smart']) + int(p['knuth'] in (2, 3))
    if excl > 1 or p['knuth'] not in (0, 2, 3):
        return None
    argv = ['op', str(p['n'])]
    return argv + _op_flags(p)


def _op_flags(p):
    out = []
    if p['total']:
        out.append('--total')
    if p['smart']:
        out.append('--smart')
    if p['knuth'] == 2:
        out.append('--knuth2')
    if p['knuth'] == 3:
        out.append('--knuth3')
    if p['plant']:
        out.append('--plant')
    return out


def gop_params(rng, tier):
    out = []
    top = 4 if tier == 'quick' else 5
    for n in range(0, top + 1):
        for edges in subsets_of_pairs(n):
            flags = FLAGS if n <= 3 else rng.sample(FLAGS, 8 if (tier == 'quick' or n == 4) else 6)
            for (t, s, pl, kn) in flags:
                out.append(dict(n=n, edges=edges, total=t, smart=s, plant=pl, knuth=kn))
    for _ in range(8 if tier == 'quick' else 40):
        n = rng.randint(6, 22)
        (t, s, pl, kn) = rng.choice(FLAGS)
        out.append(dict(n=n, edges=random_graph_edges(rng, n, rng.choice([0.1, 0.3, 0.6, 0.9])),
                        total=t, smart=s, plant=pl, knuth=kn, large=True))
    return out


def gop_build(p, fc):
    from cnfgen.families.ordering import GraphOrderingPrinciple
    return GraphOrderingPrinciple(mk_graph(p['n'], p['edges']), total=p['total'], smart=p['smart'],
                                  plant=p['plant'], knuth=p['knuth'], formula_class=fc)


def gop_request(p):
    return cmd('fam_gop', nbr_lists(p['n'], p['edges']), p['total'], p['smart'], p['plant'], p['knuth'])


def gop_cli(p, tmpdir):
    excl = int(p['total']) + int(p['smart']) + int(p['knuth'] in (2, 3))
    if excl > 1 or p['n'] == 0:
        return None
    path = write_graph(mk_graph(p['n'], p['edges']), tmpdir, 'gop.kthlist')
    return ['op', path] + _op_flags(p)


# --------------------------------------------------------------------------
# pebbling / stone / sparse stone
# --------------------------------------------------------------------------
def all_dags(top):
    for n in range(0, top + 1):
        for edges in subsets_of_pairs(n):
            yield n, edges


def random_dag(rng, n, p):
    return [list(e) for e in all_pairs(n) if rng.random() < p]


def peb_params(rng, tier):
    out = [dict(n=n, edges=e) for n, e in all_dags(4 if tier == 'quick' else 5)]
    n, e = pyramid_edges(12)
    out.append(dict(n=n, edges=e, large=True))
    for _ in range(5 if tier == 'quick' else 30):
        n = rng.randint(6, 40)
        out.append(dict(n=n, edges=random_dag(rng, n, rng.choice([0.05, 0.2, 0.5])), large=True))
    # not topologically sorted: ValueError expected
    out.append(dict(n=3, edges=[[2, 1], [1, 3]], malformed=True))
    out.append(dict(n=2, edges=[[1, 2], [2, 1]], malformed=True))
    return out


def peb_build(p, fc):
    from cnfgen.families.pebbling import PebblingFormula
    return PebblingFormula(mk_dag(p['n'], p['edges']), formula_class=fc)


def peb_request(p):
    return cmd('fam_peb', pred_lists(p['n'], p['edges']))


def peb_cli(p, tmpdir):
    if p['n'] == 0 or p.get('malformed'):
        return None
    return ['peb', write_graph(mk_dag(p['n'], p['edges']), tmpdir, 'peb.kthlist')]


def stone_params(rng, tier):
    out = []
    for n, e in all_dags(4 if tier == 'quick' else 5):
        for s in range(0, 4):
            if n == 5 and s == 3 and len(e) > 7:
                continue
            out.append(dict(n=n, edges=e, stones=s))
    n, e = pyramid_edges(4)
    out.append(dict(n=n, edges=e, stones=4, large=True))
    for _ in range(3 if tier == 'quick' else 12):
        n = rng.randint(5, 9)
        out.append(dict(n=n, edges=random_dag(rng, n, 0.3), stones=rng.randint(1, 4), large=True))
    out.append(dict(n=2, edges=[[2, 1]], stones=2, malformed=True))
    return out


def stone_build(p, fc):
    from cnfgen.families.pebbling import StoneFormula
    return StoneFormula(mk_dag(p['n'], p['edges']), p['stones'], formula_class=fc)


def stone_request(p):
    return cmd('fam_stone', pred_lists(p['n'], p['edges']), p['stones'])


def stone_numvar(p):
    return p['stones'] + p['n'] * p['stones']


def stone_cli(p, tmpdir):
    if p['n'] == 0 or p['stones'] == 0 or p.get('malformed'):
        return None
    return ['stone', str(p['stones']), write_graph(mk_dag(p['n'], p['edges']), tmpdir, 'stone.kthlist')]


def sstone_params(rng, tier):
    out = []
    top = 3 if tier == 'quick' else 4
    for n, e in all_dags(top):
        for R in range(0, 3):
            cells = [(v, j) for v in range(1, n + 1) for j in range(1, R + 1)]
            if n == 4 and R == 2:
                masks = [rng.randrange(1 << len(cells)) for _ in range(96)]
            else:
                masks = range(1 << len(cells))
            for bits in masks:
                out.append(dict(n=n, edges=e, R=R, bedges=[list(cells[i]) for i in range(len(cells)) if (bits >> i) & 1]))
    for _ in range(6 if tier == 'quick' else 40):
        n, R = rng.randint(4, 9), rng.randint(2, 5)
        bed = [[v, j] for v in range(1, n + 1) for j in range(1, R + 1) if rng.random() < 0.5]
        out.append(dict(n=n, edges=random_dag(rng, n, 0.35), R=R, bedges=bed, large=True))
    out.append(dict(n=2, edges=[[1, 2]], R=2, bedges=[[1, 1]], left=3, malformed=True))   # sizes differ
    return out


def sstone_build(p, fc):
    from cnfgen.families.pebbling import SparseStoneFormula
    return SparseStoneFormula(mk_dag(p['n'], p['edges']), mk_bip(p.get('left', p['n']), p['R'], p['bedges']), formula_class=fc)


def sstone_request(p):
    return cmd('fam_sstone', pred_lists(p['n'], p['edges']), right_lists(p.get('left', p['n']), p['bedges']), p['R'])


def sstone_numvar(p):
    return p['R'] + len(p['bedges'])


# --------------------------------------------------------------------------
# CPLS
# --------------------------------------------------------------------------
def cpls_params(rng, tier):
    pw = [1, 2, 4, 8] if tier == 'quick' else [1, 2, 4, 8, 16]
    out = [dict(a=a, b=b, c=c) for a in range(1, 4 if tier == 'quick' else 5) for b in pw for c in pw
           if not (b == 16 and c == 16 and a > 2)]
    out += [dict(a=2, b=3, c=2, malformed=True), dict(a=2, b=2, c=6, malformed=True), dict(a=1, b=5, c=7, malformed=True)]
    return out


def cpls_build(p, fc):
    from cnfgen.families.cpls import CPLSFormula
    return CPLSFormula(p['a'], p['b'], p['c'], formula_class=fc)


def ilog2(x):
    return x.bit_length() - 1


def cpls_numvar(p):
    a, b, c = p['a'], p['b'], p['c']
    return a * b * c + a * b * ilog2(b) + b * ilog2(c)


# --------------------------------------------------------------------------
# Pitfall
# --------------------------------------------------------------------------
def draw_regular(seed, d, v):
    """the graph PitfallFormula draws when `random` has just been seeded with `seed`:
    exactly the call of pitfall.py, then Graph.normalize"""
    import networkx
    from cnfgen.graphs import Graph
    st = random.getstate()
    try:
        random.seed(seed)
        g = networkx.random_regular_graph(d, v)
    finally:
        random.setstate(st)
    G = Graph.normalize(g)
    return sorted([min(a, b), max(a, b)] for a, b in G.edges())


def pitfall_params(rng, tier):
    out = []
    shapes = [(4, 2), (4, 3), (5, 2), (6, 3), (5, 4), (3, 2), (2, 1), (6, 2)]
    if tier != 'quick':
        shapes += [(8, 3), (7, 4), (10, 3), (6, 5), (9, 2)]
    for (v, d) in shapes:
        for ny in (2, 3, 4):
            for nz in (2, 3):
                for k in ((2,) if tier == 'quick' and v > 5 else (2, 4)):
                    seed = rng.randint(1, 10 ** 6)
                    out.append(dict(v=v, d=d, ny=ny, nz=nz, k=k, seed=seed, edges=draw_regular(seed, d, v)))
    for s in range(6):   # DESIGN section 9 D31: v=4,d=2,ny=nz=k=2 for six seeds
        out.append(dict(v=4, d=2, ny=2, nz=2, k=2, seed=s + 1, edges=draw_regular(s + 1, 2, 4)))
    # outside the hypotheses of the property (ny,nz >= 2): compared with the model all the same
    out.append(dict(v=4, d=2, ny=1, nz=2, k=2, seed=7, edges=draw_regular(7, 2, 4), boundary=True))
    out.append(dict(v=4, d=3, ny=2, nz=1, k=2, seed=7, edges=draw_regular(7, 3, 4), boundary=True))
    out.append(dict(v=4, d=4, ny=2, nz=2, k=2, seed=7, edges=[], boundary=True))
    out.append(dict(v=4, d=2, ny=2, nz=2, k=3, seed=7, edges=[], malformed=True))
    out.append(dict(v=3, d=3, ny=2, nz=2, k=2, seed=7, edges=[], malformed=True))
    out.append(dict(v=3, d=5, ny=2, nz=2, k=2, seed=7, edges=[], malformed=True))
    return out


def pitfall_build(p, fc):
    import networkx
    from cnfgen.families.pitfall import PitfallFormula
    real = networkx.random_regular_graph

    def forced(d, n, seed=None):
        real(d, n, seed=0)          # same argument errors as the real generator
        g = networkx.Graph()
        g.add_nodes_from(range(n))
        g.add_edges_from((a - 1, b - 1) for a, b in p['edges'])
        return g
    networkx.random_regular_graph = forced
    try:
        return PitfallFormula(p['v'], p['d'], p['ny'], p['nz'], p['k'], formula_class=fc)
    finally:
        networkx.random_regular_graph = real


def _pitfall_req(variant, p):
    return cmd('fam_pitfall', variant, p['v'], p['d'], p['ny'], p['nz'], p['k'], p['edges'])


def pitfall_request(p):
    """the code as it is today: shift_edgelit unrepaired (D31), argument checks of commit cc7a963"""
    return _pitfall_req('as_is', p)


def pitfall_request_spec(p):
    return _pitfall_req('spec', p)


PITFALL_FINDING = dict(site='PitfallFormula', cls='shift_edgelit-negative-literals')


def pitfall_alternatives(p):
    """model variants the implementation may agree with, documented ones first.  `*_unvalidated` is the
    argument handling before commit cc7a963 (d = v -> NetworkXError, nz = 1 -> IndexError): outside the
    hypotheses of C03 (reported under C18), accepted silently here."""
    return [dict(label='spec', request=_pitfall_req('spec', p), finding=None),
            dict(label='spec_unvalidated', request=_pitfall_req('spec_unvalidated', p), finding=None),
            dict(label='as_is', request=_pitfall_req('as_is', p), finding=PITFALL_FINDING),
            dict(label='as_is_unvalidated', request=_pitfall_req('as_is_unvalidated', p), finding=PITFALL_FINDING)]


def pitfall_numvar(p):
    nx = p['v'] * p['d'] // 2
    return p['k'] * (nx + p['ny'] + p['nz'] + nx + p['nz'] + 3)


def pitfall_cli(p, tmpdir):
    if p.get('malformed'):
        return None
    return ['--seed', str(p['seed']), 'pitfall', str(p['v']), str(p['d']), str(p['ny']), str(p['nz']), str(p['k'])]


# --------------------------------------------------------------------------
# Ramsey number, van der Waerden, Pythagorean triples
# --------------------------------------------------------------------------
def ram_params(rng, tier):
    top = 6 if tier == 'quick' else 7
    out = [dict(s=s, k=k, N=N) for s in range(1, 5) for k in range(1, 5) for N in range(0, top + 1)]
    out.append(dict(s=4, k=4, N=18, large=True))
    out.append(dict(s=3, k=5, N=14, large=True))
    if tier != 'quick':
        out.append(dict(s=5, k=5, N=22, large=True))
        out.append(dict(s=2, k=7, N=25, large=True))
    return out


def ram_build(p, fc):
    from cnfgen.families.ramsey import RamseyNumber
    return RamseyNumber(p['s'], p['k'], p['N'], formula_class=fc)


def ram_decode_ok(p, a):
    """a graph on 1..N (variable of the pair u<v in lexicographic order) with no independent set of
    size s and no clique of size k"""
    N = p['N']
    ids = {e: i + 1 for i, e in enumerate(all_pairs(N))}
    edge = lambda u, v: a[ids[(u, v)]]
    for S in itertools.combinations(range(1, N + 1), p['s']):
        if not any(edge(u, v) for u, v in itertools.combinations(S, 2)):
            return False
    for S in itertools.combinations(range(1, N + 1), p['k']):
        if all(edge(u, v) for u, v in itertools.combinations(S, 2)):
            return False
    return True


def _exists_by_enumeration(p, nvars, ok, limit=16):
    if nvars > limit:
        return None
    for bits in range(1 << nvars):
        a = [None] + [bool((bits >> i) & 1) for i in range(nvars)]
        if ok(p, a):
            return True
    return False


def ram_exists(p):
    return _exists_by_enumeration(p, p['N'] * (p['N'] - 1) // 2, ram_decode_ok)


def vdw_params(rng, tier):
    out = []
    topN = 8 if tier == 'quick' else 11
    for N in range(0, topN + 1):
        for ks in itertools.product(range(1, 5), repeat=2):
            out.append(dict(N=N, ks=list(ks)))
    for N in range(0, 6 if tier == 'quick' else 8):
        for ks in itertools.product(range(1, 4), repeat=3):
            out.append(dict(N=N, ks=list(ks)))
    for _ in range(10 if tier == 'quick' else 60):
        C = rng.randint(2, 5)
        out.append(dict(N=rng.randint(5, 60), ks=[rng.randint(2, 6) for _ in range(C)], large=True))
    out.append(dict(N=5, ks=[1, 2]))           # DESIGN D12
    out.append(dict(N=30, ks=[3, 1, 4], large=True))
    return out


def vdw_build(p, fc):
    from cnfgen.families.ramsey import VanDerWaerden
    return VanDerWaerden(p['N'], *p['ks'], formula_class=fc)


def vdw_numvar(p):
    return p['N'] if len(p['ks']) == 2 else p['N'] * len(p['ks'])


def _progressions(N, k):
    """all arithmetic progressions i, i+d, ..., i+(k-1)d inside 1..N with d >= 1 (for k = 1: single numbers)"""
    if k == 1:
        return [[i] for i in range(1, N + 1)]
    out = []
    for i in range(1, N + 1):
        d = 1
        while i + (k - 1) * d <= N:
            out.append([i + t * d for t in range(k)])
            d += 1
    return out


def vdw_decode_ok(p, a):
    N, ks = p['N'], p['ks']
    C = len(ks)
    if C == 2:
        # two colours, one variable per number: x_i false = colour 1, true = colour 2
        colour = lambda i: 2 if a[i] else 1
    else:
        for i in range(1, N + 1):
            if sum(1 for c in range(1, C + 1) if a[(i - 1) * C + c]) != 1:
                return False
        colour = lambda i: next(c for c in range(1, C + 1) if a[(i - 1) * C + c])
    for c in range(1, C + 1):
        for ap in _progressions(N, ks[c - 1]):
            if all(colour(i) == c for i in ap):
                return False
    return True


def vdw_exists(p):
    N, ks = p['N'], p['ks']
    C = len(ks)
    if C ** N > 70000:
        return None
    for col in itertools.product(range(1, C + 1), repeat=N):
        if not any(all(col[i - 1] == c for i in ap) for c in range(1, C + 1) for ap in _progressions(N, ks[c - 1])):
            return True
    return False


def ptn_params(rng, tier):
    out = [dict(N=N) for N in range(0, 31)]
    out += [dict(N=N, large=True) for N in ((60, 150) if tier == 'quick' else (60, 150, 400, 700))]
    return out


def ptn_build(p, fc):
    from cnfgen.families.ramsey import PythagoreanTriples
    return PythagoreanTriples(p['N'], formula_class=fc)


def ptn_decode_ok(p, a):
    N = p['N']
    for x in range(1, N + 1):
        for y in range(x + 1, N + 1):
            z = math.isqrt(x * x + y * y)
            if z <= N and z * z == x * x + y * y and a[x] == a[y] == a[z]:
                return False
    return True


def ptn_exists(p):
    return _exists_by_enumeration(p, p['N'], ptn_decode_ok, limit=16)


def never(p, a):
    return False


def no_object(p):
    return False


FAMILIES = [
    dict(name='op', prop='C03', kind='planted', impl='OrderingPrinciple', params=op_params, build=op_build, request=op_request,
         numvar_doc=op_numvar, decode_ok=gop_decode_ok, exists=gop_exists, cli=op_cli),
    dict(name='gop', prop='C03', kind='planted', impl='GraphOrderingPrinciple', params=gop_params, build=gop_build, request=gop_request,
         numvar_doc=op_numvar, decode_ok=gop_decode_ok, exists=gop_exists, cli=gop_cli),
    dict(name='peb', prop='C03', kind='contradiction', impl='PebblingFormula', params=peb_params, build=peb_build, request=peb_request,
         numvar_doc=lambda p: p['n'], decode_ok=never, exists=no_object, cli=peb_cli),
    dict(name='stone', prop='C03', kind='contradiction', impl='StoneFormula', params=stone_params, build=stone_build, request=stone_request,
         numvar_doc=stone_numvar, decode_ok=never, exists=no_object, cli=stone_cli),
    dict(name='sstone', prop='C03', kind='contradiction', impl='SparseStoneFormula', params=sstone_params, build=sstone_build,
         request=sstone_request, numvar_doc=sstone_numvar, decode_ok=never, exists=no_object, cli=lambda p, t: None),
    dict(name='cpls', prop='C03', kind='contradiction', impl='CPLSFormula', params=cpls_params, build=cpls_build,
         request=lambda p: cmd('fam_cpls', p['a'], p['b'], p['c']), numvar_doc=cpls_numvar, decode_ok=never, exists=no_object,
         cli=lambda p, t: None if p.get('malformed') else ['cpls', str(p['a']), str(p['b']), str(p['c'])]),
    dict(name='pitfall', prop='C03', kind='contradiction', impl='PitfallFormula', params=pitfall_params, build=pitfall_build,
         request=pitfall_request, request_spec=pitfall_request_spec, alternatives=pitfall_alternatives,
         numvar_doc=pitfall_numvar, decode_ok=never, exists=no_object, cli=pitfall_cli),
    dict(name='ram', prop='C03', kind='ramsey', impl='RamseyNumber', params=ram_params, build=ram_build,
         request=lambda p: cmd('fam_ram', p['s'], p['k'], p['N']), numvar_doc=lambda p: p['N'] * (p['N'] - 1) // 2,
         decode_ok=ram_decode_ok, exists=ram_exists, cli=lambda p, t: ['ram', str(p['s']), str(p['k']), str(p['N'])]),
    dict(name='vdw', prop='C03', kind='ramsey', impl='VanDerWaerden', params=vdw_params, build=vdw_build,
         request=lambda p: cmd('fam_vdw', 'spec', p['N'], p['ks']), request_spec=lambda p: cmd('fam_vdw', 'spec', p['N'], p['ks']),
         alternatives=lambda p: [dict(label='spec', request=cmd('fam_vdw', 'spec', p['N'], p['ks']), finding=None),
                                 dict(label='as_is', request=cmd('fam_vdw', 'as_is', p['N'], p['ks']),
                                      finding=dict(site='VanDerWaerden', cls='progression-length-1'))],
         numvar_doc=vdw_numvar, decode_ok=vdw_decode_ok, exists=vdw_exists,
         cli=lambda p, t: ['vdw', str(p['N'])] + [str(k) for k in p['ks']]),
    dict(name='ptn', prop='C03', kind='ramsey', impl='PythagoreanTriples', params=ptn_params, build=ptn_build,
         request=lambda p: cmd('fam_ptn', p['N']), numvar_doc=lambda p: p['N'], decode_ok=ptn_decode_ok, exists=ptn_exists,
         cli=lambda p, t: ['ptn', str(p['N'])]),
]
