"""Running the command line tools of the repository in fresh child processes."""
import json
import os
import subprocess
import tempfile
from concurrent.futures import ThreadPoolExecutor

import lib

CHILD = os.path.join(os.path.dirname(os.path.abspath(__file__)), 'cli_child.py')


def run_cli(tool, argv, stdin=b'', cwd=None, hashseed='0', trace=False, prestate=None, timeout=120, env_extra=None):
    """returns dict(rc, out, err, trace, timeout)"""
    env = dict(os.environ)
    env['PYTHONHASHSEED'] = str(hashseed)
    env['PYTHONPATH'] = lib.REPO
    env[lib.GUARD] = '1'
    env.pop('PYTHONSTARTUP', None)
    if env_extra:
        env.update(env_extra)
    tf = '-'
    if trace:
        fd, tf = tempfile.mkstemp(prefix='trace', suffix='.json')
        os.close(fd)
    cmdl = [lib.PY, '-W', 'ignore', CHILD, lib.REPO, tool, tf, str(prestate) if prestate is not None else '-', '--'] + [str(a) for a in argv]
    res = dict(rc=None, out=b'', err=b'', trace=None, timeout=False)
    try:
        p = subprocess.run(cmdl, input=stdin, stdout=subprocess.PIPE, stderr=subprocess.PIPE, cwd=cwd or lib.REPO,
                           env=env, timeout=timeout)
        res.update(rc=p.returncode, out=p.stdout, err=p.stderr)
        tail = p.stderr[-300:]
        if b'MemoryError' in tail and b'Traceback' in p.stderr:
            res.update(timeout=True, oom=True)      # the address-space cap of cli_child.py: a resource limit, filed with the timeouts
    except subprocess.TimeoutExpired as e:
        res.update(timeout=True, out=e.stdout or b'', err=e.stderr or b'')
    if trace:
        try:
            res['trace'] = json.load(open(tf))
        except Exception:
            res['trace'] = None
        try:
            os.unlink(tf)
        except OSError:
            pass
    return res


def parallel(jobs, workers=14):
    """jobs: list of zero-argument callables; returns results in order"""
    with ThreadPoolExecutor(max_workers=workers) as ex:
        return list(ex.map(lambda f: f(), jobs))
