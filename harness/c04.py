"""C04 -- linear, parity, majority and mapping constraint builders.

Correspondence: the clause / constraint lists produced by cnfgen (CNF and OPB
classes) are compared, in order, with the lists produced by the extracted Coq
model (Linear.v, Mapping.v) on the same arguments.  When they differ, the
implementation's output is evaluated on every assignment against the plain
arithmetic meaning to find a failing input for the property itself."""
import itertools

from lib import cmd, outcome, is_error, import_impl, lit_true, cnf_sat, pb_sat, assignments

META = dict(
    technique='Coq theorems (add_linear_sem, add_parity_sem, normalize_opb_sem, force_*_sem) + extracted-model differential check (exact clause lists)',
    category='proof',
    text='Machine-checked theorems state, for every literal list, operator, integer constant, mapping shape and assignment, '
         'that the CNF and pseudo-Boolean encodings built by the model hold exactly when the stated arithmetic/functional '
         'condition holds; the model is tied to the code by comparing, in order, the clauses/constraints cnfgen produces with '
         'those of the extracted model on enumerated and seeded-random arguments (list, tuple, range, generator).',
    note='Trusted: Coq kernel, extraction (ExtrOcamlBasic/ExtrOcamlString), OCaml driver, the harness. The model is hand-written; '
         'agreement with the code is checked only on the arguments the run enumerates (see evidence input_distribution). '
         'Theorems for <=, <, ==, != and parity assume no literal is 0 (cnfgen rejects 0 under check=True).',
    design_ref='5/C04',
)

OPS = ['<=', '>=', '<', '>', '==', '!=']
ARITH = {'<=': lambda x, k: x <= k, '>=': lambda x, k: x >= k, '<': lambda x, k: x < k,
         '>': lambda x, k: x > k, '==': lambda x, k: x == k, '!=': lambda x, k: x != k}


def containers(lits):
    """the same literal sequence as list, tuple, generator and (when possible) range"""
    out = [('list', lambda: list(lits)), ('tuple', lambda: tuple(lits)), ('generator', lambda: (x for x in lits))]
    if len(lits) >= 1 and all(lits[i + 1] == lits[i] + 1 for i in range(len(lits) - 1)) and 0 not in lits:
        a, b = lits[0], lits[-1] + 1
        out.append(('range', lambda: range(a, b)))
    return out


def lit_lists(ctx, quick):
    """structured literal lists: all-positive, mixed polarity, with repeated and opposite literals"""
    rng = ctx.rng
    maxn = 7 if quick else 11
    out = []
    for n in range(0, maxn + 1):
        out.append(('consecutive', list(range(1, n + 1))))
        out.append(('negative-consecutive', list(range(-n, 0))))
        for _ in range(2 if quick else 5):
            out.append(('mixed', [rng.choice([1, -1]) * v for v in rng.sample(range(1, 3 * n + 2), n)]))
        if n >= 2:
            l = [rng.choice([1, -1]) * rng.randint(1, n) for _ in range(n)]
            out.append(('repeated', l))
            l = [rng.choice([1, -1]) * v for v in rng.sample(range(1, 2 * n + 1), n - 1)]
            l.insert(rng.randrange(n), -l[0])
            out.append(('opposite', l))
    return out


def meaning_fails_cnf(lits, op_fun, clauses):
    """search an assignment on which the clause list and the arithmetic meaning differ"""
    vs = sorted({abs(l) for l in lits} | {abs(l) for c in clauses for l in c})
    if len(vs) > 14:
        return None
    n = max(vs) if vs else 0
    idx = {v: i for i, v in enumerate(vs)}
    for bits in range(1 << len(vs)):
        a = {v: bool((bits >> idx[v]) & 1) for v in vs}
        want = op_fun(sum(1 for l in lits if (a[abs(l)] if l > 0 else not a[abs(l)])))
        got = all(any((a[abs(l)] if l > 0 else not a[abs(l)]) for l in c) for c in clauses)
        if want != got:
            return {str(v): a[v] for v in vs}
    return None


def meaning_fails_opb(lits, op_fun, constraints):
    vs = sorted({abs(l) for l in lits} | {abs(l) for c in constraints for (_, l) in c[:-2]})
    if len(vs) > 14:
        return None
    idx = {v: i for i, v in enumerate(vs)}
    for bits in range(1 << len(vs)):
        a = {v: bool((bits >> idx[v]) & 1) for v in vs}
        val = lambda l: a[abs(l)] if l > 0 else not a[abs(l)]
        want = op_fun(sum(1 for l in lits if val(l)))
        got = True
        for c in constraints:
            s = sum(co for (co, l) in c[:-2] if val(l))
            if not {'>=': s >= c[-1], '==': s == c[-1]}.get(c[-2], False):
                got = False
        if want != got:
            return {str(v): a[v] for v in vs}
    return None


def pbc_to_py(c):
    terms, op, deg = c
    return [tuple(t) for t in terms] + [op, deg]


def run(ctx):
    import_impl()
    from cnfgen.formula.cnf import CNF
    from cnfgen.formula.opb import OPB
    from cnfgen.formula.baseopb import normalize_opb
    quick = ctx.tier == 'quick'
    jobs = []   # (stream, descr, request, impl thunk, kind, semantic search fn)

    def add(stream, descr, req, thunk, post, search, key, nontrivial=True):
        jobs.append((stream, descr, req, thunk, post, search, key, nontrivial))

    for cls_name, lits in lit_lists(ctx, quick):
        n = len(lits)
        ctx.tally('literal-list class', cls_name)
        ctx.tally('literal-list length', n)
        for op in OPS:
            for k in range(-2, n + 3):
                for cont_name, mk in containers(lits):
                    if quick and cont_name != 'list' and (k + n) % 3 != 0 and op != '!=':
                        continue   # thin the container sweep in the quick tier (all containers kept for '!=')
                    for fclass in ('CNF', 'OPB'):
                        def thunk(mk=mk, op=op, k=k, fclass=fclass):
                            F = CNF() if fclass == 'CNF' else OPB()
                            arg = mk()
                            before = list(arg) if not hasattr(arg, '__next__') else None
                            F.add_linear(arg, op, k) if fclass == 'CNF' else {
                                '<=': F.cardinality_leq, '>=': F.cardinality_geq, '==': F.cardinality_eq,
                                '!=': F.cardinality_neq,
                                '<': lambda l, v: F.add_constraint([(1, x) for x in l] + ['<', v]),
                                '>': lambda l, v: F.add_constraint([(1, x) for x in l] + ['>', v])}[op](arg, k)
                            if before is not None and list(arg) != before:
                                raise AssertionError('argument modified')
                            return [list(c) for c in F]
                        req = cmd('add_linear' if fclass == 'CNF' else 'opb_linear', lits, op, k)
                        fun = (lambda x, k=k, op=op: ARITH[op](x, k))
                        add('linear-' + fclass, dict(call='add_linear', cls=fclass, lits=lits, op=op, k=k, container=cont_name),
                            req, thunk, (lambda r: r) if fclass == 'CNF' else (lambda r: [pbc_to_py(c) for c in r]),
                            (meaning_fails_cnf if fclass == 'CNF' else meaning_fails_opb, lits, fun),
                            ('lin', fclass, tuple(lits), op, k, cont_name), nontrivial=(n >= 1))
        # parity
        if n <= (6 if quick else 9):
            for const in (0, 1):
                for fclass in ('CNF', 'OPB'):
                    for cont_name, mk in containers(lits):
                        def thunk(mk=mk, const=const, fclass=fclass):
                            F = CNF() if fclass == 'CNF' else OPB()
                            F.add_parity(mk(), const)
                            return [list(c) for c in F]
                        fun = (lambda x, const=const: x % 2 == const)
                        add('parity-' + fclass, dict(call='add_parity', cls=fclass, lits=lits, constant=const, container=cont_name),
                            cmd('add_parity' if fclass == 'CNF' else 'opb_parity', lits, const), thunk,
                            (lambda r: r) if fclass == 'CNF' else (lambda r: [pbc_to_py(c) for c in r]),
                            (meaning_fails_cnf if fclass == 'CNF' else meaning_fails_opb, lits, fun),
                            ('par', fclass, tuple(lits), const, cont_name), nontrivial=(n >= 1))
        # majorities
        for name, fun in (('loose_majority', lambda x, n=n: 2 * x >= n), ('loose_minority', lambda x, n=n: 2 * x <= n),
                          ('strict_majority', lambda x, n=n: 2 * x > n), ('strict_minority', lambda x, n=n: 2 * x < n)):
            for fclass in ('CNF', 'OPB'):
                for cont_name, mk in containers(lits):
                    def thunk(mk=mk, name=name, fclass=fclass):
                        F = CNF() if fclass == 'CNF' else OPB()
                        getattr(F, 'add_' + name)(mk())
                        return [list(c) for c in F]
                    add('majority-' + fclass, dict(call='add_' + name, cls=fclass, lits=lits, container=cont_name),
                        cmd(('add_' if fclass == 'CNF' else 'opb_') + name, lits), thunk,
                        (lambda r: r) if fclass == 'CNF' else (lambda r: [pbc_to_py(c) for c in r]),
                        (meaning_fails_cnf if fclass == 'CNF' else meaning_fails_opb, lits, fun),
                        ('maj', fclass, name, tuple(lits), cont_name), nontrivial=(n >= 1))

    # normalize_opb on raw constraints (negative / zero coefficients, all five operators)
    rng = ctx.rng
    for i in range(400 if quick else 4000):
        n = rng.randint(0, 6)
        terms = [(rng.randint(-4, 4), rng.choice([1, -1]) * rng.randint(1, 5)) for _ in range(n)]
        op = rng.choice(['<=', '>=', '<', '>', '=='])
        deg = rng.randint(-7, 7)
        raw = [tuple(t) for t in terms] + [op, deg]
        ctx.tally('normalize operator', op)

        def thunk(raw=raw):
            return normalize_opb(list(raw))

        def search(dummy, raw=raw):
            pass
        add('normalize', dict(call='normalize_opb', constraint=raw), cmd('normalize_opb', [[list(t) for t in terms], op, deg]),
            thunk, pbc_to_py, ('normalize', raw), ('norm', tuple(terms), op, deg), nontrivial=(n >= 1))

    replies = ctx.model.batch([j[2] for j in jobs])
    for (stream, descr, req, thunk, post, search, key, nontrivial), rep in zip(jobs, replies):
        ctx.count(stream, key, nontrivial, sample=descr)
        if is_error(rep):
            ctx.violation('correspondence', 'model error', dict(input=descr, model=rep), False, site='model-error', cls=stream)
            continue
        expect = post(rep)
        got = outcome(thunk)
        if got[0] == 'ok':
            if stream == 'normalize':
                val = [tuple(x) if isinstance(x, (list, tuple)) else x for x in got[1]]
                exp = [tuple(x) if isinstance(x, (list, tuple)) else x for x in expect]
            else:
                val = [[tuple(x) if isinstance(x, (list, tuple)) else x for x in c] for c in got[1]]
                exp = [[tuple(x) if isinstance(x, (list, tuple)) else x for x in c] for c in expect]
            if val == exp:
                continue
            ctx.disagreements_checked += 1
            witness = None
            if search[0] == 'normalize':
                raw = search[1]
                witness = normalize_fails(raw, got[1])
            else:
                fn, lits, fun = search
                try:
                    witness = fn(lits, fun, got[1])
                except Exception as e:  # malformed output
                    witness = {'malformed-output': repr(e)}
            site = descr['call'] + '-' + descr.get('cls', '')
            if witness is not None:
                ctx.violation('counterexample', 'the constraint built by %s does not mean its arithmetic condition' % descr['call'],
                              dict(input=descr, assignment=witness, implementation=got[1], model=expect), True, site=site, cls='semantics')
            else:
                ctx.violation('correspondence', 'output differs from the model (Linear.v); theorems C04_* no longer cover the code',
                              dict(input=descr, implementation=got[1], model=expect, correspondence='Linear.v <-> ' + descr['call']),
                              False, site=site, cls='order-or-shape')
        else:
            ctx.disagreements_checked += 1
            cont = descr.get('container', 'list')
            ctx.violation('counterexample', 'builder raised %s on a valid argument (given as %s)' % (got[1], cont),
                          dict(input=descr, implementation=list(got[1:]), model=expect), True,
                          site=descr['call'] + '-' + descr.get('cls', ''), cls='raises-%s-%s' % (got[1], cont))

    from c04_mapping import run_mappings
    run_mappings(ctx)
    ctx.exhaustive = False


def normalize_fails(raw, out):
    """assignment on which raw and normalized constraint differ, or a shape defect"""
    try:
        terms = raw[:-2]
        vs = sorted({abs(l) for (_, l) in terms} | {abs(l) for (_, l) in out[:-2]})
        if out[-2] not in ('>=', '=='):
            return {'shape': 'operator ' + str(out[-2])}
        for (c, l), (c0, l0) in zip(out[:-2], terms):
            if c < 0 or (c == 0 and c0 != 0):
                return {'shape': 'coefficient %r' % (c,)}
        idx = {v: i for i, v in enumerate(vs)}
        for bits in range(1 << len(vs)):
            a = {v: bool((bits >> idx[v]) & 1) for v in vs}
            val = lambda l: a[abs(l)] if l > 0 else not a[abs(l)]
            s0 = sum(c for (c, l) in terms if val(l))
            s1 = sum(c for (c, l) in out[:-2] if val(l))
            w = {'>=': s0 >= raw[-1], '==': s0 == raw[-1], '<=': s0 <= raw[-1], '>': s0 > raw[-1], '<': s0 < raw[-1]}[raw[-2]]
            g = {'>=': s1 >= out[-1], '==': s1 == out[-1]}[out[-2]]
            if w != g:
                return {str(v): a[v] for v in vs}
    except Exception as e:
        return {'malformed-output': repr(e)}
    return None
