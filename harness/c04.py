"""C04 -- linear, parity, majority and mapping constraint builders.

Correspondence: the clause / constraint lists produced by cnfgen (CNF and OPB
classes) are compared, in order, with the lists produced by the extracted Coq
model (Linear.v, Mapping.v) on the same arguments.  When they differ, the
implementation's output is evaluated on every assignment against the plain
arithmetic meaning to find a failing input for the property itself.

Streams added by the strengthening round (notes/LARGE_STREAMS.md), run FIRST as a corpus:
  thresholds-*  add_parity / add_linear / majorities on 15..18 literals (up to 2^17 clauses,
                compared in order), '!=' and '==' on 17..20 literals, literal lists of length
                63..1025 with the operators/constants whose output stays small, literal VALUES
                255..1025 (fresh int objects, so that `is` and `==` differ);
  shapes-*      wide lists with repeated literals and opposite pairs, given as list / tuple /
                range / generator;
  history-*     one formula object receiving a random sequence of builder calls (the same
                argument object reused), compared with the concatenation of the model outputs.
For more than 14 variables the failing-input search uses structured assignments (all true,
all false, prefixes, single flips), assignments directed at the clauses on which the two
outputs differ, and random ones."""
import itertools

from lib import cmd, outcome, is_error, import_impl, lit_true, cnf_sat, pb_sat, assignments

META = dict(
    technique='Coq theorems (add_linear_sem, add_parity_sem, normalize_opb_sem, force_*_sem) + extracted-model differential check (exact clause lists)',
    category='proof',
    text='Machine-checked theorems state, for every literal list, operator, integer constant, mapping shape and assignment, '
         'that the CNF and pseudo-Boolean encodings built by the model hold exactly when the stated arithmetic/functional '
         'condition holds; the model is tied to the code by comparing, in order, the clauses/constraints cnfgen produces with '
         'those of the extracted model on enumerated and seeded-random arguments (list, tuple, range, generator), including '
         'lists of 15-20 literals (up to 2^17 clauses), lists of 63-1025 literals, literal values beyond 256 and 1000, and '
         'sequences of calls on one formula object.',
    note='Trusted: Coq kernel, extraction (ExtrOcamlBasic/ExtrOcamlString), OCaml driver, the harness. The model is hand-written; '
         'agreement with the code is checked only on the arguments the run enumerates (see evidence input_distribution). '
         'Theorems for <=, <, ==, != and parity assume no literal is 0 (cnfgen rejects 0 under check=True).',
    design_ref='5/C04',
)

OPS = ['<=', '>=', '<', '>', '==', '!=']
ARITH = {'<=': lambda x, k: x <= k, '>=': lambda x, k: x >= k, '<': lambda x, k: x < k,
         '>': lambda x, k: x > k, '==': lambda x, k: x == k, '!=': lambda x, k: x != k}


def containers(lits):
    """the same literal sequence as list, tuple, generator and (when possible) range"""
    out = [('list', lambda: list(lits)), ('tuple', lambda: tuple(lits)), ('generator', lambda: (x for x in lits))]
    if len(lits) >= 1 and all(lits[i + 1] == lits[i] + 1 for i in range(len(lits) - 1)) and 0 not in lits:
        a, b = lits[0], lits[-1] + 1
        out.append(('range', lambda: range(a, b)))
    return out


def lit_lists(ctx, quick):
    """structured literal lists: all-positive, mixed polarity, with repeated and opposite literals"""
    rng = ctx.rng
    maxn = 7 if quick else 11
    out = []
    for n in range(0, maxn + 1):
        out.append(('consecutive', list(range(1, n + 1))))
        out.append(('negative-consecutive', list(range(-n, 0))))
        for _ in range(2 if quick else 5):
            out.append(('mixed', [rng.choice([1, -1]) * v for v in rng.sample(range(1, 3 * n + 2), n)]))
        if n >= 2:
            l = [rng.choice([1, -1]) * rng.randint(1, n) for _ in range(n)]
            out.append(('repeated', l))
            l = [rng.choice([1, -1]) * v for v in rng.sample(range(1, 2 * n + 1), n - 1)]
            l.insert(rng.randrange(n), -l[0])
            out.append(('opposite', l))
    return out



# --------------------------------------------------------------------------
# failing-input search beyond 14 variables: structured, directed and random assignments
# --------------------------------------------------------------------------
def _val(a, l):
    return a[l] if l > 0 else not a[-l]


def eval_cnf(a, clauses):
    for c in clauses:
        for l in c:
            if a[l] if l > 0 else not a[-l]:
                break
        else:
            return False
    return True


def eval_opb(a, constraints):
    for c in constraints:
        s = sum(co for (co, l) in c[:-2] if _val(a, l))
        if not {'>=': s >= c[-1], '==': s == c[-1]}.get(c[-2], False):
            return False
    return True


def _hashable(c):
    return tuple(tuple(x) if isinstance(x, (list, tuple)) else x for x in c)


def clip(xs, keep=60):
    """a big clause list is kept in a replay file as its length, its head and its tail"""
    if not isinstance(xs, list) or len(xs) <= 2 * keep:
        return xs
    return dict(length=len(xs), head=xs[:keep], tail=xs[-keep:])


def first_difference(a, b):
    n = min(len(a), len(b))
    for i in range(n):
        if _hashable(a[i]) != _hashable(b[i]):
            return dict(index=i, implementation=a[i], model=b[i])
    if len(a) != len(b):
        return dict(index=n, implementation_length=len(a), model_length=len(b))
    return None


def sampled_witness(lits, op_fun, impl, model, kind, seed=0, budget_s=25.0):
    """assignment on which `impl` (clauses or constraints) and the arithmetic meaning of `lits`
    differ; candidates: structured ones, ones that falsify a clause/constraint on which impl and
    model differ (the rest completed in several ways), random ones"""
    import random
    import time
    rng = random.Random(seed)
    t0 = time.time()
    lits_of = (lambda c: list(c)) if kind == 'cnf' else (lambda c: [l for (_, l) in c[:-2]])
    ev = eval_cnf if kind == 'cnf' else eval_opb
    vs = sorted({abs(l) for l in lits} | {abs(l) for c in impl for l in lits_of(c)})
    if not vs:
        vs = []
    top = (max(vs) if vs else 0) + 1

    def blank(v):
        a = [v] * top
        return a

    def lit_fill(a, free, value):
        """make the literals of `lits` over the free variables true/false (first occurrence wins)"""
        seen = set()
        for l in lits:
            if abs(l) in free and abs(l) not in seen:
                seen.add(abs(l))
                a[abs(l)] = (l > 0) == value
        return a

    def candidates():
        yield blank(False)
        yield blank(True)
        allv = set(vs)
        yield lit_fill(blank(False), allv, True)
        yield lit_fill(blank(False), allv, False)
        n = len(lits)
        # prefixes / suffixes of true literals: every value of the sum is reached
        for j in range(n + 1):
            a = lit_fill(blank(False), allv, False)
            for l in lits[:j]:
                a[abs(l)] = l > 0
            yield a
            a = lit_fill(blank(False), allv, False)
            for l in lits[n - j:]:
                a[abs(l)] = l > 0
            yield a
        # directed: falsify (or put at the boundary) what only one side contains
        si = {_hashable(c) for c in impl}
        sm = {_hashable(c) for c in model}
        only = [c for c in impl if _hashable(c) not in sm][:40] + [c for c in model if _hashable(c) not in si][:40]
        for c in only:
            cl = lits_of(c)
            fixed = {abs(l) for l in cl}
            free = set(vs) - fixed
            if kind == 'cnf' or (c[-2] == '>=' and c[-1] == 1):
                targets = [0]
            else:
                targets = [c[-1] - 1, c[-1], c[-1] + 1]
            for t in targets:
                base = blank(False)
                for i, l in enumerate(cl):
                    base[abs(l)] = (l > 0) == (i < t)
                for fill in ('lt', 'lf', 'vt', 'vf', 'r', 'r', 'r', 'r'):
                    a = list(base)
                    if fill == 'lt':
                        lit_fill(a, free, True)
                    elif fill == 'lf':
                        lit_fill(a, free, False)
                    else:
                        for v in free:
                            a[v] = True if fill == 'vt' else False if fill == 'vf' else rng.random() < 0.5
                    yield a
        # single flips
        for v in vs[:64]:
            a = blank(False)
            a[v] = True
            yield a
            a = blank(True)
            a[v] = False
            yield a
        for _ in range(300):
            p = rng.choice([0.1, 0.3, 0.5, 0.7, 0.9])
            a = blank(False)
            for v in vs:
                a[v] = rng.random() < p
            yield a

    for a in candidates():
        want = op_fun(sum(1 for l in lits if _val(a, l)))
        got = ev(a, impl)
        if want != got:
            return {'assignment': {str(v): a[v] for v in vs}, 'arithmetic_condition': want, 'constraints_hold': got}
        if time.time() - t0 > budget_s:
            break
    return None


def meaning_fails_cnf(lits, op_fun, clauses, model=None):
    """search an assignment on which the clause list and the arithmetic meaning differ"""
    vs = sorted({abs(l) for l in lits} | {abs(l) for c in clauses for l in c})
    if len(vs) > 14:
        return sampled_witness(lits, op_fun, clauses, model or [], 'cnf')
    n = max(vs) if vs else 0
    idx = {v: i for i, v in enumerate(vs)}
    for bits in range(1 << len(vs)):
        a = {v: bool((bits >> idx[v]) & 1) for v in vs}
        want = op_fun(sum(1 for l in lits if (a[abs(l)] if l > 0 else not a[abs(l)])))
        got = all(any((a[abs(l)] if l > 0 else not a[abs(l)]) for l in c) for c in clauses)
        if want != got:
            return {str(v): a[v] for v in vs}
    return None


def meaning_fails_opb(lits, op_fun, constraints, model=None):
    vs = sorted({abs(l) for l in lits} | {abs(l) for c in constraints for (_, l) in c[:-2]})
    if len(vs) > 14:
        return sampled_witness(lits, op_fun, constraints, model or [], 'opb')
    idx = {v: i for i, v in enumerate(vs)}
    for bits in range(1 << len(vs)):
        a = {v: bool((bits >> idx[v]) & 1) for v in vs}
        val = lambda l: a[abs(l)] if l > 0 else not a[abs(l)]
        want = op_fun(sum(1 for l in lits if val(l)))
        got = True
        for c in constraints:
            s = sum(co for (co, l) in c[:-2] if val(l))
            if not {'>=': s >= c[-1], '==': s == c[-1]}.get(c[-2], False):
                got = False
        if want != got:
            return {str(v): a[v] for v in vs}
    return None


def pbc_to_py(c):
    terms, op, deg = c
    return [tuple(t) for t in terms] + [op, deg]


# --------------------------------------------------------------------------
# thresholds / shapes / history streams (notes/LARGE_STREAMS.md)
# --------------------------------------------------------------------------
THRESHOLD_SIZES = [63, 64, 65, 127, 128, 129, 255, 256, 257, 258, 300, 1000, 1025]
THRESHOLD_VALUES = [15, 16, 17, 63, 64, 65, 127, 128, 129, 255, 256, 257, 258, 300, 1000, 1025]


def fresh(lits):
    """equal values as DISTINCT int objects (CPython shares ints only up to 256)"""
    return [int(str(l)) for l in lits]


def wide_lits(rng, n, kind):
    if kind == 'consecutive':
        return list(range(1, n + 1))
    if kind == 'consecutive-from-250':
        return list(range(250, 250 + n))
    if kind == 'mixed':
        return [rng.choice([1, -1]) * v for v in rng.sample(range(1, 3 * n + 2), n)]
    if kind == 'mixed-large-values':
        pool = rng.sample(range(240, 240 + 4 * n), n - 3) + [256, 257, 1000]
        rng.shuffle(pool)
        return [rng.choice([1, -1]) * v for v in pool]
    if kind == 'repeated':
        l = [rng.choice([1, -1]) * v for v in rng.sample(range(1, 2 * n), n - 2)]
        l.insert(rng.randrange(n - 1), l[0])
        l.insert(rng.randrange(n), l[-1])
        return l
    if kind == 'opposite':
        l = [rng.choice([1, -1]) * v for v in rng.sample(range(1, 2 * n), n - 2)]
        l.insert(rng.randrange(n - 1), -l[0])
        l.append(-l[1])
        return l
    if kind == 'repeated-large-values':
        l = [rng.choice([1, -1]) * v for v in rng.sample(range(257, 257 + 2 * n), n - 2)]
        l.insert(rng.randrange(n - 1), l[0])
        l.insert(rng.randrange(n), -l[-1])
        return l
    raise KeyError(kind)


def call_builder(F, fclass, call, arg, *rest):
    """one public builder call on formula F (CNF or OPB object)"""
    if call == 'add_linear':
        op, k = rest
        if fclass == 'CNF':
            return F.add_linear(arg, op, k)
        return {'<=': F.cardinality_leq, '>=': F.cardinality_geq, '==': F.cardinality_eq, '!=': F.cardinality_neq,
                '<': lambda l, v: F.add_constraint([(1, x) for x in l] + ['<', v]),
                '>': lambda l, v: F.add_constraint([(1, x) for x in l] + ['>', v])}[op](arg, k)
    if call == 'add_parity':
        return F.add_parity(arg, rest[0])
    if call == 'add_clause':
        return F.add_clause(arg)
    return getattr(F, call)(arg)


def model_cmd(fclass, call, lits, *rest):
    pre = 'add_' if fclass == 'CNF' else 'opb_'
    if call == 'add_linear':
        return cmd(pre + 'linear', lits, rest[0], rest[1])
    if call == 'add_parity':
        return cmd(pre + 'parity', lits, rest[0])
    if call == 'add_clause':
        return cmd(pre + 'linear', lits, '>=', 1) if lits else None
    return cmd(pre + call[len('add_'):], lits)


MEANING = {
    'add_loose_majority': lambda n: (lambda x: 2 * x >= n), 'add_loose_minority': lambda n: (lambda x: 2 * x <= n),
    'add_strict_majority': lambda n: (lambda x: 2 * x > n), 'add_strict_minority': lambda n: (lambda x: 2 * x < n)}


def comb_nodes(n, k):
    """number of calls the extracted `combs` / `neq_clauses` make on n elements and parameter k (upper bound)"""
    import math
    if k >= n:
        return 2 ** min(n, 64)
    return sum(math.comb(n, j) for j in range(0, k + 1))


def model_cost(n, op, k, fclass):
    """(model steps, literals in the output) of add_linear / opb_linear on n literals"""
    import math

    def geq(k):
        if k <= 0 or k > n:
            return (1, 1)
        return (comb_nodes(n, n - k + 1), math.comb(n, n - k + 1) * (n - k + 1))
    if op == '!=':
        if k < 0 or k > n:
            return (1, 1)
        return (comb_nodes(n, k), math.comb(n, k) * n)
    if fclass == 'OPB':
        return (n, n)
    if op == '>=':
        return geq(k)
    if op == '>':
        return geq(k + 1)
    if op == '<=':
        return geq(n - k)
    if op == '<':
        return geq(n - k + 1)
    a, b = geq(k), geq(n - k)
    return (a[0] + b[0], a[1] + b[1])


def closed_form(lits, op, k):
    """the single clause cnfgen documents for the constraints that say 'at least one literal is true' /
    'not all literals are true'; None for every other constraint"""
    n = len(lits)
    if (op, k) in (('>=', 1), ('>', 0)):
        return [list(lits)]
    if (op, k) in (('<=', n - 1), ('<', n), ('!=', n)):
        return [[-l for l in lits]]
    return None


def closed_job(ctx, add, CNF, OPB, mk, fclass, lits, op, k, closed, cont, kind):
    def thunk():
        F = CNF() if fclass == 'CNF' else OPB()
        call_builder(F, fclass, 'add_linear', mk(), op, k)
        return [list(c) for c in F]
    if fclass == 'OPB' and op != '!=':
        return     # one constraint: asked to the model
    expect = closed if fclass == 'CNF' else [[(1, l) for l in c] + ['>=', 1] for c in closed]
    stream = 'thresholds-long-closedform'
    ctx.tally(stream + ': literal-list length', len(lits))
    ctx.tally(stream + ': call', 'add_linear ' + op)
    add(stream + '-' + fclass, dict(call='add_linear', cls=fclass, lits=lits, op=op, k=k, container=cont, oracle='closed form'),
        cmd('add_linear', [], '>=', 0), thunk, (lambda r, expect=expect: expect),
        (meaning_fails_cnf if fclass == 'CNF' else meaning_fails_opb, lits, (lambda x, k=k, op=op: ARITH[op](x, k))),
        (stream, fclass, tuple(lits), op, k, cont), nontrivial=True)


def large_streams(ctx, quick, add, CNF, OPB):
    """jobs of the thresholds-* and shapes-* streams"""
    rng = ctx.rng
    post = {'CNF': (lambda r: r), 'OPB': (lambda r: [pbc_to_py(c) for c in r])}
    fails = {'CNF': meaning_fails_cnf, 'OPB': meaning_fails_opb}
    mkc = {'list': lambda l: (lambda: fresh(l)), 'tuple': lambda l: (lambda: tuple(fresh(l))),
           'generator': lambda l: (lambda: (x for x in fresh(l))), 'range': lambda l: (lambda: range(l[0], l[-1] + 1))}

    def job(stream, fclass, call, lits, rest, fun, cont='list', tag=None):
        mk = mkc[cont](lits)
        cl = CNF if fclass == 'CNF' else OPB

        def thunk():
            F = cl()
            arg = mk()
            before = list(arg) if not hasattr(arg, '__next__') else None
            call_builder(F, fclass, call, arg, *rest)
            if before is not None and list(arg) != before:
                raise AssertionError('argument modified')
            return [list(c) for c in F]
        descr = dict(call=call, cls=fclass, lits=lits, container=cont)
        if call == 'add_linear':
            descr.update(op=rest[0], k=rest[1])
        elif call == 'add_parity':
            descr.update(constant=rest[0])
        ctx.tally(stream + ': literal-list length', len(lits))
        ctx.tally(stream + ': call', call + (' ' + rest[0] if call == 'add_linear' else ''))
        if tag:
            ctx.tally(stream + ': literal-list class', tag)
        ctx.tally(stream + ': largest literal value', max([abs(l) for l in lits] + [0]))
        add(stream + '-' + fclass, descr, model_cmd(fclass, call, lits, *rest), thunk, post[fclass],
            (fails[fclass], lits, fun), (stream, fclass, call, tuple(lits), tuple(rest), cont), nontrivial=len(lits) >= 1)

    def linear(stream, lits, op, k, classes=('CNF', 'OPB'), cont='list', tag=None):
        for fclass in classes:
            job(stream, fclass, 'add_linear', lits, (op, k), (lambda x, k=k, op=op: ARITH[op](x, k)), cont, tag)

    def parity(stream, lits, const, classes=('CNF', 'OPB'), cont='list', tag=None):
        for fclass in classes:
            job(stream, fclass, 'add_parity', lits, (const,), (lambda x, const=const: x % 2 == const), cont, tag)

    # ---- (a) parity on 15..18 literals: 2^(n-1) clauses, compared in order ----
    if quick:
        plan = [(15, 0, 'consecutive-from-250', ('CNF', 'OPB')), (16, 1, 'mixed', ('CNF',)), (17, 0, 'mixed-large-values', ('CNF',)),
                (17, 1, 'consecutive', ('CNF',)), (16, 0, 'opposite', ('OPB',)), (17, 1, 'mixed', ('OPB',))]
    else:
        plan = [(n, c, kind, ('CNF', 'OPB') if (n <= 16 and kind in ('consecutive', 'opposite')) else ('CNF',))
                for n in (15, 16, 17) for c in (0, 1) for kind in ('consecutive', 'mixed-large-values', 'repeated', 'opposite')]
        plan += [(18, 0, 'consecutive', ('CNF',)), (18, 1, 'mixed-large-values', ('CNF',)),
                 (17, 1, 'mixed', ('OPB',)), (17, 0, 'consecutive-from-250', ('OPB',))]
    for n, c, kind, classes in plan:
        lits = wide_lits(rng, n, kind)
        cont = 'range' if kind.startswith('consecutive') and c == 1 else ('tuple' if n == 16 else 'list')
        parity('thresholds-wide', lits, c, classes, cont, kind)

    # ---- (b) add_linear on 15..18 literals, every operator; majorities ----
    for n in (15, 16, 17, 18):
        kinds = ['consecutive', 'mixed-large-values'] if quick else ['consecutive', 'mixed-large-values', 'opposite', 'repeated-large-values']
        for kind in kinds:
            lits = wide_lits(rng, n, kind)
            conts = ['list', 'generator'] + (['range'] if kind == 'consecutive' else ['tuple'])
            for op in OPS:
                ks = [-1, 0, 1, 2, n - 2, n - 1, n, n + 1]
                if not quick or (n in (16, 17) and op in ('>=', '<=', '==') and kind == 'consecutive') \
                        or (n == 17 and op in ('!=', '<', '>') and kind != 'consecutive'):
                    ks += [n // 2] if (quick or kind not in ('consecutive', 'repeated-large-values')) else [3, n // 2, n // 2 + 1, n - 3]
                for k in ks:
                    cont = conts[(k + n + len(op)) % len(conts)]
                    linear('thresholds-wide', lits, op, k, cont=cont, tag=kind)
            if n in (16, 17) or not quick:
                for name in sorted(MEANING):
                    for fclass in ('CNF', 'OPB'):
                        if quick and kind != 'consecutive' and fclass == 'CNF':
                            continue
                        job('thresholds-wide', fclass, name, lits, (), MEANING[name](n), 'list', kind)

    # ---- (c) '!=' and '==' on 17..20 literals with small constants ----
    for n in (17, 18, 19, 20):
        for kind in (['repeated-large-values'] if quick else ['consecutive', 'mixed', 'opposite', 'repeated-large-values']):
            lits = wide_lits(rng, n, kind)
            for op in ('!=', '=='):
                for k in ([0, 1, 2, n - 1, n] if quick else [-1, 0, 1, 2, 3, n - 3, n - 2, n - 1, n, n + 1]):
                    linear('thresholds-wide', lits, op, k, cont=('tuple' if k % 2 else 'list'), tag=kind)

    # ---- (d) long literal lists, operators and constants whose output stays small ----
    # The extracted `combs l k` explores sum_{j<=k} C(n,j) nodes (Comb.v is written for proofs, not speed), so the
    # model is asked only where that is small; where the answer is ONE clause but the model would need 2^n steps
    # ('>=' 1, '>' 0, '<=' n-1, '<' n, '!=' n) the expected clause is written down directly (stream
    # thresholds-long-closedform: an oracle of the harness, not the model).
    sizes = [64, 65, 129, 256, 257, 258, 1000] if quick else THRESHOLD_SIZES
    for n in sizes:
        for kind in ('consecutive', 'mixed', 'opposite'):
            if quick and kind == 'opposite' and n not in (65, 257):
                continue
            lits = wide_lits(rng, n, kind)
            plan = [(op, k) for op in OPS for k in (-1, 0, 1, 2, n - 2, n - 1, n, n + 1)]
            for i, (op, k) in enumerate(plan):
                if quick and kind != 'consecutive' and i % 3 != n % 3:
                    continue
                conts = ['list', 'tuple', 'generator'] + (['range'] if kind == 'consecutive' else [])
                cont = conts[(i + n) % len(conts)]
                for fclass in ('CNF', 'OPB'):
                    cost, out = model_cost(n, op, k, fclass)
                    if cost <= 300000 and out <= (150000 if quick else 1200000):
                        linear('thresholds-long', lits, op, k, classes=(fclass,), cont=cont, tag=kind)
                        continue
                    closed = closed_form(lits, op, k)
                    if closed is None:
                        ctx.tally('thresholds-long: not run (model cost)', '%s %s' % (op, 'n%+d' % (k - n) if k > 2 else k))
                        continue
                    closed_job(ctx, add, CNF, OPB, mkc[cont](lits), fclass, lits, op, k, closed, cont, kind)
            # the OPB majorities are one constraint each
            for name in sorted(MEANING):
                job('thresholds-long', 'OPB', name, lits, (), MEANING[name](n), 'list', kind)

    # ---- (e) short lists of LARGE literal values (fresh int objects), everything ----
    nlists = 10 if quick else 60
    for i in range(nlists):
        n = rng.randint(1, 5)
        pool = [v + d for v in (255, 256, 257, 258, 300, 1000, 1025) for d in (0, 1)]
        lits = [rng.choice([1, -1]) * rng.choice(pool) for _ in range(n)]
        kind = 'large-values'
        if n >= 2 and i % 3 == 0:
            lits[-1] = lits[0]
            kind = 'large-values-repeated'
        elif n >= 2 and i % 3 == 1:
            lits[-1] = -lits[0]
            kind = 'large-values-opposite'
        for op in OPS:
            for k in range(-1, n + 2):
                linear('shapes-values', lits, op, k, cont=('list', 'tuple', 'generator')[(k + i) % 3], tag=kind)
        for c in (0, 1):
            parity('shapes-values', lits, c, tag=kind)
        for name in sorted(MEANING):
            for fclass in ('CNF', 'OPB'):
                job('shapes-values', fclass, name, lits, (), MEANING[name](n), 'list', kind)
        if len(set(lits)) == n and sorted(lits) == list(range(min(lits), min(lits) + n)) and min(lits) > 0:
            pass
    # ranges that straddle 256 / 1000
    for a, b in [(250, 262), (255, 258), (256, 257), (257, 258), (996, 1004)] if quick else \
            [(250, 262), (255, 258), (256, 257), (257, 258), (996, 1004), (1020, 1030), (254, 272), (120, 135)]:
        lits = list(range(a, b))
        n = len(lits)
        for op in OPS:
            for k in sorted({-1, 0, 1, 2, n - 1, n, n + 1}):
                if n > 8 and op in ('==', '<=', '<', '>', '>=') and 2 < k < n - 2:
                    continue
                linear('shapes-values', lits, op, k, cont='range', tag='range-across-256-or-1000')
        for c in (0, 1):
            if n <= 12:
                parity('shapes-values', lits, c, cont='range', tag='range-across-256-or-1000')


def history_stream(ctx, quick, CNF, OPB):
    """one formula object receives a random sequence of builder calls; the same argument object is
    passed to several calls.  The whole content is compared with the concatenation of the model's
    outputs, the variable count with the largest variable mentioned."""
    rng = ctx.rng
    nseq = 40 if quick else 400
    calls = ['add_linear', 'add_linear', 'add_linear', 'add_parity', 'add_clause'] + sorted(MEANING)
    seqs = []
    reqs = []
    for si in range(nseq):
        fclass = 'CNF' if si % 2 == 0 else 'OPB'
        steps = []
        shared = None
        base = rng.choice([0, 0, 250, 1000])
        for _ in range(rng.randint(2, 7)):
            if shared is not None and rng.random() < 0.4:
                lits = shared                      # the SAME list object again
                reuse = True
            else:
                n = rng.randint(0, 5)
                lits = fresh([rng.choice([1, -1]) * (base + rng.randint(1, 8)) for _ in range(n)])
                shared = lits
                reuse = False
            call = rng.choice(calls)
            if call == 'add_linear':
                rest = (rng.choice(OPS), rng.randint(-1, len(lits) + 1))
            elif call == 'add_parity':
                rest = (rng.randint(0, 1),)
            else:
                rest = ()
            steps.append((call, lits, rest, reuse))
            if call == 'add_clause' and not lits:
                reqs.append(None)
            else:
                reqs.append(model_cmd(fclass, call, list(lits), *rest))
        seqs.append((fclass, steps))
    replies = iter(ctx.model.batch([r for r in reqs if r is not None]))
    ri = iter(reqs)
    for si, (fclass, steps) in enumerate(seqs):
        F = CNF() if fclass == 'CNF' else OPB()
        expect = []
        err = None
        log = []
        maxvar = 0
        for call, lits, rest, reuse in steps:
            req = next(ri)
            if req is None:
                rep = [[]] if fclass == 'CNF' else [[[], '>=', 1]]
            else:
                rep = next(replies)
            if is_error(rep):
                err = rep
                break
            expect += rep if fclass == 'CNF' else [pbc_to_py(c) for c in rep]
            before = list(lits)
            maxvar = max([maxvar] + [abs(l) for l in lits])
            log.append(dict(call=call, lits=before, args=list(rest), same_object_as_previous=reuse))
            ctx.tally('history: call', call)
            r = outcome(call_builder, F, fclass, call, lits, *rest)
            if r[0] != 'ok':
                err = r
                break
            if list(lits) != before:
                err = ('exc', 'AssertionError', 'argument modified')
                break
        descr = dict(call='sequence', cls=fclass, steps=log)
        ctx.count('history-' + fclass, ('hist', si), True, sample=descr)
        ctx.tally('history: sequence length', len(steps))
        if err is not None:
            ctx.disagreements_checked += 1
            if is_error(err):
                ctx.violation('correspondence', 'model error', dict(input=descr, model=err), False, site='model-error', cls='history')
            else:
                ctx.violation('counterexample', 'builder raised %s in a sequence of calls on one formula' % err[1],
                              dict(input=descr, implementation=list(err[1:])), True, site=log[-1]['call'] + '-' + fclass,
                              cls='history-raises-' + err[1])
            continue
        got = [[tuple(x) if isinstance(x, (list, tuple)) else x for x in c] for c in F]
        exp = [[tuple(x) if isinstance(x, (list, tuple)) else x for x in c] for c in expect]
        if got == exp and F.number_of_variables() == maxvar:
            continue
        ctx.disagreements_checked += 1
        # which step went wrong?  replay the steps on fresh formulas: a difference there is a failing input of
        # that builder (the fresh-formula streams look for the assignment); otherwise the history matters
        ctx.violation('counterexample', 'a sequence of builder calls on ONE formula object does not produce the concatenation of '
                      'what each call produces on its own (or a wrong variable count %r, expected %r)' % (F.number_of_variables(), maxvar),
                      dict(input=descr, implementation=[list(c) for c in F], model=expect, first_difference=first_difference(got, exp)),
                      True, site='sequence-' + fclass, cls='history')


def run(ctx):
    import_impl()
    from cnfgen.formula.cnf import CNF
    from cnfgen.formula.opb import OPB
    from cnfgen.formula.baseopb import normalize_opb
    quick = ctx.tier == 'quick'
    jobs = []   # (stream, descr, request, impl thunk, kind, semantic search fn)

    def add(stream, descr, req, thunk, post, search, key, nontrivial=True):
        jobs.append((stream, descr, req, thunk, post, search, key, nontrivial))

    # the corpus of large / rare inputs runs first
    large_streams(ctx, quick, add, CNF, OPB)

    for cls_name, lits in lit_lists(ctx, quick):
        n = len(lits)
        ctx.tally('literal-list class', cls_name)
        ctx.tally('literal-list length', n)
        for op in OPS:
            for k in range(-2, n + 3):
                for cont_name, mk in containers(lits):
                    if quick and cont_name != 'list' and (k + n) % 3 != 0 and op != '!=':
                        continue   # thin the container sweep in the quick tier (all containers kept for '!=')
                    for fclass in ('CNF', 'OPB'):
                        def thunk(mk=mk, op=op, k=k, fclass=fclass):
                            F = CNF() if fclass == 'CNF' else OPB()
                            arg = mk()
                            before = list(arg) if not hasattr(arg, '__next__') else None
                            F.add_linear(arg, op, k) if fclass == 'CNF' else {
                                '<=': F.cardinality_leq, '>=': F.cardinality_geq, '==': F.cardinality_eq,
                                '!=': F.cardinality_neq,
                                '<': lambda l, v: F.add_constraint([(1, x) for x in l] + ['<', v]),
                                '>': lambda l, v: F.add_constraint([(1, x) for x in l] + ['>', v])}[op](arg, k)
                            if before is not None and list(arg) != before:
                                raise AssertionError('argument modified')
                            return [list(c) for c in F]
                        req = cmd('add_linear' if fclass == 'CNF' else 'opb_linear', lits, op, k)
                        fun = (lambda x, k=k, op=op: ARITH[op](x, k))
                        add('linear-' + fclass, dict(call='add_linear', cls=fclass, lits=lits, op=op, k=k, container=cont_name),
                            req, thunk, (lambda r: r) if fclass == 'CNF' else (lambda r: [pbc_to_py(c) for c in r]),
                            (meaning_fails_cnf if fclass == 'CNF' else meaning_fails_opb, lits, fun),
                            ('lin', fclass, tuple(lits), op, k, cont_name), nontrivial=(n >= 1))
                        # the same call with check=False on a formula that already has the variables: the flag only skips the
                        # validation of the literals, the constraint added must be the same (every container, every operator)
                        if n >= 1 and 0 not in lits and (fclass == 'CNF' or op not in ('<', '>')):
                            if quick and (k + n) % 2 != 0 and op != '==':
                                continue
                            def thunk_nc(mk=mk, op=op, k=k, fclass=fclass, top=max(abs(x) for x in lits)):
                                F = CNF() if fclass == 'CNF' else OPB()
                                F.update_variable_number(top)
                                arg = mk()
                                before = list(arg) if not hasattr(arg, '__next__') else None
                                if fclass == 'CNF' and op in ('<', '>'):
                                    F.add_linear(arg, op, k, check=False)
                                else:
                                    {'<=': F.cardinality_leq, '>=': F.cardinality_geq, '==': F.cardinality_eq,
                                     '!=': F.cardinality_neq}[op](arg, k, check=False) if (fclass == 'OPB' or k % 2) else \
                                        F.add_linear(arg, op, k, check=False)
                                if before is not None and list(arg) != before:
                                    raise AssertionError('argument modified')
                                return [list(c) for c in F]
                            add('linear-nocheck-' + fclass, dict(call='add_linear / cardinality_*', cls=fclass, lits=lits, op=op, k=k,
                                                                 container=cont_name, check=False),
                                req, thunk_nc, (lambda r: r) if fclass == 'CNF' else (lambda r: [pbc_to_py(c) for c in r]),
                                (meaning_fails_cnf if fclass == 'CNF' else meaning_fails_opb, lits, fun),
                                ('lin-nocheck', fclass, tuple(lits), op, k, cont_name), nontrivial=True)
        # parity
        if n <= (6 if quick else 9):
            for const in (0, 1):
                for fclass in ('CNF', 'OPB'):
                    for cont_name, mk in containers(lits):
                        def thunk(mk=mk, const=const, fclass=fclass):
                            F = CNF() if fclass == 'CNF' else OPB()
                            F.add_parity(mk(), const)
                            return [list(c) for c in F]
                        fun = (lambda x, const=const: x % 2 == const)
                        add('parity-' + fclass, dict(call='add_parity', cls=fclass, lits=lits, constant=const, container=cont_name),
                            cmd('add_parity' if fclass == 'CNF' else 'opb_parity', lits, const), thunk,
                            (lambda r: r) if fclass == 'CNF' else (lambda r: [pbc_to_py(c) for c in r]),
                            (meaning_fails_cnf if fclass == 'CNF' else meaning_fails_opb, lits, fun),
                            ('par', fclass, tuple(lits), const, cont_name), nontrivial=(n >= 1))
        # majorities
        for name, fun in (('loose_majority', lambda x, n=n: 2 * x >= n), ('loose_minority', lambda x, n=n: 2 * x <= n),
                          ('strict_majority', lambda x, n=n: 2 * x > n), ('strict_minority', lambda x, n=n: 2 * x < n)):
            for fclass in ('CNF', 'OPB'):
                for cont_name, mk in containers(lits):
                    def thunk(mk=mk, name=name, fclass=fclass):
                        F = CNF() if fclass == 'CNF' else OPB()
                        getattr(F, 'add_' + name)(mk())
                        return [list(c) for c in F]
                    add('majority-' + fclass, dict(call='add_' + name, cls=fclass, lits=lits, container=cont_name),
                        cmd(('add_' if fclass == 'CNF' else 'opb_') + name, lits), thunk,
                        (lambda r: r) if fclass == 'CNF' else (lambda r: [pbc_to_py(c) for c in r]),
                        (meaning_fails_cnf if fclass == 'CNF' else meaning_fails_opb, lits, fun),
                        ('maj', fclass, name, tuple(lits), cont_name), nontrivial=(n >= 1))

    # normalize_opb on raw constraints (negative / zero coefficients, all five operators)
    rng = ctx.rng
    for i in range(400 if quick else 4000):
        n = rng.randint(0, 6)
        terms = [(rng.randint(-4, 4), rng.choice([1, -1]) * rng.randint(1, 5)) for _ in range(n)]
        op = rng.choice(['<=', '>=', '<', '>', '=='])
        deg = rng.randint(-7, 7)
        raw = [tuple(t) for t in terms] + [op, deg]
        ctx.tally('normalize operator', op)

        def thunk(raw=raw):
            return normalize_opb(list(raw))

        def search(dummy, raw=raw):
            pass
        add('normalize', dict(call='normalize_opb', constraint=raw), cmd('normalize_opb', [[list(t) for t in terms], op, deg]),
            thunk, pbc_to_py, ('normalize', raw), ('norm', tuple(terms), op, deg), nontrivial=(n >= 1))

    def answered(jobs, size=400):
        # the model is asked chunk by chunk: the replies of a chunk (whole clause lists) are dropped before the next one
        for k in range(0, len(jobs), size):
            part = jobs[k:k + size]
            yield from zip(part, ctx.model.batch([j[2] for j in part]))
    for (stream, descr, req, thunk, post, search, key, nontrivial), rep in answered(jobs):
        ctx.count(stream, key, nontrivial, sample=descr)
        if is_error(rep):
            ctx.violation('correspondence', 'model error', dict(input=descr, model=rep), False, site='model-error', cls=stream)
            continue
        expect = post(rep)
        got = outcome(thunk)
        if got[0] == 'ok':
            if stream == 'normalize':
                val = [tuple(x) if isinstance(x, (list, tuple)) else x for x in got[1]]
                exp = [tuple(x) if isinstance(x, (list, tuple)) else x for x in expect]
            else:
                val = [[tuple(x) if isinstance(x, (list, tuple)) else x for x in c] for c in got[1]]
                exp = [[tuple(x) if isinstance(x, (list, tuple)) else x for x in c] for c in expect]
            if val == exp:
                continue
            ctx.disagreements_checked += 1
            witness = None
            if search[0] == 'normalize':
                raw = search[1]
                witness = normalize_fails(raw, got[1])
            else:
                fn, lits, fun = search
                try:
                    witness = fn(lits, fun, got[1], expect)
                except Exception as e:  # malformed output
                    witness = {'malformed-output': repr(e)}
            site = descr['call'] + '-' + descr.get('cls', '')
            if witness is not None:
                ctx.violation('counterexample', 'the constraint built by %s does not mean its arithmetic condition' % descr['call'],
                              dict(input=descr, assignment=witness, implementation=clip(got[1]), model=clip(expect),
                                   first_difference=first_difference(got[1], expect) if stream != 'normalize' else None),
                              True, site=site, cls='semantics')
            else:
                ctx.violation('correspondence', 'output differs from the model (Linear.v); theorems C04_* no longer cover the code',
                              dict(input=descr, implementation=clip(got[1]), model=clip(expect),
                                   first_difference=first_difference(got[1], expect) if stream != 'normalize' else None,
                                   correspondence='Linear.v <-> ' + descr['call']),
                              False, site=site, cls='order-or-shape')
        else:
            ctx.disagreements_checked += 1
            cont = descr.get('container', 'list')
            ctx.violation('counterexample', 'builder raised %s on a valid argument (given as %s)' % (got[1], cont),
                          dict(input=descr, implementation=list(got[1:]), model=clip(expect)), True,
                          site=descr['call'] + '-' + descr.get('cls', ''), cls='raises-%s-%s' % (got[1], cont))

    history_stream(ctx, quick, CNF, OPB)

    from c04_mapping import run_mappings
    run_mappings(ctx)
    run_aliasing(ctx)
    ctx.exhaustive = False


def normalize_fails(raw, out):
    """assignment on which raw and normalized constraint differ, or a shape defect"""
    try:
        terms = raw[:-2]
        vs = sorted({abs(l) for (_, l) in terms} | {abs(l) for (_, l) in out[:-2]})
        if out[-2] not in ('>=', '=='):
            return {'shape': 'operator ' + str(out[-2])}
        for (c, l), (c0, l0) in zip(out[:-2], terms):
            if c < 0 or (c == 0 and c0 != 0):
                return {'shape': 'coefficient %r' % (c,)}
        idx = {v: i for i, v in enumerate(vs)}
        for bits in range(1 << len(vs)):
            a = {v: bool((bits >> idx[v]) & 1) for v in vs}
            val = lambda l: a[abs(l)] if l > 0 else not a[abs(l)]
            s0 = sum(c for (c, l) in terms if val(l))
            s1 = sum(c for (c, l) in out[:-2] if val(l))
            w = {'>=': s0 >= raw[-1], '==': s0 == raw[-1], '<=': s0 <= raw[-1], '>': s0 > raw[-1], '<': s0 < raw[-1]}[raw[-2]]
            g = {'>=': s1 >= out[-1], '==': s1 == out[-1]}[out[-2]]
            if w != g:
                return {str(v): a[v] for v in vs}
    except Exception as e:
        return {'malformed-output': repr(e)}
    return None


def run_aliasing(ctx):
    """the builders must not share mutable state with their callers: a list RETURNED by the library and then edited by
    the caller, or an argument list REUSED (edited and passed again), must not change constraints built before or after"""
    import_impl()
    from cnfgen.formula.cnf import CNF
    from cnfgen.formula.opb import OPB
    rng = ctx.rng
    for it in range(40 if ctx.tier == 'quick' else 400):
        fc = rng.choice([CNF, OPB])
        n, m = rng.randint(2, 3), rng.randint(2, 6)
        which = rng.choice(['complete', 'injective', 'nondecreasing'])

        def build(mutate):
            F = fc()
            f = F.new_binary_mapping(n, m)
            if mutate:
                for _ in range(3):
                    c = f.forbid(rng_local.randint(1, n), rng_local.randint(0, m - 1))
                    c.append(987)
                    c.reverse()
            getattr(F, 'force_%s_mapping' % which)(f)
            return [list(x) if not isinstance(x, list) else [tuple(t) if isinstance(t, (list, tuple)) else t for t in x] for x in F]
        import random as _r
        rng_local = _r.Random(it)
        a = outcome(build, False)
        rng_local = _r.Random(it)
        b = outcome(build, True)
        ctx.count('aliasing-returned-lists', (fc.__name__, n, m, which, it), nontrivial=True, sample=dict(cls=fc.__name__, shape=[n, m], constraint=which))
        if a != b:
            ctx.violation('counterexample', 'force_%s_mapping builds different constraints after the caller edited lists returned by forbid()' % which,
                          dict(input=dict(cls=fc.__name__, shape=[n, m], constraint=which, edit='c = f.forbid(i,j); c.append(987); c.reverse()'), clean=str(a)[:400], after_edit=str(b)[:400]),
                          True, site='aliasing', cls='forbid-returned-list')
        # an argument buffer reused across calls
        G = OPB()
        stated = []
        row = [(1, 1), (2, -2), (1, 3), '>=', 2]
        for step in range(4):
            row[-1] = rng.randint(0, 3)
            row[-2] = rng.choice(['>=', '==', '<=', '>', '<'])
            row[0] = (rng.randint(1, 3), rng.choice([1, -1]))
            stated.append([x for x in row])
            r = outcome(G.add_constraint, row)
            if r[0] != 'ok':
                break
        from cnfgen.formula.baseopb import normalize_opb
        want = [normalize_opb(list(s)) for s in stated]
        got = [list(c) for c in G]
        ctx.count('aliasing-argument-buffer', it, nontrivial=True, sample=dict(stated=str(stated)))
        if [[tuple(t) if isinstance(t, (list, tuple)) else t for t in c] for c in got] != [[tuple(t) if isinstance(t, (list, tuple)) else t for t in c] for c in want]:
            ctx.violation('counterexample', 'constraints stored by add_constraint change when the caller reuses its argument list',
                          dict(input=dict(stated=str(stated)), stored=str(got)), True, site='aliasing', cls='add_constraint-argument-buffer')
        # clause buffers with add_clause / add_linear on both classes
        for fc2 in (CNF, OPB):
            H = fc2()
            buf = [1, -2, 3]
            seen = []
            for step in range(3):
                buf[rng.randrange(3)] *= -1
                seen.append(list(buf))
                H.add_clause(buf)
            got = [list(c) for c in H]
            want = [list(c) for c in fc2([list(s) for s in seen])] if fc2 is CNF else None
            if fc2 is CNF and got != want:
                ctx.violation('counterexample', 'clauses stored by add_clause change when the caller reuses its list', dict(input=dict(stated=str(seen)), stored=str(got)), True,
                              site='aliasing', cls='add_clause-argument-buffer')
            if fc2 is OPB and [[l for (_, l) in c[:-2]] for c in got] != seen:
                ctx.violation('counterexample', 'constraints stored by OPB.add_clause change when the caller reuses its list', dict(input=dict(stated=str(seen)), stored=str(got)), True,
                              site='aliasing', cls='opb-add_clause-argument-buffer')
