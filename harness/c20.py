"""C20 -- solve() and is_satisfiable() report what the SAT solver found.

FAKE solvers (shell scripts in a fresh directory, reachable through PATH or an
explicit `cmd`) emit generated outputs in the three conventions cnfgen speaks
(DIMACS stdin/stdout, file-in/stdout, minisat file-in/file-out).  The real
CNF.solve / CNF.is_satisfiable run in a child process with PATH and the
temporary directory under control; the same command, `sameas`, set of installed
solvers and solver output go through the extracted Coq model (Solver.v):
verdict, witness, exception class and the number of temporary files left must
be equal.

Independently of the model the PROPERTY is checked on what the implementation
did: a truthful SAT answer spelling assignment A gives (True, A sorted by
variable) and A satisfies the formula; UNSAT gives (False, None); no answer, a
missing / unsupported / failing solver gives RuntimeError; an unknown `sameas`
gives ValueError; no temporary file is left behind."""
import json
import os
import shutil
import stat
import subprocess
import tempfile

import lib
from lib import cmd, is_error

META = dict(
    technique='Coq theorems about a character-level model of the solver-output parsers and of the solver selection (SolverFacts.v) + fake solvers in the three conventions compared with the extracted model',
    category='proof',
    text='The three output parsers of cnfgen/utils/solver.py (s/v lines, minisat result file: splitlines, split, int, sort by variable) and the '
         'solver selection of sat_solve are modelled at character level; machine-checked theorems state that any output in the convention that '
         'spells assignment A (split over any number of v lines, comment lines interleaved, 0 terminators) yields (True, A sorted by variable) '
         'with the same literals, UNSATISFIABLE yields (False, None), no/unknown status yields RuntimeError, an unsupported sameas yields ValueError '
         'before anything runs, and is_satisfiable returns the same verdict; the faithful model returns (True, None) for an empty assignment and '
         'leaves a temporary file in the file-in/stdout convention (refuted + partial theorems). Fake solvers tie the model to the code.',
    note='Trusted: Coq kernel, extraction, OCaml driver, harness, /bin/sh fake solvers, subprocess and tempfile of CPython. The DIMACS text handed '
         'to the solver is compared with F.to_dimacs() by the harness only (its correctness is property C06). Outputs are ASCII.',
    design_ref='5/C20',
)
RULE = ('one case = one call of CNF.solve or CNF.is_satisfiable with a formula, cmd, sameas, a set of installed fake solvers and the text they emit; '
        'non-trivial when a solver actually runs; distinct = distinct (stream, formula, cmd, sameas, installed, output) keys')
TRUSTED = ['/bin/sh, /bin/cat, /bin/cp (fake solvers); subprocess.Popen, tempfile of CPython']

TABLE = [('cadical', 'stdin_stdout'), ('kissat', 'stdin_stdout'), ('lingeling', 'stdin_stdout'), ('plingeling', 'stdin_stdout'),
         ('precosat', 'stdin_stdout'), ('picosat', 'stdin_stdout'), ('march', 'filein_stdout'), ('cryptominisat', 'stdin_stdout'),
         ('minisat', 'filein_fileout'), ('glucose', 'stdin_stdout'), ('sat4j', 'filein_stdout')]
IFACE = dict(TABLE)

RUNNER = r'''
import json, os, sys, tempfile
sys.path.insert(0, os.environ['VERIF_REPO_PATH'])
from cnfgen.formula.cnf import CNF
cases = json.load(sys.stdin)
out = []
for c in cases:
    os.environ['PATH'] = c['path']
    tempfile.tempdir = c['tmpdir']
    F = CNF(c['clauses'])
    F.update_variable_number(c['nvars'])
    res = {'dimacs': F.to_dimacs()}
    try:
        kw = {}
        if c['cmd'] is not None: kw['cmd'] = c['cmd']
        if c['sameas'] is not None: kw['sameas'] = c['sameas']
        if c['method'] == 'solve':
            r = F.solve(**kw)
            res['ok'] = [r[0], r[1]]
        else:
            res['ok'] = F.is_satisfiable(**kw)
        res['type'] = [type(x).__name__ for x in r] if c['method'] == 'solve' else type(res['ok']).__name__
    except Exception as e:
        res['exc'] = type(e).__name__
        res['msg'] = str(e)[:200]
    res['leaked'] = sorted(os.listdir(c['tmpdir']))
    out.append(res)
json.dump(out, sys.stdout)
'''


def script(kind, d):
    """fake solver of one convention; records what it was given in directory d"""
    head = '#!/bin/sh\nif [ "$1" = "--help" ]; then exit 0; fi\n'
    if kind == 'stdin_stdout' and os.path.exists(os.path.join(d, 'noread')):
        body = 'echo ran > "%s/ran.txt"\n/bin/cat "%s/out.txt"\n' % (d, d)        # a solver that answers and exits without draining its input
    elif kind == 'stdin_stdout':
        body = '/bin/cat > "%s/given.txt"\n/bin/cat "%s/out.txt"\n' % (d, d)
    elif kind == 'filein_stdout':
        body = 'for a in "$@"; do last="$a"; done\n/bin/cp "$last" "%s/given.txt"\n/bin/cat "%s/out.txt"\n' % (d, d)
    elif kind == 'filein_fileout':
        body = 'prev=""; last=""\nfor a in "$@"; do prev="$last"; last="$a"; done\n/bin/cp "$prev" "%s/given.txt"\n/bin/cp "%s/out.txt" "$last"\n' % (d, d)
    elif kind == 'fail':
        body = 'exit 3\n'
    else:
        raise AssertionError(kind)
    return head + body + 'exit %s\n' % ('0' if kind != 'fail' else '3')


def brute_model(nvars, clauses):
    key = (nvars, len(clauses), tuple(clauses[0]), tuple(clauses[-1])) if clauses else None
    if nvars > 10:
        return PLANTED[key]
    for a in lib.assignments(nvars):
        if lib.cnf_sat(a, clauses):
            return [v if a[v] else -v for v in range(1, nvars + 1)]
    return None


PLANTED = {}


def random_formula(rng):
    r = rng.random()
    if r < 0.12:
        return 0, rng.choice([[], [[]]])
    if r < 0.40:
        # medium and large formulas with a planted model (answers split over many v lines, literals with two and three
        # digits, DIMACS texts beyond the pipe buffer): no enumeration needed, the planted assignment is the witness
        n = rng.choice([11, 12, 20, 21, 33, 40, 64, 101, 130])
        A = [v if rng.random() < 0.5 else -v for v in range(1, n + 1)]
        m = rng.choice([3, 10, 40, 40, 6000])
        cl = []
        for _ in range(m):
            c = [rng.choice([1, -1]) * rng.randint(1, n) for _ in range(rng.randint(1, 4))]
            c[rng.randrange(len(c))] = A[abs(c[0]) - 1]
            cl.append(c)
        if rng.random() < 0.25:
            cl.insert(rng.randrange(len(cl) + 1), [])      # unsatisfiable: the empty clause
            PLANTED[(n, len(cl), tuple(cl[0]), tuple(cl[-1]))] = None
        else:
            PLANTED[(n, len(cl), tuple(cl[0]), tuple(cl[-1]))] = A
        return n, cl
    n = rng.randint(1, 6)
    used = rng.randint(1, n)       # variables above `used` do not occur
    m = rng.randint(0, 2 * used + 1)
    cl = [[rng.choice([1, -1]) * rng.randint(1, used) for _ in range(rng.randint(1, 3))] for _ in range(m)]
    if rng.random() < 0.06:
        cl.insert(rng.randrange(len(cl) + 1), [])
    return n, cl


def render_stdout(rng, status, A, style):
    """text in the DIMACS output convention: status line, assignment A split over v lines, comments interleaved"""
    nl = '\r\n' if style.get('crlf') else '\n'
    lines = []

    def comments():
        for _ in range(rng.choice([0, 0, 1, 2])):
            lines.append(rng.choice(['c comment', 'c', 'c s SATISFIABLE', 'c v 1 2 3', '', 'c restarts 10']))
    comments()
    sline = {'sat': 's SATISFIABLE', 'unsat': 's UNSATISFIABLE', 'unknown': 's UNKNOWN', 'none': None}[status]
    vlines = []
    if status == 'sat' or style.get('v_with_unsat'):
        lits = list(A)
        if style.get('shuffled'):
            rng.shuffle(lits)
        toks = [str(l) for l in lits]
        term = style.get('terminator', 'end')
        if term == 'end':
            toks.append('0')
        i = 0
        while i < len(toks) or not vlines:
            step = style['per_line'] if style.get('per_line') else (rng.randint(1, max(1, len(toks))) if style.get('split') else max(1, len(toks)))
            chunk = toks[i:i + step]
            sep = rng.choice([' ', '  ', '\t']) if style.get('spaces') else ' '
            vlines.append('v' + ''.join(sep + t for t in chunk) + (' ' if style.get('spaces') and rng.random() < 0.3 else ''))
            i += step
            if i >= len(toks):
                break
        if term == 'own-line':
            vlines.append('v 0')
    body = []
    if sline is not None and not style.get('status_last'):
        body.append(sline)
    for vl in vlines:
        body.append(vl)
        if rng.random() < 0.4:
            body.append(rng.choice(['c progress', '', 'c 50%']))
    if sline is not None and style.get('status_last'):
        body.append(sline)
    lines += body
    comments()
    text = nl.join(lines)
    if lines and not style.get('no_final_newline'):
        text += nl
    return text


def render_minisat(rng, status, A, style):
    if status == 'sat':
        lits = list(A)
        if style.get('shuffled'):
            rng.shuffle(lits)
        return 'SAT\n' + ' '.join([str(l) for l in lits] + ['0']) + '\n'
    if status == 'unsat':
        return 'UNSAT\n'
    if status == 'unknown':
        return 'INDET\n'
    return ''


def expected_by_property(case):
    """what C20 promises, from the intent of the case (not from the model)"""
    if case['intent'] == 'sameas-unknown':
        return ('exc', 'ValueError')
    if case['intent'] in ('unsupported', 'missing', 'none-installed', 'failing', 'no-answer', 'unknown-status'):
        return ('exc', 'RuntimeError')
    if case['intent'] == 'unsat':
        return ('ok', False, None)
    if case['intent'] == 'sat':
        return ('ok', True, sorted(case['A'], key=abs))
    return None


def run(ctx):
    quick = ctx.tier == 'quick'
    rng = ctx.rng
    base = tempfile.mkdtemp(prefix='verif-c20-')
    try:
        _run(ctx, quick, rng, base)
        run_real(ctx, quick, rng)
    finally:
        shutil.rmtree(base, ignore_errors=True)


def _run(ctx, quick, rng, base):
    cases = []

    def new_case(stream, intent, nvars, clauses, cmdline, sameas, installed, outputs, A=None, method='solve', extra_path_files=None,
                 status=None, runs=None):
        """installed: {name: convention} fake solvers put on PATH; outputs: {name or path: text};
        runs: name (first token of the command) expected to run, for information"""
        i = len(cases)
        d = os.path.join(base, 'case%d' % i)
        bind = os.path.join(d, 'bin')
        tmpd = os.path.join(d, 'tmp' if i % 3 else 'tmp dir with blanks')
        os.makedirs(bind)
        os.makedirs(tmpd)
        inst_names = []
        outs = []
        for name, kind in installed.items():
            sd = os.path.join(d, 'solver-' + name.replace('/', '_'))
            os.makedirs(sd)
            if kind == 'stdin_stdout' and i % 4 == 1:
                open(os.path.join(sd, 'noread'), 'w').close()
            path = os.path.join(bind, name) if '/' not in name else name
            os.makedirs(os.path.dirname(path), exist_ok=True)
            with open(path, 'w') as f:
                f.write(script(kind, sd))
            os.chmod(path, 0o755)
            with open(os.path.join(sd, 'out.txt'), 'w', newline='') as f:
                f.write(outputs.get(name, ''))
            inst_names.append(name)
            outs.append([name, outputs.get(name, '') if kind != 'fail' else ''])
        for name, mode in (extra_path_files or {}).items():
            path = os.path.join(bind, name)
            if mode == 'dir':
                os.makedirs(path)
            else:
                with open(path, 'w') as f:
                    f.write('#!/bin/sh\nexit 0\n')
                os.chmod(path, 0o644)    # present but not executable: Popen raises PermissionError (an OSError)
        cases.append(dict(stream=stream, intent=intent, nvars=nvars, clauses=clauses, cmd=cmdline, sameas=sameas, path=bind, tmpdir=tmpd,
                          method=method, installed=inst_names, kinds=dict(installed), outs=outs, A=A, dir=d, status=status))

    def fake_path(i_hint, name='fakesolver'):
        return os.path.join(base, 'case%d' % len(cases), 'opt' if len(cases) % 5 else 'bin', name)     # mostly OUTSIDE the PATH of the case: an explicit path must be enough

    styles = [dict(), dict(split=True), dict(split=True, spaces=True), dict(crlf=True, split=True), dict(status_last=True, split=True),
              dict(terminator='own-line', split=True), dict(terminator='none'), dict(shuffled=True, split=True), dict(no_final_newline=True),
              dict(split=True, per_line=10), dict(split=True, per_line=4), dict(split=True, per_line=3), dict(split=True, per_line=7), dict(split=True, per_line=1)]

    # ---- stream 1: truthful solvers, every supported name through sameas, three conventions ----
    reps = 8 if quick else 40
    for name, kind in TABLE:
        for rep in range(reps):
            for method in ('solve', 'is_satisfiable') if rep == 0 else ('solve',):
                nvars, clauses = random_formula(rng)
                A = brute_model(nvars, clauses)
                status = 'sat' if A is not None else 'unsat'
                style = dict(rng.choice(styles))
                if status == 'unsat' and rng.random() < 0.3:
                    style['v_with_unsat'] = True
                text = render_minisat(rng, status, A or [], style) if kind == 'filein_fileout' else render_stdout(rng, status, A or [], style)
                fp = fake_path(0)
                opts = rng.choice(['', ' -x', ' --opt=1 -q'])
                new_case('sameas', status, nvars, clauses, fp + opts, name, {fp: kind}, {fp: text}, A=A, method=method, status=status)
                ctx.tally('convention', kind)
                ctx.tally('output style', ','.join(sorted(k for k in style)) or 'plain')
    # ---- stream 2: supported names found on PATH (cmd given, or cmd=None with a set of installed solvers) ----
    for rep in range(80 if quick else 600):
        nvars, clauses = random_formula(rng)
        A = brute_model(nvars, clauses)
        status = 'sat' if A is not None else 'unsat'
        subset = [nk for nk in TABLE if rng.random() < rng.choice([0.1, 0.3, 0.6])]
        installed = dict(subset)
        outputs = {}
        for nm, kd in subset:
            style = dict(rng.choice(styles))
            outputs[nm] = render_minisat(rng, status, A or [], style) if kd == 'filein_fileout' else render_stdout(rng, status, A or [], style)
        mode = rng.choice(['none', 'none', 'blank', 'named', 'named-args', 'named-sameas'])
        extra = {}
        if rng.random() < 0.3:
            for nm, _ in TABLE:
                if nm not in installed and rng.random() < 0.3:
                    extra[nm] = rng.choice(['noexec', 'dir'])
        if mode in ('none', 'blank'):
            cmdline = None if mode == 'none' else rng.choice(['', '   ', '\t'])
            sameas = rng.choice([None, None, 'minisat'])       # ignored when no command is given
            intent = status if subset else 'none-installed'
            new_case('path', intent, nvars, clauses, cmdline, sameas, installed, outputs, A=A, extra_path_files=extra, status=status)
        else:
            nm = rng.choice(TABLE)[0]
            cmdline = nm + ('' if mode == 'named' else rng.choice([' -v', ' --plain  -n']))
            sameas = None
            if mode == 'named-sameas':
                sameas = rng.choice(TABLE)[0]
                kind = IFACE[sameas]
                if nm in installed:
                    installed[nm] = kind
                    style = dict(rng.choice(styles))
                    outputs[nm] = render_minisat(rng, status, A or [], style) if kind == 'filein_fileout' else render_stdout(rng, status, A or [], style)
            intent = status if nm in installed else 'missing'
            new_case('path', intent, nvars, clauses, cmdline, sameas, installed, outputs, A=A, extra_path_files=extra, status=status)
        ctx.tally('installed solvers', len(subset))
        ctx.tally('command', mode)
    # ---- stream 3: errors: unknown sameas, unsupported command, missing solver, failing solver, no answer ----
    for rep in range(8 if quick else 50):
        nvars, clauses = random_formula(rng)
        fp = fake_path(0)
        new_case('errors', 'sameas-unknown', nvars, clauses, fp, rng.choice(['zchaff', 'MiniSat', '', 'minisat ', 'lingeling2']),
                 {fp: 'stdin_stdout'}, {fp: 's SATISFIABLE\nv 0\n'})
        new_case('errors', 'sameas-unknown', nvars, clauses, None, 'zchaff', dict(TABLE[:3]), {})
        fp = fake_path(0)
        new_case('errors', 'unsupported', nvars, clauses, fp + ' -x', None, {fp: 'stdin_stdout'}, {fp: 's SATISFIABLE\nv 0\n'})
        new_case('errors', 'missing', nvars, clauses, os.path.join(base, 'nonexistent', 'solver'), rng.choice(TABLE)[0], {}, {})
        new_case('errors', 'missing', nvars, clauses, rng.choice(TABLE)[0], None, {}, {})
        new_case('errors', 'none-installed', nvars, clauses, None, None, {}, {})
        for name, kind in [rng.choice(TABLE) for _ in range(2)]:
            fp = fake_path(0)
            new_case('errors', 'failing', nvars, clauses, fp, name, {fp: 'fail'}, {})
            fp = fake_path(0)
            text = '' if kind == 'filein_fileout' else rng.choice(['', 'c only a comment\n', 'c s SATISFIABLE\nc v 1 0\n', 'v 1 2 0\n', ' s SATISFIABLE\n'])
            new_case('errors', 'no-answer', nvars, clauses, fp, name, {fp: kind}, {fp: text})
            fp = fake_path(0)
            text = rng.choice(['INDET\n', 'UNKNOWN\n', 'sat\n']) if kind == 'filein_fileout' else \
                rng.choice(['s UNKNOWN\n', 's INDETERMINATE\nv 1 0\n', 's SATISFIABLE\ns UNKNOWN\n', 's satisfiable\n', 's SAT\n'])
            new_case('errors', 'unknown-status', nvars, clauses, fp, name, {fp: kind}, {fp: text})
    # ---- stream 4: malformed outputs (no promise in C20 beyond "an error or a verdict"; model agreement is what is checked) ----
    alphabet = ['s', 'v', 'c', ' ', ' ', '\n', '\n', '\r', '\t', '0', '1', '2', '-', '+', '_', 'SATISFIABLE', 'UNSATISFIABLE', 'SAT', 'UNSAT',
                'x', '\x0b', '\x0c', '\x1c', '\x1f', '10', '-3', 's ', 'v ', '\ns SATISFIABLE\n', '\nv 1 -2 0\n']
    for rep in range(250 if quick else 3000):
        nvars, clauses = random_formula(rng)
        name, kind = rng.choice(TABLE)
        text = ''.join(rng.choice(alphabet) for _ in range(rng.randint(0, 14)))
        fp = fake_path(0)
        new_case('malformed', 'malformed', nvars, clauses, fp, name, {fp: kind}, {fp: text})
    fixed_malformed = ['s\n', 's \n', 'solver crashed\n', 'segfault\n', 's SATISFIABLE\nv 1 x 0\n', 'version 1.0\ns UNSATISFIABLE\n',
                       's SATISFIABLE\nv 1_0 +2 -0 00 0\n', 's SATISFIABLE\nv1 2 0\n', 's SATISFIABLE\nv -1 2\x0bv 3 0\n', 'sSATISFIABLE x\n',
                       's SATISFIABLE\nv 1__0\n', 's SATISFIABLE\nv 1_\n', 's SATISFIABLE\nv _1\n', 's SATISFIABLE\nv - 1\n']
    for text in fixed_malformed:
        for name in ('lingeling', 'sat4j'):
            fp = fake_path(0)
            new_case('malformed', 'malformed', 1, [[1]], fp, name, {fp: IFACE[name]}, {fp: text})
    for text in ['SAT\n', 'SAT', 'SAT 0', 'SAT\n1 x 0\n', 'SATISFIABLE\n1 0\n', 'UNSAT\n1 0\n', '\n\nSAT\n\n1\n-2\n0\n', 'SAT\n-0 00 1_1\n']:
        fp = fake_path(0)
        new_case('malformed', 'malformed', 2, [[1, -2]], fp, 'minisat', {fp: 'filein_fileout'}, {fp: text})

    # ---- run the implementation (child process), then the model ----
    env = dict(os.environ, PYTHONPATH=lib.REPO, VERIF_REPO_PATH=lib.REPO, PYTHONHASHSEED='0')
    payload = [dict(clauses=c['clauses'], nvars=c['nvars'], cmd=c['cmd'], sameas=c['sameas'], path=c['path'], tmpdir=c['tmpdir'], method=c['method'])
               for c in cases]
    p = subprocess.run([lib.PY, '-c', RUNNER], input=json.dumps(payload).encode(), stdout=subprocess.PIPE, stderr=subprocess.PIPE,
                       cwd=lib.REPO, env=env, timeout=3000)
    if p.returncode != 0:
        raise RuntimeError('runner failed: ' + p.stderr.decode()[-500:])
    results = json.loads(p.stdout.decode())

    def model_args(c):
        return [[lib.Sym('some'), c['cmd']] if c['cmd'] is not None else lib.Sym('none'),
                [lib.Sym('some'), c['sameas']] if c['sameas'] is not None else lib.Sym('none'),
                c['installed'], c['outs']]

    AS_IS = [True, True, True]      # quirks of the code as it is: D22 (empty witness -> None), D34 (parser exceptions escape), D23 (temp file left)
    reqs = []
    for c in cases:
        args = model_args(c)
        reqs.append(cmd('sat_solve', AS_IS, *args))
        reqs.append(cmd('solve' if c['method'] == 'solve' else 'is_satisfiable', AS_IS, *args))
    replies = ctx.model.batch(reqs)

    def canon_model(rep):
        if rep[0] == 'pair':
            return ('pair', rep[1], rep[2][1] if isinstance(rep[2], list) else None)
        if rep[0] == 'bool':
            return ('bool', rep[1])
        if rep[0] == 'crash':
            return ('crash', str(rep[1]))
        return (str(rep[0]),)

    def repaired_variant(c, got, leaked):
        """the implementation differs from the as-is model: does it agree with the model in which some known quirk is repaired?"""
        args = model_args(c)
        combos = [[a, b, d] for a in (True, False) for b in (True, False) for d in (True, False) if [a, b, d] != AS_IS]
        rq = []
        for q in combos:
            rq.append(cmd('sat_solve', q, *args))
            rq.append(cmd('solve' if c['method'] == 'solve' else 'is_satisfiable', q, *args))
        rp = ctx.model.batch(rq)
        for j, q in enumerate(combos):
            full, rep = rp[2 * j], rp[2 * j + 1]
            if is_error(full) or is_error(rep):
                continue
            ml = full[4] if (isinstance(full, list) and full and full[0] == 'result') else 0
            if canon_model(rep) == got and ml == leaked:
                return q
        return None

    for idx, (c, r) in enumerate(zip(cases, results)):
        rep_full, rep = replies[2 * idx], replies[2 * idx + 1]
        descr = dict(method=c['method'], nvars=c['nvars'], clauses=c['clauses'], cmd=c['cmd'], sameas=c['sameas'],
                     installed={k: v for k, v in c['kinds'].items()}, outputs={k: v for k, v in c['outs']}, intent=c['intent'])
        ran = isinstance(rep_full, list) and rep_full and rep_full[0] == 'result'
        ctx.count(c['stream'], (c['stream'], idx, json.dumps(descr, sort_keys=True)), nontrivial=bool(ran), sample=descr)
        ctx.tally('intent', c['intent'])
        ctx.tally('method', c['method'])
        if is_error(rep) or is_error(rep_full):
            ctx.violation('correspondence', 'model error', dict(input=descr, model=[rep, rep_full]), False, site='model-error', cls=c['stream'])
            continue
        iface = str(rep_full[2]) if ran else None
        if ran:
            ctx.tally('interface run', iface)
        # -- implementation outcome, canonical --
        if 'exc' in r:
            kind = r['exc']
            if kind == 'ValueError' and 'invalid literal' in r.get('msg', ''):
                got = ('crash', 'ValueError')
            elif kind in ('ValueError', 'RuntimeError'):
                got = (kind.lower(),)
            else:
                got = ('crash', kind)
        elif c['method'] == 'solve':
            got = ('pair', r['ok'][0], r['ok'][1])
        else:
            got = ('bool', r['ok'])
        mod = canon_model(rep)
        leaked = len(r['leaked'])
        mod_leaked = rep_full[4] if ran else 0

        # -- the property itself --
        fails = []
        want = expected_by_property(c)
        if want is not None:
            if want[0] == 'exc':
                if got != (want[1].lower(),):
                    fails.append(('wrong-error', 'expected %s, got %r' % (want[1], got)))
            elif c['method'] == 'is_satisfiable':
                if got != ('bool', want[1]):
                    fails.append(('wrong-verdict', 'is_satisfiable: expected %r, got %r' % (want[1], got)))
            else:
                if got[0] != 'pair' or got[1] is not want[1]:
                    fails.append(('wrong-verdict', 'expected verdict %r, got %r' % (want[1], got)))
                elif want[1] is False and got[2] is not None:
                    fails.append(('witness-with-unsat', 'UNSAT answer with witness %r' % (got[2],)))
                elif want[1] is True:
                    if got[2] is None and want[2] == []:
                        fails.append(('sat-empty-witness-None', 'SAT answer with the empty assignment returns (True, None), not (True, [])'))
                    elif got[2] != want[2]:
                        fails.append(('wrong-witness', 'expected witness %r, got %r' % (want[2], got[2])))
                    elif not lib.cnf_sat([None] + [(v in got[2]) for v in range(1, c['nvars'] + 1)], c['clauses']):
                        fails.append(('witness-falsifies', 'returned witness %r does not satisfy the formula' % (got[2],)))
        elif c['intent'] == 'malformed':
            if got[0] == 'crash':
                fails.append(('undocumented-exception-' + got[1], 'solver output %r makes solve() raise %s, not RuntimeError' %
                              (c['outs'][0][1], got[1])))
        if leaked:
            fails.append(('temp-file-left', '%d temporary file(s) left in the temporary directory: %r' % (leaked, r['leaked'])))
        # the solver must have been given the formula
        if ran and c['kinds'] and got[0] in ('pair', 'bool'):
            nm = rep_full[3].split()[0] if rep_full[3].split() else None
            gd = os.path.join(c['dir'], 'solver-' + (nm or '').replace('/', '_'), 'given.txt')
            if os.path.exists(gd):
                given = open(gd, newline='').read()
                if given != r['dimacs']:
                    fails.append(('wrong-input', 'the solver did not receive F.to_dimacs()'))
            elif os.path.exists(os.path.join(os.path.dirname(gd), 'ran.txt')):
                pass        # the solver ran but does not read its input (by construction of this case)
            else:
                ctx.violation('correspondence', 'the solver the model selects (%s) is not the one that ran; theorems C20_first_installed_wins / '
                              'C20_command_interface no longer cover the code' % nm,
                              dict(input=descr, implementation=r, model=[rep, rep_full], correspondence='Solver.v sat_solve <-> cnfgen/utils/solver.py sat_solve'),
                              False, site='sat_solve', cls='other-solver-ran')
        for clsname, what in fails:
            ctx.disagreements_checked += 1
            site = iface or 'sat_solve'
            if clsname == 'sat-empty-witness-None':
                site = 'solve'
            ctx.violation('counterexample', 'C20 fails: ' + what, dict(input=descr, implementation=r, model=rep), True, site=site, cls=clsname)
        # -- correspondence --
        if got != mod or leaked != mod_leaked:
            ctx.disagreements_checked += 1
            q = repaired_variant(c, got, leaked)
            if q is not None:
                ctx.tally('agrees with the model with quirks (D22,D34,D23) =', q)
            else:
                ctx.violation('correspondence', 'implementation %r (leaked %d) differs from the model %r (leaked %d); theorems C20_* no longer cover the code'
                              % (got, leaked, mod, mod_leaked),
                              dict(input=descr, implementation=r, model=[rep, rep_full], correspondence='Solver.v <-> cnfgen/utils/solver.py'),
                              False, site=iface or 'sat_solve', cls='differs-from-model')



def run_real(ctx, quick, rng):
    """A REAL solver (picosat, when the machine has one): solve()/is_satisfiable() through the stdin/stdout convention and,
    with sameas='march', through the file-in/stdout convention.  The property is checked directly (witness sorted and
    satisfying, verdict equal to an enumeration or to the planted/known status), and the raw text picosat prints for the
    same DIMACS input goes through the Coq parser `parse_stdout`, whose answer must be the implementation's."""
    exe = shutil.which('picosat')
    if exe is None:
        ctx.note('real-solver stream skipped: no picosat on PATH')
        return
    lib.import_impl()
    from cnfgen.formula.cnf import CNF
    import cnfgen
    forms = []
    for _ in range(25 if quick else 250):
        n, cl = random_formula(rng)
        cl = [c for c in cl]
        forms.append(('random', n, cl, None))
    # formulas with a known status from the generators (unsatisfiable principles and satisfiable instances)
    known = [('php 4 3', lambda: cnfgen.PigeonholePrinciple(4, 3), False), ('php 3 3', lambda: cnfgen.PigeonholePrinciple(3, 3), True),
             ('op 4', lambda: cnfgen.OrderingPrinciple(4), False), ('parity 5', lambda: cnfgen.CountingPrinciple(5, 2), False),
             ('parity 6', lambda: cnfgen.CountingPrinciple(6, 2), True), ('count 7 3', lambda: cnfgen.CountingPrinciple(7, 3), False),
             ('ram 3 3 5', lambda: cnfgen.RamseyNumber(3, 3, 5), True), ('ram 3 3 6', lambda: cnfgen.RamseyNumber(3, 3, 6), False),
             ('vdw 8 3 3', lambda: cnfgen.VanDerWaerden(8, 3, 3), True), ('vdw 9 3 3', lambda: cnfgen.VanDerWaerden(9, 3, 3), False),
             ('php 40 40', lambda: cnfgen.PigeonholePrinciple(40, 40), True)]
    for name, mk, status in known:
        F = mk()
        forms.append((name, F.number_of_variables(), [list(c) for c in F.clauses()], status))
    reqs, recs = [], []
    for name, n, cl, status in forms:
        for method, kw in (('solve', {}), ('solve', {'cmd': 'picosat', 'sameas': 'march'}), ('is_satisfiable', {'cmd': exe, 'sameas': 'picosat'})):
            F = CNF(cl)
            F.update_variable_number(n)
            try:
                r = getattr(F, method)(**kw)
                got = ('ok', r)
            except Exception as e:       # noqa: BLE001
                got = ('exc', type(e).__name__ + ': ' + str(e)[:200])
            raw = subprocess.run([exe], input=F.to_dimacs().encode('ascii'), stdout=subprocess.PIPE).stdout.decode('ascii', 'replace')
            reqs.append(cmd('parse_stdout', [True, True, True], raw))
            recs.append((name, n, cl, status, method, kw, got, raw))
    replies = ctx.model.batch(reqs)
    for (name, n, cl, status, method, kw, got, raw), rep in zip(recs, replies):
        descr = dict(formula=name, nvars=n, clauses=cl if len(cl) <= 60 else '%d clauses' % len(cl), method=method, kwargs=kw)
        ctx.count('real-picosat', ('real', name, n, len(cl), json.dumps(cl[:8]), method, json.dumps(kw, sort_keys=True)), nontrivial=True,
                  sample=descr)
        ctx.tally('real.vlines', min(raw.count('\nv '), 9))
        if status is None:
            if n <= 10:
                status = brute_model(n, cl) is not None
            else:
                status = PLANTED[(n, len(cl), tuple(cl[0]), tuple(cl[-1]))] is not None
        what = None
        if got[0] == 'exc':
            what = 'an installed, supported solver answered but %s raised %s' % (method, got[1])
        elif method == 'is_satisfiable':
            if got[1] is not status:
                what = 'is_satisfiable returned %r, the formula is %s' % (got[1], 'satisfiable' if status else 'unsatisfiable')
        else:
            ok, w = got[1]
            if ok is not status:
                what = 'solve returned verdict %r, the formula is %s' % (ok, 'satisfiable' if status else 'unsatisfiable')
            elif not status and w is not None:
                what = 'unsatisfiable formula but witness %r' % (w,)
            elif status and n > 0:
                if w is None or [abs(x) for x in w] != list(range(1, n + 1)):
                    what = 'witness %r is not one literal per variable in order' % (w if w is None else w[:20],)
                else:
                    a = [None] + [x > 0 for x in w]
                    if not lib.cnf_sat(a, cl):
                        what = 'witness does not satisfy the formula'
        if what:
            ctx.violation('counterexample', 'C20 fails with the real solver picosat: ' + what, dict(input=descr, implementation=repr(got)[:500],
                          solver_output=raw[:2000]), True, site='real-picosat/' + method, cls=what.split(' ')[0])
            continue
        if is_error(rep):
            ctx.violation('correspondence', 'model error on real solver output', dict(input=descr, model=rep), False, site='model-error',
                          cls='real-picosat')
            continue
        # the Coq parser on the text the real solver printed
        if method == 'solve' and got[0] == 'ok' and isinstance(rep, list) and rep and rep[0] == 'ok':
            mw = rep[2][1] if isinstance(rep[2], list) else None
            mine = (bool(rep[1]), mw)
            theirs = (got[1][0], got[1][1])
            if mine != theirs and not (n == 0 and theirs[1] in (None, []) and mine[1] in (None, [])):
                ctx.violation('correspondence', 'Solver.parse_stdout on the text picosat printed gives %r, the implementation %r; theorems '
                              'C20_stdout_* no longer cover the code' % (mine, theirs), dict(input=descr, solver_output=raw[:2000],
                              correspondence='Solver.v parse_stdout <-> cnfgen/utils/solver.py'), False, site='real-picosat/parse',
                              cls='differs-from-model')
