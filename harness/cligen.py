"""Grammar of command lines for the CLI checks (C07, C17, C18).

Everything is drawn from the rng passed in.  `valid_cmdline` produces command
lines that are meant to be accepted (small sizes so that a run takes well under
a second); C18 perturbs them."""

SIMPLE_RANDOM = ['gnp', 'gnm', 'gnd']


def simple_graph(rng, allow_random=True, maxn=6, save_to=None):
    n = rng.randint(2, maxn)
    kinds = ['complete', 'empty', 'grid', 'torus']
    if allow_random:
        kinds += ['gnp', 'gnm', 'gnd', 'gnp', 'gnm']
    k = rng.choice(kinds)
    if k == 'gnp':
        spec = ['gnp', n, rng.choice(['.3', '.5', '0.7', '1', '0'])]
    elif k == 'gnm':
        spec = ['gnm', n, rng.randint(0, n * (n - 1) // 2)]
    elif k == 'gnd':
        d = rng.randint(0, n - 1)
        if (n * d) % 2:
            d = max(0, d - 1)
        spec = ['gnd', n, d]
    elif k == 'grid':
        spec = ['grid', rng.randint(1, 3), rng.randint(1, 3)]
    elif k == 'torus':
        spec = ['torus', rng.randint(3, 4), rng.randint(3, 4)]
    else:
        spec = [k, n]
    if allow_random and rng.random() < 0.4:
        # one to three DIFFERENT modifiers, in any order (each draws from the generator)
        opts = rng.sample(['plantclique', 'addedges', 'splitedges'], rng.choice([1, 1, 2, 2, 3]))
        for opt in opts:
            if opt == 'plantclique':
                spec += ['plantclique', rng.randint(0, 2)]
            elif opt == 'addedges':
                spec += ['addedges', 0 if k in ('complete',) else rng.randint(0, 1)]
            else:
                spec += ['splitedges', 0 if k in ('empty',) or (k == 'gnm' and spec[2] == 0) else rng.randint(0, 1)]
    if save_to and rng.random() < 0.3:
        spec += ['save', save_to]
    return spec


def bipartite_graph(rng, allow_random=True, save_to=None):
    l, r = rng.randint(1, 5), rng.randint(1, 5)
    kinds = ['complete', 'empty', 'shift']
    if allow_random:
        kinds += ['glrp', 'glrm', 'glrd', 'regular', 'glrp', 'glrd']
    k = rng.choice(kinds)
    if k == 'glrp':
        spec = ['glrp', l, r, rng.choice(['.3', '.5', '1', '0'])]
    elif k == 'glrm':
        spec = ['glrm', l, r, rng.randint(0, max(0, (l * r) // 3))]
    elif k == 'glrd':
        spec = ['glrd', l, r, rng.randint(0, r)]
    elif k == 'regular':
        l = rng.randint(1, 4)
        d = rng.randint(1, 3)
        r = rng.choice([x for x in range(1, 7) if (l * d) % x == 0 and (l * d) // x <= l and d <= x] or [l])
        spec = ['regular', l, r, d if (l * d) % r == 0 and d <= r else min(d, r)]
        if (l * spec[3]) % r != 0:
            spec = ['regular', 3, 3, 2]
    elif k == 'shift':
        pat = sorted(rng.sample(range(1, r + 1), rng.randint(0, r)))
        spec = ['shift', l, r] + pat
    else:
        spec = [k, l, r]
    if allow_random and rng.random() < 0.35:
        for opt in rng.sample(['plantbiclique', 'addedges'], rng.choice([1, 1, 2])):
            if opt == 'plantbiclique':
                spec += ['plantbiclique', rng.randint(0, 1), rng.randint(0, 1)]
            else:
                spec += ['addedges', 0 if k == 'complete' else (1 if k in ('empty',) else 0)]
    if save_to and rng.random() < 0.3:
        spec += ['save', save_to]
    return spec


def dag(rng):
    k = rng.choice(['path', 'tree', 'pyramid'])
    return [k, rng.randint(0, 3)]


def formula_cmd(rng, tool='cnfgen', allow_random=True):
    """(argv for one formula sub-command, uses_randomness)"""
    sg = lambda: simple_graph(rng, allow_random)
    bg = lambda: bipartite_graph(rng, allow_random)
    choices = ['and', 'or', 'true', 'false', 'bphp', 'cliquecoloring', 'count', 'cpls', 'domset', 'ec', 'iso',
               'kclique', 'kcliquebin', 'kcolor', 'matching', 'op', 'parity', 'peb', 'php', 'ptn', 'ram',
               'ramlb', 'rphp', 'stone', 'subgraph', 'subsetcard', 'tiling', 'tseitin', 'vdw']
    if allow_random:
        choices += ['randkcnf', 'randkxor', 'pitfall', 'randkcnf', 'randkxor', 'tseitin', 'php', 'stone', 'op']
    f = rng.choice(choices)
    r = rng.randint
    if f in ('and', 'or'):
        return [f, r(0, 4), r(0, 4)]
    if f in ('true', 'false'):
        return [f]
    if f == 'bphp':
        return [f, r(1, 5), r(1, 5)]
    if f == 'cliquecoloring':
        return [f, r(0, 4), r(1, 3), r(1, 3)]
    if f == 'count':
        return [f, r(0, 6), r(1, 3)]
    if f == 'cpls':
        return [f, r(1, 3), rng.choice([1, 2, 4]), rng.choice([1, 2, 4])]
    if f == 'domset':
        return [f] + (['-a'] if rng.random() < 0.4 else []) + [r(1, 3)] + sg()
    if f in ('ec', 'tiling', 'matching'):
        return [f] + sg()
    if f == 'iso':
        a = [f] + simple_graph(rng, allow_random, 4)
        if rng.random() < 0.5:
            a += ['-e'] + simple_graph(rng, allow_random, 4)
        return a
    if f == 'kclique':
        return [f] + (['--no-symmetry-breaking'] if rng.random() < 0.4 else []) + [r(0, 3)] + sg()
    if f == 'kcliquebin':
        return [f, r(1, 3)] + sg()
    if f == 'kcolor':
        return [f, r(1, 3)] + sg()
    if f == 'op':
        opts = rng.choice([[], ['--total'], ['--smart'], ['--knuth2'], ['--knuth3'], ['-t'], ['-s']])
        opts = opts + (['--plant'] if rng.random() < 0.3 else [])
        k = rng.random()
        if k < 0.5 or not allow_random:
            return [f] + opts + [r(0, 5)]
        if k < 0.75:
            n = r(3, 6)
            d = r(0, n - 1)
            if (n * d) % 2:
                d -= 1
            return [f] + opts + [n, max(d, 0)]
        return [f] + opts + sg()
    if f == 'parity':
        return [f, r(0, 6)]
    if f == 'peb':
        return [f] + dag(rng)
    if f == 'php':
        opts = (['--functional'] if rng.random() < 0.3 else []) + (['--onto'] if rng.random() < 0.3 else [])
        k = rng.random()
        if k < 0.3:
            return [f] + opts + [r(0, 4)]
        if k < 0.6:
            return [f] + opts + [r(0, 5), r(0, 4)]
        if k < 0.8 and allow_random:
            h = r(1, 4)
            return [f] + opts + [r(0, 5), h, r(0, h)]
        return [f] + opts + bg()
    if f == 'pitfall':
        v = rng.choice([4, 5, 6])
        d = rng.choice([2, 3]) if v != 5 else 2
        if (v * d) % 2:
            d = 2
        return [f, v, d, r(2, 3), r(2, 3), 2]
    if f == 'ptn':
        return [f, r(0, 15)]
    if f == 'ram':
        return [f, r(1, 3), r(1, 3), r(0, 5)]
    if f == 'ramlb':
        return [f, r(0, 3), r(0, 3)] + sg()
    if f in ('randkcnf', 'randkxor'):
        n = r(1, 6)
        k = r(1, min(n, 3))
        return [f] + (['--plant'] if rng.random() < 0.3 else []) + [k, n, r(0, 3)]
    if f == 'rphp':
        return [f, r(0, 3), r(0, 3), r(0, 3)]
    if f == 'stone':
        s = r(1, 3)
        a = [f]
        if allow_random and rng.random() < 0.4:
            a += ['--sparse', r(1, s)]
        return a + [s] + dag(rng)
    if f == 'subgraph':
        return [f, '-G'] + sg() + ['-H'] + [rng.choice(['complete', 'empty']), r(1, 3)]
    if f == 'subsetcard':
        opts = ['-e'] if rng.random() < 0.3 else []
        if allow_random and rng.random() < 0.4:
            n = r(2, 4)
            return [f] + opts + [n, r(1, n)]
        return [f] + opts + bg()
    if f == 'tseitin':
        if allow_random and rng.random() < 0.4:
            n = r(3, 7)
            d = rng.choice([x for x in range(1, n) if (n * x) % 2 == 0])
            return [f, n, d]
        ch = ['first', 'zero', 'one'] + (['random', 'randomodd', 'randomeven'] if allow_random else [])
        return [f, rng.choice(ch)] + sg()
    if f == 'vdw':
        return [f, r(0, 7), r(2, 3), r(2, 3)] + ([r(2, 3)] if rng.random() < 0.3 else [])
    raise AssertionError(f)


def transformation(rng, allow_random=True, maxk=3, nvars=None):
    t = rng.choice(['xor', 'or', 'maj', 'eq', 'neq', 'one', 'exact', 'atleast', 'atmost', 'anybut', 'ite', 'lift',
                    'flip', 'none'] + (['shuffle', 'shuffle', 'xorcomp', 'majcomp'] if allow_random else []))
    r = rng.randint
    if t in ('xor', 'or', 'maj', 'eq', 'neq', 'one', 'lift'):
        return ['-T', t, r(1, maxk)]
    if t in ('exact', 'atleast', 'atmost', 'anybut'):
        n = r(1, maxk)
        return ['-T', t, n, r(1, n)]
    if t in ('ite', 'flip', 'none'):
        return ['-T', t]
    if t == 'shuffle':
        return ['-T', t] + [o for o in ('-p', '-v', '-c') if rng.random() < 0.3]
    if t in ('xorcomp', 'majcomp'):
        if rng.random() < 0.5:
            return ['-T', t, r(2, 6), r(1, 2)]
        # explicit random bipartite graph: left side must be the number of variables, which the grammar
        # does not know; an error is a legitimate outcome, a formula must be reproducible
        return ['-T', t] + rng.choice([['glrd', nvars or r(1, 8), r(2, 5), 2], ['glrp', nvars or r(1, 8), r(2, 5), '.5'], ['glrm', nvars or r(1, 8), 4, r(0, 4)]])
    raise AssertionError(t)


def valid_cmdline(rng, tool='cnfgen', seed=None, allow_random=True, max_t=2):
    argv = []
    if seed is not None:
        argv += [rng.choice(['--seed', '-S']), seed]
    if rng.random() < 0.15:
        argv += [rng.choice(['-q', '-v', '--varnames'])]
    if tool == 'pbgen':
        f = formula_cmd(rng, tool, allow_random)
        return argv + f
    if rng.random() < 0.2:
        argv += ['-of', rng.choice(['dimacs', 'opb', 'latex'])]
    f = formula_cmd(rng, tool, allow_random)
    argv += f
    nt = rng.choice([0, 0, 0, 1, 1, 1, 1, 2])
    for _ in range(min(nt, max_t)):
        argv += transformation(rng, allow_random, 3 if nt == 1 else 2)
    return argv
