"""Helpers shared by the `streams` generators of harness/fam_c01.py, fam_c02.py, fam_c03.py
(notes/LARGE_STREAMS.md): threshold values, rare shapes of arguments, and graph objects with a HISTORY.

A family entry of a FAMILIES registry may carry the extra key
    streams : function (rng, tier) -> list of JSON-able param dicts, each with p['stream'] in
              {'thresholds', 'shapes', 'history'}; `build`, `request`, `numvar_doc`, `decode_ok`, `exists`
              of the entry accept these dicts exactly as they accept the ones of `params`.
The key `params` is unchanged (C08, C10, C17 keep their run time); `streams` is read by c01/c02/c03 only.

Conventions inside a param dict
  p['raw'] = {argument name: value}    the value handed to the LIBRARY for that argument (a truthy / falsy
             non-bool such as 1, 2, 'yes', [], None); p[argument name] is the bool the documentation
             promises it means, and is what the model receives.  See `arg`.
  p['ops'] = [op, ...]                 the graph argument is built by replaying these public API calls
             (see `replay`); the graph fields of p (n/edges, L/R/adj, ...) describe the CURRENT edge set
             after the last op, computed by `simulate` (a plain set of pairs, independent of cnfgen).
             ops:  ['new', n] | ['newb', L, R] | ['newd', n]       Graph(n) | BipartiteGraph(L,R) | DirectedGraph(n)
                   ['add', u, v]  ['rm', u, v]  ['grow', n]          add_edge | remove_edge | update_vertex_number
                   ['addmany', [[u, v], ...]]                        add_edges_from
                   ['gen', {flag: value, ...}]                       the generator is CALLED on the object as it is
                                                                     now (result dropped, except for the last op)
             The last op is always a 'gen': one history with g generator calls gives g param dicts, the i-th
             one holding the prefix of the ops up to the i-th 'gen'.  Replaying a prefix calls the generator
             on the SAME object at every earlier 'gen', with an edit in between.
"""

TH = [15, 16, 17, 63, 64, 65, 127, 128, 129, 255, 256, 257, 258, 300, 1000, 1025]
TRUTHY = [1, 2, 'yes', [0], -1, 0.5]
FALSY = [0, '', [], None]


def arg(p, k):
    """the value the library receives for argument k"""
    r = p.get('raw')
    if r is not None and k in r:
        return r[k]
    return p[k]


def flag_shapes(rng, flags, bases, per_value=1):
    """for every flag and every truthy/falsy non-bool value: `per_value` parameter dicts drawn from `bases`
    (a list of dicts holding the other arguments) in which that flag is passed as the raw value; the other
    flags are random bools, and one more dict passes ALL flags as non-bools."""
    out = []
    for f in flags:
        for val in TRUTHY + FALSY:
            for _ in range(per_value):
                p = dict(rng.choice(bases))
                for g in flags:
                    p[g] = rng.random() < 0.5
                p[f] = bool(val)
                p['raw'] = {f: val}
                p['stream'] = 'shapes'
                out.append(p)
    for _ in range(2 * per_value):
        p = dict(rng.choice(bases))
        p['raw'] = {}
        for g in flags:
            val = rng.choice(TRUTHY + FALSY)
            p[g] = bool(val)
            p['raw'][g] = val
        p['stream'] = 'shapes'
        out.append(p)
    return out


# --------------------------------------------------------------------------
# plain graph shapes (edge lists u < v, sorted)
# --------------------------------------------------------------------------
def norm_edges(es):
    return sorted([min(u, v), max(u, v)] for u, v in es)


def star(n, hub=1):
    return norm_edges([hub, v] for v in range(1, n + 1) if v != hub)


def path(n):
    return [[v, v + 1] for v in range(1, n)]


def cycle(n):
    return norm_edges(path(n) + ([[1, n]] if n >= 3 else []))


def hub_on_path(n, deg, hub=1):
    """a path on n vertices whose vertex `hub` gets extra neighbours until its degree is `deg`"""
    es = {(v, v + 1) for v in range(1, n)}
    d = sum(1 for e in es if hub in e)
    v = 1
    while d < deg and v <= n:
        e = (min(hub, v), max(hub, v))
        if v != hub and e not in es:
            es.add(e)
            d += 1
        v += 1
    return norm_edges(es)


def two_cycles(k):
    """two components of equal size: cycles on 1..k and k+1..2k"""
    return norm_edges(cycle(k) + [[u + k, v + k] for u, v in cycle(k)])


def complete_minus(n, missing):
    miss = {(min(u, v), max(u, v)) for u, v in missing}
    return [[u, v] for u in range(1, n + 1) for v in range(u + 1, n + 1) if (u, v) not in miss]


# --------------------------------------------------------------------------
# histories
# --------------------------------------------------------------------------
def simulate(ops):
    """-> dict(kind, n | (L, R), edges=set of pairs) after the ops; independent of cnfgen.
    Simple graphs: pairs (u, v) with u < v; bipartite and directed: ordered pairs."""
    st = None
    for op in ops:
        k = op[0]
        if k == 'new':
            st = dict(kind='simple', n=op[1], edges=set())
        elif k == 'newb':
            st = dict(kind='bipartite', L=op[1], R=op[2], edges=set())
        elif k == 'newd':
            st = dict(kind='directed', n=op[1], edges=set())
        elif k in ('add', 'rm'):
            u, v = op[1], op[2]
            e = (min(u, v), max(u, v)) if st['kind'] == 'simple' else (u, v)
            if k == 'add':
                st['edges'].add(e)
            else:
                st['edges'].discard(e)
        elif k == 'addmany':
            for u, v in op[1]:
                st['edges'].add((min(u, v), max(u, v)) if st['kind'] == 'simple' else (u, v))
        elif k == 'grow':
            st['n'] = max(st['n'], op[1])
        elif k == 'gen':
            pass
        else:
            raise ValueError('unknown op %r' % (op,))
    return st


def replay(ops, call):
    """build the cnfgen object through its public API; call(G, overrides) at every 'gen'; the value of the
    last call is returned (the last op is a 'gen').  An earlier call may raise (the generator refuses the graph
    as it was then, e.g. odd degrees for the even colouring formula): that outcome was compared when that prefix
    was the parameter, here it is dropped like any earlier result."""
    from cnfgen.graphs import Graph, BipartiteGraph, DirectedGraph
    G, res = None, None
    last = max(i for i, op in enumerate(ops) if op[0] == 'gen')
    for i, op in enumerate(ops):
        k = op[0]
        if k == 'new':
            G = Graph(op[1])
        elif k == 'newb':
            G = BipartiteGraph(op[1], op[2])
        elif k == 'newd':
            G = DirectedGraph(op[1])
        elif k == 'add':
            G.add_edge(op[1], op[2])
        elif k == 'rm':
            G.remove_edge(op[1], op[2])
        elif k == 'addmany':
            G.add_edges_from([tuple(e) for e in op[1]])
        elif k == 'grow':
            G.update_vertex_number(op[1])
        elif k == 'gen':
            if i == last:
                res = call(G, op[1] if len(op) > 1 else {})
            else:
                try:
                    call(G, op[1] if len(op) > 1 else {})
                except Exception:
                    pass
        else:
            raise ValueError('unknown op %r' % (op,))
    return res


def build_only(ops):
    """the object after the ops, no generator call"""
    holder = []
    replay([op for op in ops if op[0] != 'gen'] + [['gen']], lambda G, over: holder.append(G))
    return holder[0]


def _flip(rng, u, v):
    return (v, u) if rng.random() < 0.5 else (u, v)


def simple_history(rng, n0=None, maxdeg=None, even=False):
    """phases of edits of one Graph object; returns a list of op lists (one per phase, without 'gen').
    Phase 1 inserts edges in random order and orientation (some twice); phase 2 removes edges and adds as
    many elsewhere (vertex and edge counts return to earlier values); phase 3 raises the vertex number by
    >= 2 and uses the new vertices; phase 4 isolates a vertex and, sometimes, restores one edge.
    maxdeg caps degrees (Tseitin / even colouring cost 2^deg)."""
    n = n0 if n0 is not None else rng.randint(3, 8)
    edges = set()
    deg = {}

    def can(u, v):
        if u == v or (min(u, v), max(u, v)) in edges:
            return False
        return maxdeg is None or (deg.get(u, 0) < maxdeg and deg.get(v, 0) < maxdeg)

    def add(ops, u, v):
        e = (min(u, v), max(u, v))
        edges.add(e)
        deg[u] = deg.get(u, 0) + 1
        deg[v] = deg.get(v, 0) + 1
        ops.append(['add'] + list(_flip(rng, u, v)))

    def rm(ops, e):
        edges.discard(e)
        deg[e[0]] -= 1
        deg[e[1]] -= 1
        ops.append(['rm'] + list(_flip(rng, *e)))

    def candidates(vs):
        c = [(u, v) for u in vs for v in range(1, n + 1) if u < v or v not in vs]
        c = [(u, v) for u, v in c if u != v]
        rng.shuffle(c)
        return c

    phases = []
    ops = [['new', n]]
    want = rng.randint(0, n * (n - 1) // 2)
    many = []
    for (u, v) in candidates(range(1, n + 1)):
        if len(edges) >= want:
            break
        if can(u, v):
            if rng.random() < 0.2:
                e = (min(u, v), max(u, v))
                edges.add(e)
                deg[u] = deg.get(u, 0) + 1
                deg[v] = deg.get(v, 0) + 1
                many.append(list(_flip(rng, u, v)))
            else:
                add(ops, u, v)
                if rng.random() < 0.15:
                    ops.append(['add'] + list(_flip(rng, u, v)))     # a second insertion changes nothing
    if many:
        ops.insert(rng.randint(1, len(ops)), ['addmany', many])
    phases.append(ops)
    # phase 2: remove k, add k elsewhere
    ops = []
    k = rng.randint(1, 3)
    gone = rng.sample(sorted(edges), min(k, len(edges)))
    for e in gone:
        rm(ops, e)
    ops.append(['rm', 1, n] if (1, n) not in edges else ['rm', n, n])    # not an edge: nothing happens
    added = 0
    for (u, v) in candidates(range(1, n + 1)):
        if added >= len(gone):
            break
        if can(u, v) and (min(u, v), max(u, v)) not in gone:
            add(ops, u, v)
            added += 1
    phases.append(ops)
    # phase 3: raise the vertex number by >= 2 at once, use the new vertices
    ops = []
    d = rng.choice([2, 2, 3, 5])
    old = n
    n = n + d
    ops.append(['grow', n])
    if rng.random() < 0.5:
        ops.append(['grow', rng.randint(0, old)])       # a smaller value changes nothing
    new = list(range(old + 1, n + 1))
    for w in (new[0], new[-1]):
        for (u, v) in candidates([w])[:rng.randint(1, 3)]:
            if can(u, v):
                add(ops, u, v)
    if can(new[0], new[-1]) and rng.random() < 0.5:
        add(ops, new[-1], new[0])
    phases.append(ops)
    # phase 4: isolate a vertex
    ops = []
    w = rng.randint(1, n)
    mine = [e for e in sorted(edges) if w in e]
    rng.shuffle(mine)
    for e in mine:
        rm(ops, e)
    if mine and rng.random() < 0.5:
        add(ops, *mine[0])
    if not ops:
        ops.append(['rm', 1, 2])
    phases.append(ops)
    return phases


def bipartite_history(rng, L=None, R=None, maxdeg=None):
    """BipartiteGraph has add_edge only: edges in random order, some twice, three phases"""
    L = L if L is not None else rng.randint(0, 5)
    R = R if R is not None else rng.randint(0, 5)
    cells = [(u, v) for u in range(1, L + 1) for v in range(1, R + 1)]
    rng.shuffle(cells)
    cells = cells[:rng.randint(0, len(cells))]
    if maxdeg is not None:
        dl, dr, keep = {}, {}, []
        for u, v in cells:
            if dl.get(u, 0) < maxdeg and dr.get(v, 0) < maxdeg:
                keep.append((u, v))
                dl[u] = dl.get(u, 0) + 1
                dr[v] = dr.get(v, 0) + 1
        cells = keep
    cut = sorted(rng.randint(0, len(cells)) for _ in range(2))
    chunks = [cells[:cut[0]], cells[cut[0]:cut[1]], cells[cut[1]:]]
    phases = []
    for i, ch in enumerate(chunks):
        ops = [['newb', L, R]] if i == 0 else []
        for (u, v) in ch:
            ops.append(['add', u, v])
            if rng.random() < 0.15:
                ops.append(['add', u, v])
        if i > 0 and chunks[0] and rng.random() < 0.5:
            ops.append(['add'] + list(chunks[0][0]))      # an old edge again
        phases.append(ops)
    return phases


def dag_history(rng, n=None, density=0.4):
    """DirectedGraph has add_edge only: forward edges in random order, some twice, three phases"""
    n = n if n is not None else rng.randint(1, 7)
    cells = [(u, v) for u in range(1, n + 1) for v in range(u + 1, n + 1) if rng.random() < density]
    rng.shuffle(cells)
    cut = sorted(rng.randint(0, len(cells)) for _ in range(2))
    chunks = [cells[:cut[0]], cells[cut[0]:cut[1]], cells[cut[1]:]]
    phases = []
    for i, ch in enumerate(chunks):
        ops = [['newd', n]] if i == 0 else []
        for (u, v) in ch:
            ops.append(['add', u, v])
            if rng.random() < 0.15:
                ops.append(['add', u, v])
        phases.append(ops)
    return phases


def history_points(phases, flagsets, offset=0):
    """[(ops prefix ending with a 'gen', flags of that call, simulated state)] -- one per phase"""
    out, ops = [], []
    for i, ph in enumerate(phases):
        fl = dict(flagsets[(i + offset) % len(flagsets)]) if flagsets else {}
        ops = ops + [list(o) for o in ph] + [['gen', fl]]
        out.append((list(ops), fl, simulate(ops)))
    return out


def simple_fields(st):
    return st['n'], sorted([u, v] for (u, v) in st['edges'])


def bip_adj(st):
    adj = [[] for _ in range(st['L'])]
    for (u, v) in sorted(st['edges']):
        adj[u - 1].append(v)
    return adj


# --------------------------------------------------------------------------
# driver replies of several MB: the regular-expression reader of lib.unsx is the bottleneck there
# --------------------------------------------------------------------------
def fast_unsx(line):
    """same value as lib.unsx for a formula reply (numvar clauses constraints): nested lists of integers and
    quoted operators, read by the json module after a textual change of brackets; anything else (raises,
    error, symbols, escapes) goes to lib.unsx"""
    import json
    from lib import unsx
    if '\\' in line or not line.startswith('(') or line.startswith('(raises') or line.startswith('(error'):
        return unsx(line)
    try:
        return json.loads(line.replace('(', '[').replace(')', ']').replace(' ', ','))
    except ValueError:
        return unsx(line)


def fast_batch(reqs, timeout=1500):
    """lib.Model.batch with fast_unsx"""
    import subprocess
    import lib
    if not reqs:
        return []
    text = '\n'.join(r if isinstance(r, str) else lib.sx(r) for r in reqs) + '\n'
    p = subprocess.run([lib.DRIVER], input=text.encode('latin-1'), stdout=subprocess.PIPE,
                       stderr=subprocess.PIPE, preexec_fn=lib._unlimit_stack, timeout=timeout)
    lines = p.stdout.decode('latin-1').split('\n')
    if lines and lines[-1] == '':
        lines.pop()
    if len(lines) != len(reqs):
        raise lib.ModelError('driver answered %d of %d requests (rc=%s, stderr=%s)' %
                             (len(lines), len(reqs), p.returncode, p.stderr.decode()[:300]))
    return [fast_unsx(l) for l in lines]
