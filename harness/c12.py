"""C12 -- OPB and LaTeX renderings denote the formula held in memory.

Correspondence between cnfgen (utils/opb.py to_opb_file, utils/latexoutput.py
_print_latex / to_latex_document, reached through to_opb(), to_latex(), to_file())
and the extracted Coq model (coq/OpbText.v, coq/Latex.v):

 opb     CNF and OPB objects (coefficients > 1, equalities with negative literals,
         empty constraints, all five operators through add_constraint), with and
         without header / names: the text must equal print_opb byte for byte; the
         independent reader parse_opb (model) applied to the IMPLEMENTATION's text
         must give back the declared counts and the constraints held in memory term
         by term; the shape (first line, '*' comments, constraint lines) is checked
         directly.
 latex   to_latex() and the full document (0/1/34/35/36/70/71 rows and random) must
         equal print_latex_string / print_latex_document byte for byte; the structural
         decoder rows_of_latex (model) applied to the implementation's text must give
         one row per clause / constraint with that row's literal tokens, \\square for
         the empty clause and \\top only for the empty formula.
Header fields and variable names with line breaks are compared byte for byte too
(print_opb models the writer after the repair of D4); a text equal to
print_opb_as_found on such an input is the old defect come back and is reported
with its failing input."""
import io

import lib
from lib import cmd, Sym, import_impl, is_error
import c06

META = dict(
    technique='Coq theorems over a character-level model of the OPB and LaTeX writers (opb_roundtrip with an independent '
              'reader, opb_shape, for every header and name list; latex_rows_*, latex_rows_literals) + extracted-model differential check (texts byte for byte; the model\'s '
              'reader / decoder run on the implementation\'s output)',
    category='proof',
    text='Machine-checked theorems state, for every CNF or pseudo-Boolean formula with literals in range and operators >= / ==, '
         'every header and every list of variable names (line breaks included), that an independent OPB reader applied to the written text returns the '
         'declared number of variables and, constraint by constraint, the same coefficients, literals, relation and degree, and '
         'that the text is the counts line, comment lines and one line per constraint; and that the LaTeX align blocks decode, for '
         'every row split, to one row per clause / constraint in order with exactly that row\'s literal tokens, each of which '
         'decodes back to the polarity and the variable name of the literal, the empty clause '
         'as \\square and \\top only for the empty formula. The model is tied to the code by comparing texts byte for byte and by '
         'running the model\'s reader / decoder on the implementation\'s output.',
    note='Trusted: Coq kernel, extraction, OCaml driver, the harness. The model is hand-written and covers 8-bit characters. '
         'The LaTeX decoder theorem assumes names without white space. Coefficients 0 and 1 are both printed as no coefficient in '
         'LaTeX (D26). The literal decoding assumes names that do not begin with \\overline{. D4 (a line break in a header field or name '
         'written raw into the OPB text) is repaired in the code; the model follows the repaired writer.',
    design_ref='5/C12',
)
RULE = ('one case per (formula, format, header?, names?); non-trivial when the formula has a row; distinct = distinct (stream, input)')
TRUSTED = ['harness/c12.py generators; conversion of in-memory constraints to the model input',
           'parse_opb / rows_of_latex are readers written for this check (cnfgen has none); they are part of the statement']

FINDING_SITE = 'to_opb_file'
FINDING_CLS = 'line-break-in-header-or-name'


def mem_constraints(F, is_opb):
    """the constraints held in memory, as the model's input"""
    if is_opb:
        return [[[[c, l] for (c, l) in con[:-2]], con[-2], con[-1]] for con in F]
    return [list(c) for c in F]


def model_formula(F, is_opb):
    n = F.number_of_variables()
    if is_opb:
        return [Sym('opb'), n, mem_constraints(F, True)]
    return [Sym('cnf'), n, mem_constraints(F, False)]


def expected_read(F, is_opb):
    """what an OPB reader must return for this formula"""
    n = F.number_of_variables()
    if is_opb:
        return ['ok', n, [[[[c, l] for (c, l) in con[:-2]], '>=' if con[-2] == '>=' else '==', con[-1]] for con in F]]
    return ['ok', n, [[[[1, l] for l in c], '>=', 1] for c in F]]


def expected_litrows(F, is_opb, tex_labels):
    """the rows of the LaTeX rendering as literals, from the formula in memory only:
    (polarity, variable name) per literal; for constraints the coefficient as shown"""
    def pn(l):
        return [l > 0, tex_labels[abs(l) - 1]]
    rows = []
    for con in F:
        if is_opb:
            rows.append(['constraint', [[str(c) if c > 1 else '', pn(l)] for (c, l) in con[:-2]],
                         '>=' if con[-2] == '>=' else '==', str(con[-1])])
        elif len(con) == 0:
            rows.append(['square'])
        else:
            rows.append(['clause', [pn(l) for l in con]])
    return rows


def opb_shape_defect(text, n, m):
    """direct check of the shape, as a reader splitting at "\\n" only and as a reader of a file in text mode see it"""
    d = opb_shape_defect1(text, n, m)
    if d is None and '\r' in text:
        d = opb_shape_defect1(text.replace('\r\n', '\n').replace('\r', '\n'), n, m)
        if d is not None:
            d += ' (when read with universal newlines)'
    return d


def opb_shape_defect1(text, n, m):
    if not text.endswith('\n'):
        return 'last line not terminated'
    lines = text.split('\n')[:-1]
    if not lines or lines[0] != '* #variable= %d #constraint= %d' % (n, m):
        return 'first line is %r, true counts are %d %d' % (lines[0][:60] if lines else None, n, m)
    rest = [l for l in lines[1:] if not l.startswith('*')]
    if len(rest) != m:
        return '%d non-comment lines for %d constraints' % (len(rest), m)
    import re
    rx = re.compile(r'^([+-]\d+ ~?x\d+ )*(>=|=) -?\d+$')
    for l in rest:
        if not rx.match(l):
            return 'line %r is neither a comment nor a constraint' % l[:60]
    return None


def build(ctx, cnfgen, quick):
    """[(label, cls, is_opb, thunk)]"""
    from cnfgen.formula.opb import OPB
    C = cnfgen
    CNF = C.CNF
    rng = ctx.rng
    out = []

    def add(label, cls, is_opb, thunk):
        out.append((label, cls, is_opb, thunk))

    # CNF objects: reuse the DIMACS collection (hand-built incl. odd headers / names / line breaks, families, chains)
    for label, cls, thunk in c06.build_formulas(ctx, cnfgen, True):
        if cls == 'large' or label.startswith('large literal') or label.startswith('wide'):
            continue
        add(label, 'cnf-' + cls, False, thunk)

    # OPB objects
    add('empty opb', 'opb-hand', True, lambda: OPB())

    def o1():
        F = OPB()
        F.add_constraint([(2, 3), (1, -1), (3, 4), '>=', 2])
        F.add_constraint(['==', -1])
        F.add_constraint([(1, 1), (2, -2), '<', 2])
        F.add_constraint([(1, 1), (2, -2), '==', 2])
        F.add_constraint([(5, -1), (7, -2), (1, 3), '<=', 6])
        F.add_constraint([(5, -1), (-7, -2), (1, 3), '>', -3])
        F.add_constraint(['>=', 0])
        F.update_variable_number(6)
        return F
    add('mixed constraints', 'opb-hand', True, o1)

    def o2():
        F = OPB()
        F.add_clause([1, -2, 3])
        F.add_clause([])
        F.cardinality_eq([1, 2, -3, 4], 2)
        F.cardinality_leq([1, 2, 3], 1)
        F.cardinality_geq([-1, -2], 1)
        F.add_parity([1, 2, 3], 1)
        return F
    add('clauses, cardinalities, parity', 'opb-hand', True, o2)

    def o3():
        F = OPB()
        F.add_constraint([(0, 1), (1, 2), (10 ** 20, -3), '>=', 10 ** 20])
        return F
    add('zero and huge coefficient', 'opb-hand', True, o3)

    def o4():
        F = OPB(description='caf\xe9 % * # odd')
        F.new_variable('X')
        F.new_block(2, 2, label='z_{{{},{}}}')
        F.new_variable('* #variable= 9 #constraint= 9')
        F.new_variable('w^2_3')
        F.new_variable('_lead')
        F.add_constraint([(2, 1), (3, -2), (1, -6), (4, -7), (2, -8), '>=', 3])
        return F
    add('named opb variables', 'opb-hand', True, o4)
    def o5():
        F = CNF()
        F.new_variable('\\overline{x}_1')
        F.new_variable('x_1')
        F.add_clause([1, -2])
        return F
    add('name beginning with \\overline{', 'cnf-hand', False, o5)
    for i, txt in enumerate(c06.BREAK_TEXTS):
        def ob(txt=txt):
            F = OPB(description=txt)
            F.add_constraint([(2, 1), (1, -2), '>=', 1])
            return F
        add('opb line break in description %d' % i, 'opb-break', True, ob)
    for i in range(15 if quick else 200):
        def obr(seed=rng.randrange(1 << 30)):
            import random
            r = random.Random(seed)
            F = OPB(description=c06.break_text(r))
            for _ in range(r.randint(0, 2)):
                F.header[c06.break_text(r)] = c06.break_text(r)
            for _ in range(r.randint(0, 3)):
                try:
                    F.new_variable(c06.break_text(r))
                except ValueError:
                    pass
            if F.number_of_variables() < 2:
                F.update_variable_number(2)
            F.add_constraint([(2, 1), (1, -2), r.choice(['>=', '==']), 1])
            return F
        add('opb random fields with line breaks %d' % i, 'opb-break-random', True, obr)
    for rows in (1, 2, 34, 35, 36, 70, 71):
        def many(rows=rows):
            F = OPB()
            for i in range(rows):
                F.add_constraint([(1 + i % 3, 1 + i % 5), (2, -(1 + (i * 7) % 6)), '>=' if i % 2 else '==', i % 4])
            return F
        add('opb %d rows' % rows, 'opb-rows', True, many)

        def manyc(rows=rows):
            F = CNF()
            for i in range(rows):
                F.add_clause([1 + i % 5, -(1 + (i * 7) % 6)] if i % 9 else [])
            return F
        add('cnf %d rows' % rows, 'cnf-rows', False, manyc)
    for i in range(15 if quick else 500):
        def rnd(seed=rng.randrange(1 << 30)):
            import random
            r = random.Random(seed)
            F = OPB()
            n = r.randint(1, 9)
            for _ in range(r.randint(0, 12)):
                w = r.choice([0, 1, 2, 3, 5])
                terms = [(r.randint(-4, 6), r.choice([1, -1]) * r.randint(1, n)) for _ in range(w)]
                F.add_constraint(terms + [r.choice(['>=', '==', '<=', '<', '>']), r.randint(-5, 9)])
            if r.random() < 0.3:
                F.update_variable_number(n + 3)
            return F
        add('random opb %d' % i, 'opb-random', True, rnd)
    # random variable names (the \\overline placement looks for the first '_' or '^' not at position 0)
    for i in range(12 if quick else 300):
        def rn(seed=rng.randrange(1 << 30), as_opb=(i % 2 == 1)):
            import random
            r = random.Random(seed)
            F = OPB() if as_opb else CNF()
            k = r.randint(1, 5)
            for _ in range(k):
                m = r.choice([1, 1, 2, 3, 6])
                nm = ''.join(r.choice('xyzXp_^_^{}\\01,()&+|' + (' ' if r.random() < 0.1 else 'q')) for _ in range(m))
                F.new_variable(nm)
            for _ in range(r.randint(0, 6)):
                w = r.choice([0, 1, 2, 3])
                lits = [r.choice([1, -1]) * r.randint(1, k) for _ in range(w)]
                if as_opb:
                    F.add_constraint([(r.randint(0, 4), l) for l in lits] + [r.choice(['>=', '==']), r.randint(0, 4)])
                else:
                    F.add_clause(lits)
            return F
        add('random names %d' % i, 'opb-random-names' if i % 2 == 1 else 'cnf-random-names', i % 2 == 1, rn)
    # families built as OPB objects
    add('php 4 3 as OPB', 'opb-family', True, lambda: C.PigeonholePrinciple(4, 3, formula_class=OPB))
    add('count 5 2 as OPB', 'opb-family', True, lambda: C.CountingPrinciple(5, 2, formula_class=OPB))
    add('subsetcard as OPB', 'opb-family', True, lambda: C.SubsetCardinalityFormula(c06.bip(C, rng, 4, 4, 3), formula_class=OPB))
    add('tseitin as OPB', 'opb-family', True, lambda: C.TseitinFormula(c06.cycle_graph(C, 5), formula_class=OPB))
    return out


def run(ctx):
    cnfgen = import_impl()
    quick = ctx.tier == 'quick'
    cases = []
    for label, cls, is_opb, thunk in build(ctx, cnfgen, quick):
        try:
            F = thunk()
        except Exception as e:  # noqa
            ctx.note('generator %s raised %s: %s' % (label, type(e).__name__, str(e)[:80]))
            continue
        n = F.number_of_variables()
        if n > 10 ** 6:
            continue
        labels = list(F.all_variable_labels())
        tex_labels = list(F.all_variable_labels(default_label_format='x_{}'))
        ctx.tally('formula class', cls)
        ctx.tally('rows', '0' if len(F) == 0 else '1-34' if len(F) < 35 else '35' if len(F) == 35 else '36-70' if len(F) <= 70 else '71+')
        cases.append(dict(label=label, cls=cls, is_opb=is_opb, F=F, n=n, labels=labels, tex_labels=tex_labels))

    # ---------------- OPB text ----------------
    jobs = []
    for c in cases:
        F = c['F']
        for header in (False, True):
            for names in (False, True):
                if names and not all(c06.latin1(x) for x in c['labels']):
                    continue
                s = io.StringIO()
                try:
                    F.to_file(s, fileformat='opb', export_header=header, export_varnames=names)
                    text, wexc = s.getvalue(), None
                except Exception as e:  # noqa
                    text, wexc = None, [type(e).__name__, str(e)[:120]]
                jobs.append(dict(c=c, header=header, names=names, text=text, wexc=wexc))
    reqs = []
    for j in jobs:
        c = j['c']
        margs = (c06.opt(c06.header_for_model(c['F']) if j['header'] else None),
                 c06.opt(c['labels'] if j['names'] else None), model_formula(c['F'], c['is_opb']))
        reqs.append(cmd('print_opb', *margs))
        reqs.append(cmd('parse_opb', j['text'] if j['text'] is not None and c06.latin1(j['text']) else ''))
        reqs.append(cmd('print_opb_as_found', *margs))
    reps3 = ctx.model.batch(reqs)
    reps = [x for i, x in enumerate(reps3) if i % 3 != 2]
    as_found = reps3[2::3]
    for k, j in enumerate(jobs):
        c = j['c']
        F = c['F']
        mp, mr = reps[2 * k], reps[2 * k + 1]
        descr = dict(formula=c['label'], kind='OPB' if c['is_opb'] else 'CNF', n=c['n'],
                     constraints=mem_constraints(F, c['is_opb']) if len(F) <= 12 else '%d rows' % len(F),
                     export_header=j['header'], export_varnames=j['names'],
                     header=[[str(a), str(b)] for a, b in F.header.items()] if j['header'] else None,
                     names=c['labels'][:12] if j['names'] else None)
        ctx.count('opb', (c['label'], j['header'], j['names']), len(F) > 0, sample=dict(descr, constraints='...'))
        ctx.tally('opb options', 'header=%s names=%s' % (j['header'], j['names']))
        if j['text'] is None:
            ctx.violation('counterexample', 'writing a formula to OPB raised %s' % j['wexc'][0], dict(input=descr, implementation=j['wexc']),
                          True, site='to_opb_file', cls='raises-' + j['wexc'][0])
            continue
        text = j['text']
        broken = c06.has_break(F, j['header'], j['names'], c['labels'])
        want = expected_read(F, c['is_opb'])
        defect = opb_shape_defect(text, c['n'], len(F))
        read_ok = (mr == want) if c06.latin1(text) else None
        if is_error(mp) or is_error(mr):
            ctx.violation('correspondence', 'model error', dict(input=descr, model=[mp, mr]), False, site='model-error', cls='opb')
            continue
        ctx.tally('opb: line break in header/name', broken)
        old_text = broken and as_found[k] == text          # the writer as it was before the repair of D4
        if old_text and (read_ok is False or defect is not None):
            ctx.disagreements_checked += 1
            ctx.violation('counterexample', 'a line break inside a header field or variable name is written raw into the OPB text again '
                          '(the text is the one of print_opb_as_found): a line that is neither a comment nor a constraint of the formula',
                          dict(input=descr, text=text[:400], expected_text=mp[:400], reader=mr, shape=defect,
                               theorem='opb_roundtrip / opb_shape hold of print_opb; opb_header_newline_refuted describes this text'),
                          True, site=FINDING_SITE, cls=FINDING_CLS)
            continue
        if read_ok is False or defect is not None:
            ctx.disagreements_checked += 1
            ctx.violation('counterexample', 'the OPB text does not denote the formula in memory: %s' % (defect or 'an independent reader returns other constraints'),
                          dict(input=descr, text=text[:500], reader=mr if mr != want else 'as in memory', in_memory=want, shape=defect), True,
                          site='to_opb_file', cls=('line-break-other' if broken else 'shape' if defect else 'denotation'))
            continue
        if mp != text:
            ctx.disagreements_checked += 1
            i = next((q for q in range(min(len(mp), len(text))) if mp[q] != text[q]), min(len(mp), len(text)))
            ctx.violation('correspondence', 'OPB text differs from the model (OpbText.v print_opb) although it reads back correctly',
                          dict(input=descr, first_difference_at=i, implementation=text[max(0, i - 40):i + 60], model=mp[max(0, i - 40):i + 60],
                               correspondence='OpbText.v print_opb <-> to_opb_file'), False, site='to_opb_file', cls='text-differs')

    # ---------------- LaTeX ----------------
    jobs = []
    for c in cases:
        F = c['F']
        if not all(c06.latin1(x) for x in c['tex_labels']) or not c06.latin1(str(F.header.get('description', ''))):
            ctx.tally('latex skipped', 'non latin-1 name or title')
            continue
        try:
            snippet, sexc = F.to_latex(), None
        except Exception as e:  # noqa
            snippet, sexc = None, [type(e).__name__, str(e)[:100]]
        docs = []
        for header in (False, True):
            extra = '' if header else 'Some extra text & more.\n'
            s = io.StringIO()
            try:
                F.to_file(s, fileformat='latex', export_header=header, extra_text=extra)
                docs.append((header, extra, s.getvalue(), None))
            except Exception as e:  # noqa
                docs.append((header, extra, None, [type(e).__name__, str(e)[:100]]))
        jobs.append(dict(c=c, snippet=snippet, sexc=sexc, docs=docs))
    reqs = []
    for j in jobs:
        c = j['c']
        f = model_formula(c['F'], c['is_opb'])
        reqs.append(cmd('print_latex', c['tex_labels'], -1, True, f))
        reqs.append(cmd('formula_lrows', c['tex_labels'], f))
        reqs.append(cmd('rows_of_latex', c['is_opb'], j['snippet'] or ''))
        reqs.append(cmd('latex_litrows', c['is_opb'], j['snippet'] or ''))
        reqs.append(cmd('formula_litrows', c['tex_labels'], f))
        for (header, extra, doc, _) in j['docs']:
            reqs.append(cmd('print_latex_document', str(c['F'].header['description']),
                            c06.opt(c06.header_for_model(c['F']) if header else None), extra, c['tex_labels'], f))
            reqs.append(cmd('print_latex', c['tex_labels'], 35, False, f))
    reps = iter(ctx.model.batch(reqs))
    for j in jobs:
        c = j['c']
        F = c['F']
        msnip, mrows, drows = next(reps), next(reps), next(reps)
        dlits, mlits = next(reps), next(reps)
        descr = dict(formula=c['label'], kind='OPB' if c['is_opb'] else 'CNF', n=c['n'], rows=len(F),
                     constraints=mem_constraints(F, c['is_opb']) if len(F) <= 12 else '%d rows' % len(F), names=c['tex_labels'][:12])
        names_ok = not any(ch.isspace() for nm in c['tex_labels'] for ch in nm)
        ctx.count('latex-snippet', c['label'], len(F) > 0, sample=dict(descr, constraints='...'))
        ctx.tally('latex names without white space', names_ok)
        if j['snippet'] is None:
            if msnip is None and j['sexc'][0] == 'KeyError':
                ctx.violation('counterexample', 'to_latex() raises KeyError: a literal of the formula has no variable label',
                              dict(input=descr, implementation=j['sexc']), True, site='to_latex', cls='KeyError-missing-label')
            else:
                ctx.violation('counterexample', 'to_latex() raised %s' % j['sexc'][0], dict(input=descr, implementation=j['sexc'], model=msnip),
                              True, site='to_latex', cls='raises-' + j['sexc'][0])
            for _ in j['docs']:
                next(reps), next(reps)
            continue
        # the property itself, checked on the implementation's text with the model's decoder
        want_rows = [len(F) == 0, mrows[1]] if mrows is not None else None
        if names_ok and want_rows is not None and drows != want_rows:
            ctx.disagreements_checked += 1
            bad = next((i for i, (a, b) in enumerate(zip(drows[1], want_rows[1])) if a != b), None)
            ctx.violation('counterexample', 'the LaTeX rows do not show the clauses / constraints in memory (row %s)' % bad,
                          dict(input=descr, text=j['snippet'][:600], decoded=drows[1][bad] if bad is not None else [drows[0], len(drows[1])],
                               expected=want_rows[1][bad] if bad is not None else [want_rows[0], len(want_rows[1])], theorem='latex_rows'),
                          True, site='to_latex', cls='rows')
        elif msnip != ['some', j['snippet']]:
            ctx.disagreements_checked += 1
            ctx.violation('correspondence', 'to_latex() text differs from the model (Latex.v print_latex_string)',
                          dict(input=descr, implementation=j['snippet'][:500], model=(msnip[1][:500] if msnip else None),
                               correspondence='Latex.v print_latex <-> _print_latex'), False, site='to_latex', cls='text-differs')
        # the same, read as literals: (polarity, variable name) of every literal of every row, against the formula in memory
        decodable = not any(nm.startswith('\\overline{') for nm in c['tex_labels'])
        ctx.tally('latex names decodable (none begins with \\overline{)', decodable)
        try:
            want_lits = expected_litrows(F, c['is_opb'], c['tex_labels'])
        except IndexError:
            want_lits = None
        if names_ok and decodable and want_lits is not None:
            ctx.count('latex-literals', c['label'], len(F) > 0)
            if dlits != [len(F) == 0, [['some', r] for r in want_lits]]:
                ctx.disagreements_checked += 1
                bad = next((i for i, (a, b) in enumerate(zip(dlits[1], want_lits)) if a != ['some', b]), None)
                ctx.violation('counterexample', 'the LaTeX rows do not show the literals of the formula in memory (row %s): polarity or variable name differs' % bad,
                              dict(input=descr, text=j['snippet'][:600], decoded=dlits[1][bad] if bad is not None else [dlits[0], len(dlits[1])],
                                   expected=want_lits[bad] if bad is not None else [len(F) == 0, len(want_lits)], theorem='latex_rows_literals'),
                              True, site='to_latex', cls='literals')
            elif mlits != ['some', want_lits]:
                ctx.violation('correspondence', 'formula_litrows (Latex.v) differs from the literal rows computed by the harness',
                              dict(input=descr, model=mlits, harness=want_lits), False, site='Latex.formula_litrows', cls='differs')
        for (header, extra, doc, dexc) in j['docs']:
            mdoc, mbody = next(reps), next(reps)
            ctx.count('latex-document', (c['label'], header), len(F) > 0)
            if doc is None:
                ctx.violation('counterexample', 'writing the LaTeX document raised %s' % dexc[0], dict(input=descr, implementation=dexc), True,
                              site='to_latex_document', cls='raises-' + dexc[0])
                continue
            if names_ok and decodable and want_lits is not None and not header:
                start = doc.find('\\begin{align}')
                lits = ctx.model.call(Sym('latex_litrows'), c['is_opb'], doc[start:doc.rfind('\\end{document}')] if start >= 0 else '')
                ctx.count('latex-document-literals', c['label'], len(F) > 0)
                if lits != [len(F) == 0, [['some', r] for r in want_lits]]:
                    ctx.disagreements_checked += 1
                    ctx.violation('counterexample', 'the LaTeX document (35 rows per block) does not show the literals of the formula in memory',
                                  dict(input=descr, decoded_rows=len(lits[1]), expected_rows=len(want_lits), theorem='latex_rows_literals'), True,
                                  site='to_latex_document', cls='literals')
                    continue
            if mdoc != ['some', doc]:
                ctx.disagreements_checked += 1
                # does the document still contain the right rows?  decode its align part
                start = doc.find('\\begin{align}')
                rows = ctx.model.call(Sym('rows_of_latex'), c['is_opb'], doc[start:doc.rfind('\\end{document}')] if start >= 0 else '')
                if names_ok and want_rows is not None and rows != want_rows:
                    ctx.violation('counterexample', 'the LaTeX document does not show the clauses / constraints in memory (page split?)',
                                  dict(input=descr, export_header=header, decoded_rows=len(rows[1]), expected_rows=len(want_rows[1])), True,
                                  site='to_latex_document', cls='rows')
                else:
                    i = next((q for q in range(min(len(mdoc[1]), len(doc))) if mdoc[1][q] != doc[q]), 0) if mdoc else 0
                    ctx.violation('correspondence', 'LaTeX document differs from the model (Latex.v print_latex_document)',
                                  dict(input=descr, export_header=header, first_difference_at=i, implementation=doc[max(0, i - 60):i + 80],
                                       model=(mdoc[1][max(0, i - 60):i + 80] if mdoc else None)), False, site='to_latex_document', cls='text-differs')
    ctx.assumptions.append('LaTeX decoder theorem: names without white space; characters above 255 outside the model')
