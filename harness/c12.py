"""C12 -- OPB and LaTeX renderings denote the formula held in memory.

Correspondence between cnfgen (utils/opb.py to_opb_file, utils/latexoutput.py
_print_latex / to_latex_document, reached through to_opb(), to_latex(), to_file())
and the extracted Coq model (coq/OpbText.v, coq/Latex.v):

 opb     CNF and OPB objects (coefficients > 1, equalities with negative literals,
         empty constraints, all five operators through add_constraint), with and
         without header / names: the text must equal print_opb byte for byte; the
         independent reader parse_opb (model) applied to the IMPLEMENTATION's text
         must give back the declared counts and the constraints held in memory term
         by term; the shape (first line, '*' comments, constraint lines) is checked
         directly.
 latex   to_latex() and the full document (0/1/34/35/36/70/71 rows and random) must
         equal print_latex_string / print_latex_document byte for byte; the structural
         decoder rows_of_latex (model) applied to the implementation's text must give
         one row per clause / constraint with that row's literal tokens, \\square for
         the empty clause and \\top only for the empty formula.
Run first, as a corpus (notes/LARGE_STREAMS.md): huge (OPB / LaTeX of more than 8 and 16 MiB, more than 65536 and
131072 constraints / rows, constraints of 30000 terms, coefficients up to 2^64: the statement checked directly with
the harness's own OPB reader and LaTeX row decoder, which are tied to the model's on every small case), thresholds
(coefficients, degrees, variable numbers, widths, row and page counts, field and name lengths; exact), shapes
(destinations, file names that merely end in the letters of an extension, `cnfgen -o` / `pbgen -o`, names outside
ASCII in-process and in a C-locale process) and history (one object edited between renderings).
Header fields and variable names with line breaks are compared byte for byte too
(print_opb models the writer after the repair of D4); a text equal to
print_opb_as_found on such an input is the old defect come back and is reported
with its failing input."""
import io

import lib
from lib import cmd, Sym, import_impl, is_error
import c06

META = dict(
    technique='Coq theorems over a character-level model of the OPB and LaTeX writers (opb_roundtrip with an independent '
              'reader, opb_shape, for every header and name list; latex_rows_*, latex_rows_literals) + extracted-model differential check (texts byte for byte; the model\'s '
              'reader / decoder run on the implementation\'s output) + the same at the level of the tools (Prop_C12_pipeline.v: the LaTeX document, the varname '
              'lines and the OPB text cnfgen / pbgen write for any argv of the pipeline grammar decode to the formula of the family model; byte for byte against the real tools)',
    category='proof',
    text='Machine-checked theorems state, for every CNF or pseudo-Boolean formula with literals in range and operators >= / ==, '
         'every header and every list of variable names (line breaks included), that an independent OPB reader applied to the written text returns the '
         'declared number of variables and, constraint by constraint, the same coefficients, literals, relation and degree, and '
         'that the text is the counts line, comment lines and one line per constraint; and that the LaTeX align blocks decode, for '
         'every row split, to one row per clause / constraint in order with exactly that row\'s literal tokens, each of which '
         'decodes back to the polarity and the variable name of the literal, the empty clause '
         'as \\square and \\top only for the empty formula. The model is tied to the code by comparing texts byte for byte and by '
         'running the model\'s reader / decoder on the implementation\'s output.',
    note='Trusted: Coq kernel, extraction, OCaml driver, the harness. The model is hand-written and covers 8-bit characters. '
         'The LaTeX decoder theorem assumes names without white space. Coefficients 0 and 1 are both printed as no coefficient in '
         'LaTeX (D26). The literal decoding assumes names that do not begin with \\overline{. D4 (a line break in a header field or name '
         'written raw into the OPB text) is repaired in the code; the model follows the repaired writer.',
    design_ref='5/C12',
)
RULE = ('one case per (formula, format, header?, names?); non-trivial when the formula has a row; distinct = distinct (stream, input)')
TRUSTED = ['harness/c12.py generators; conversion of in-memory constraints to the model input',
           'parse_opb / rows_of_latex are readers written for this check (cnfgen has none); they are part of the statement']

FINDING_SITE = 'to_opb_file'
FINDING_CLS = 'line-break-in-header-or-name'


def mem_constraints(F, is_opb):
    """the constraints held in memory, as the model's input"""
    if is_opb:
        return [[[[c, l] for (c, l) in con[:-2]], con[-2], con[-1]] for con in F]
    return [list(c) for c in F]


def model_formula(F, is_opb):
    n = F.number_of_variables()
    if is_opb:
        return [Sym('opb'), n, mem_constraints(F, True)]
    return [Sym('cnf'), n, mem_constraints(F, False)]


def expected_read(F, is_opb):
    """what an OPB reader must return for this formula"""
    n = F.number_of_variables()
    if is_opb:
        return ['ok', n, [[[[c, l] for (c, l) in con[:-2]], '>=' if con[-2] == '>=' else '==', con[-1]] for con in F]]
    return ['ok', n, [[[[1, l] for l in c], '>=', 1] for c in F]]


def expected_read_mem(n, mem, is_opb):
    """the same, from a snapshot of the rows (mem_constraints)"""
    if is_opb:
        return ['ok', n, [[terms, '>=' if op == '>=' else '==', deg] for terms, op, deg in mem]]
    return ['ok', n, [[[[1, l] for l in c], '>=', 1] for c in mem]]


class Rows:
    """a snapshot of the rows of a formula that iterates and measures like the formula did"""

    def __init__(self, mem):
        self.mem = mem

    def __len__(self):
        return len(self.mem)

    def __iter__(self):
        for r in self.mem:
            if r and isinstance(r[0], list) and len(r) == 3 and isinstance(r[1], str):
                yield [tuple(t) for t in r[0]] + [r[1], r[2]]
            else:
                yield r


def hdr_items(c):
    return c['hdr_items'] if 'hdr_items' in c else c06.header_items(c['F'])


def hdr_model(c):
    return [[''.join(ch if ord(ch) < 256 else '\xff' for ch in k), ''.join(ch if ord(ch) < 256 else '\xff' for ch in v)] for k, v in hdr_items(c)]


def mformula(c):
    if 'mem' in c:
        return [Sym('opb' if c['is_opb'] else 'cnf'), c['n'], c['mem']]
    return model_formula(c['F'], c['is_opb'])


def expected_litrows(F, is_opb, tex_labels):
    """the rows of the LaTeX rendering as literals, from the formula in memory only:
    (polarity, variable name) per literal; for constraints the coefficient as shown"""
    def pn(l):
        return [l > 0, tex_labels[abs(l) - 1]]
    rows = []
    for con in F:
        if is_opb:
            rows.append(['constraint', [[str(c) if c > 1 else '', pn(l)] for (c, l) in con[:-2]],
                         '>=' if con[-2] == '>=' else '==', str(con[-1])])
        elif len(con) == 0:
            rows.append(['square'])
        else:
            rows.append(['clause', [pn(l) for l in con]])
    return rows


def opb_shape_defect(text, n, m):
    """direct check of the shape, as a reader splitting at "\\n" only and as a reader of a file in text mode see it"""
    d = opb_shape_defect1(text, n, m)
    if d is None and '\r' in text:
        d = opb_shape_defect1(text.replace('\r\n', '\n').replace('\r', '\n'), n, m)
        if d is not None:
            d += ' (when read with universal newlines)'
    return d


def opb_shape_defect1(text, n, m):
    if not text.endswith('\n'):
        return 'last line not terminated'
    lines = text.split('\n')[:-1]
    if not lines or lines[0] != '* #variable= %d #constraint= %d' % (n, m):
        return 'first line is %r, true counts are %d %d' % (lines[0][:60] if lines else None, n, m)
    rest = [l for l in lines[1:] if not l.startswith('*')]
    if len(rest) != m:
        return '%d non-comment lines for %d constraints' % (len(rest), m)
    import re
    rx = re.compile(r'^([+-]\d+ ~?x\d+ )*(>=|=) -?\d+$')
    for l in rest:
        if not rx.match(l):
            return 'line %r is neither a comment nor a constraint' % l[:60]
    return None


# --------------------------------------------------------------------------
# an independent OPB reader and LaTeX row decoder in Python, linear time: the statement of C12 checked directly on
# outputs of several megabytes (the character-level model needs about 100 microseconds per row).  On every small case
# of the run they are compared with the model's parse_opb / latex_litrows.
# --------------------------------------------------------------------------
import re
_SINT = re.compile(r'^[+-]?[0-9]+$')
_PVAR = re.compile(r'^(~?)x([0-9]+)$')
_FIRST = re.compile(r'^\* #variable= ([0-9]+) #constraint= ([0-9]+)$')


def py_parse_opb(text):
    """['ok', n, [[terms, '>=' | '==', degree] ...]] or ['err', reason]: the counts line, '*' comments, one constraint per line
    made of `coefficient literal` pairs, a relation and a degree"""
    if text.endswith('\n'):
        text = text[:-1]
    lines = text.split('\n')
    m = _FIRST.match(lines[0]) if lines else None
    if not m:
        return ['err', 'first line %r' % (lines[0][:60] if lines else None)]
    n, declared = int(m.group(1)), int(m.group(2))
    cons = []
    for ln in lines[1:]:
        if ln[:1] == '*':
            continue
        toks = ln.split()
        if toks and toks[-1] == ';':
            toks.pop()
        if len(toks) < 2 or len(toks) % 2 or toks[-2] not in ('>=', '=') or not _SINT.match(toks[-1]):
            return ['err', 'line %r is neither a comment nor a constraint' % ln[:60]]
        terms = []
        for i in range(0, len(toks) - 2, 2):
            v = _PVAR.match(toks[i + 1])
            if not _SINT.match(toks[i]) or not v or not 1 <= int(v.group(2)) <= n:
                return ['err', 'term %r %r' % (toks[i][:30], toks[i + 1][:30])]
            terms.append([int(toks[i]), -int(v.group(2)) if v.group(1) else int(v.group(2))])
        cons.append([terms, '>=' if toks[-2] == '>=' else '==', int(toks[-1])])
    if len(cons) != declared:
        return ['err', '%d constraints, %d declared' % (len(cons), declared)]
    return ['ok', n, cons]


def py_decode_lit(tok):
    r"""{name} -> [True, name];  \overline{name} and {\overline{base}rest} -> [False, name]"""
    tok = tok.strip()
    if tok.startswith('{\\overline{') and tok.endswith('}'):
        inner = tok[len('{\\overline{'):-1]
        depth, j = 0, -1
        for i, ch in enumerate(inner):        # the brace that closes \overline{ (names with balanced braces)
            if ch == '{':
                depth += 1
            elif ch == '}':
                if depth == 0:
                    j = i
                    break
                depth -= 1
        return None if j < 0 else [False, inner[:j] + inner[j + 1:]]
    if tok.startswith('\\overline{') and tok.endswith('}'):
        return [False, tok[len('\\overline{'):-1]]
    if tok.startswith('{') and tok.endswith('}'):
        return [True, tok[1:-1]]
    return None


def balanced(name):
    """the part of the name that _print_latex puts inside \\overline{...} (up to the first _ or ^ after position 0) has no brace:
    then the first closing brace ends it, whatever the rest of the name is"""
    sp = [i for i in (name.find('_'), name.find('^')) if i > 0]
    base = name[:min(sp)] if sp else ''
    return '{' not in base and '}' not in base


_BLOCK = re.compile(r'\\begin\{align\}(.*?)\n\\end\{align\}', re.S)
_CONSTRAINT = re.compile(r'^(.*) (\\geq|=) (-?[0-9]+)$', re.S)
_COEF = re.compile(r'^([0-9]*)(.*)$', re.S)


def py_latex_rows(text, is_opb):
    """[top?, rows, sizes of the align blocks]; rows in the shape of expected_litrows (None for a row that does not decode)"""
    top, rows, sizes = False, [], []
    for b in _BLOCK.findall(text):
        if b == '\n   \\top':
            top = True
            continue
        if not b.startswith('\n&'):
            rows.append(None)
            continue
        k = 0
        for row in b[2:].split(' \\\\\n&'):
            k += 1
            r = row.strip()
            if is_opb:
                m = _CONSTRAINT.match(r)
                if not m:
                    rows.append(None)
                    continue
                terms = []
                if m.group(1) != '0':
                    for t in m.group(1).split(' + '):
                        c = _COEF.match(t)
                        terms.append([c.group(1), py_decode_lit(c.group(2))])
                rows.append(None if any(t[1] is None for t in terms) else ['constraint', terms, '>=' if m.group(2) == '\\geq' else '==', m.group(3)])
                continue
            if r.startswith('\\land'):
                r = r[len('\\land'):].strip()
            if r == '\\square':
                rows.append(['square'])
                continue
            if r.startswith('\\left(') and r.endswith('\\right)'):
                r = r[len('\\left('):-len('\\right)')]
            lits = [py_decode_lit(t) for t in r.split(' \\lor ')]
            rows.append(None if any(l is None for l in lits) else ['clause', lits])
        sizes.append(k)
    return [top, rows, sizes]


# --------------------------------------------------------------------------
# huge: more than 8 / 16 MiB of OPB or LaTeX, more than 65536 / 131072 constraints or rows, lines of more than 131072 characters
# --------------------------------------------------------------------------
MIB = 1 << 20


def direct_opb(ctx, descr, text, n, mem, is_opb):
    """the OPB half of C12 on one text, without the model"""
    got = py_parse_opb(text)
    want = expected_read_mem(n, mem, is_opb)
    defect = opb_shape_defect(text, n, len(mem))
    if got == want and defect is None:
        return True
    ctx.disagreements_checked += 1
    where = defect
    if where is None and got[0] == 'ok':
        if got[1] != n:
            where = '%d variables declared, the formula has %d' % (got[1], n)
        elif len(got[2]) != len(mem):
            where = '%d constraints read, %d in memory' % (len(got[2]), len(mem))
        else:
            i = next(i for i, (a, b) in enumerate(zip(got[2], want[2])) if a != b)
            where = 'constraint %d reads %s, in memory %s' % (i + 1, str(got[2][i])[:160], str(want[2][i])[:160])
    elif where is None:
        where = got[1]
    ctx.violation('counterexample', 'the OPB text does not denote the formula in memory: %s' % where,
                  dict(input=descr, text_length=len(text), text_start=text[:300], text_end=text[-200:], shape=defect), True,
                  site='to_opb_file', cls='shape' if defect else 'denotation')
    return False


def direct_latex(ctx, descr, text, mem, is_opb, tex_labels, document):
    """the LaTeX half of C12 on one text, without the model: one row per clause / constraint in order with that row's literals
    (polarity, name), coefficients, relation and degree; \\top only for the empty formula; pages of 35 rows in a document"""
    want = expected_litrows(Rows(mem), is_opb, tex_labels)
    body = text
    if document:
        a, b = text.find('\\begin{align}'), text.rfind('\\end{document}')
        body = text[a:b] if 0 <= a < b else ''
    top, rows, sizes = py_latex_rows(body, is_opb)
    why = None
    if top != (len(mem) == 0):
        why = '\\top %s' % ('is shown although the formula has rows' if top else 'is missing for the empty formula')
    elif len(rows) != len(want):
        why = '%d rows, the formula has %d' % (len(rows), len(want))
    elif rows != want:
        i = next(i for i, (a, b) in enumerate(zip(rows, want)) if a != b)
        why = 'row %d shows %s, in memory %s' % (i + 1, str(rows[i])[:200], str(want[i])[:200])
    elif document and sizes != [35] * (len(want) // 35) + ([len(want) % 35] if len(want) % 35 else []):
        why = 'the align blocks do not have 35 rows each: %r...' % (sizes[:5],)
    elif not document and len(sizes) > 1:
        why = 'the snippet has %d align blocks' % len(sizes)
    if why is None:
        return True
    ctx.disagreements_checked += 1
    ctx.violation('counterexample', 'the LaTeX %s does not show the formula in memory: %s' % ('document' if document else 'rows', why),
                  dict(input=descr, text_length=len(text), text_start=body[:300], text_end=body[-200:]), True,
                  site='to_latex_document' if document else 'to_latex', cls='rows' if 'rows' in why or 'top' in why else 'literals')
    return False


def scrambled_constraints(seed, m, w, nvars, coefs):
    """m constraints of w terms: an arithmetic scramble (fast to build); coefs: the pool of coefficients"""
    a = (seed | 1) % 1000003
    k = len(coefs)
    out = []
    for i in range(m):
        terms = [(coefs[(a * i + j) % k], (1 + (a * (i * w + j) + 31 * j) % nvars) * (1 if ((i + j) * a >> 2) & 1 else -1)) for j in range(w)]
        out.append(terms + ['>=' if (i * a >> 1) & 1 else '==', (i * 7919) % 1000 - 300])
    return out


COEFS = [1, 2, 3, 10 ** 6, 10 ** 6 + 1, 2 ** 31 - 1, 2 ** 31, 2 ** 32 + 5, 2 ** 40, 10 ** 18, 10 ** 18 + 7, 2 ** 64, 7]


def huge_case(ctx, cnfgen, label, make, is_opb, opb_vias, latex, header=True, names=False, both_docs=False):
    F = make()
    n = F.number_of_variables()
    mem = mem_constraints(F, is_opb)
    tex_labels = list(F.all_variable_labels(default_label_format='x_{}')) if latex else None
    for via in opb_vias:
        path = c06.tmp_path('huge.opb')
        descr = dict(formula=label, kind='OPB' if is_opb else 'CNF', n=n, rows=len(mem), format='opb', export_header=header, export_varnames=names, via=via)
        ctx.count('huge-opb', (label, via), True, sample=descr)
        try:
            text = c06.write_via(F, via, header, names, path, fmt='opb')
        except Exception as e:  # noqa
            ctx.disagreements_checked += 1
            ctx.violation('counterexample', 'writing a large formula to OPB (%s) raised %s' % (via, type(e).__name__),
                          dict(input=descr, implementation=[type(e).__name__, str(e)[:160]]), True, site='to_opb_file', cls='raises-' + type(e).__name__)
            continue
        lines = text.count('\n')
        ctx.tally('huge output size', 'opb ' + ('>16MiB' if len(text) > 16 * MIB else '>8MiB' if len(text) > 8 * MIB else '>1MiB' if len(text) > MIB else '<=1MiB'))
        ctx.tally('huge output lines', 'opb ' + ('>131072' if lines > 131072 else '>65536' if lines > 65536 else '<=65536'))
        ctx.tally('huge via', via)
        direct_opb(ctx, descr, text, n, mem, is_opb)
    for kind in latex:
        descr = dict(formula=label, kind='OPB' if is_opb else 'CNF', n=n, rows=len(mem), format='latex', output=kind)
        ctx.count('huge-latex', (label, kind), True, sample=descr)
        try:
            if kind == 'snippet':
                text = F.to_latex()
            else:
                text = c06.write_via(F, kind, header, False, c06.tmp_path('huge.tex'), fmt='latex', extra_text='extra & text\n')
        except Exception as e:  # noqa
            ctx.disagreements_checked += 1
            ctx.violation('counterexample', 'writing a large formula to LaTeX (%s) raised %s' % (kind, type(e).__name__),
                          dict(input=descr, implementation=[type(e).__name__, str(e)[:160]]), True,
                          site='to_latex' if kind == 'snippet' else 'to_latex_document', cls='raises-' + type(e).__name__)
            continue
        ctx.tally('huge output size', 'latex ' + ('>16MiB' if len(text) > 16 * MIB else '>8MiB' if len(text) > 8 * MIB else '>1MiB' if len(text) > MIB else '<=1MiB'))
        ctx.tally('huge output lines', 'latex ' + ('>131072' if text.count('\n') > 131072 else '>65536' if text.count('\n') > 65536 else '<=65536'))
        direct_latex(ctx, descr, text, mem, is_opb, tex_labels, kind != 'snippet')


def run_huge(ctx, cnfgen, quick):
    import time
    from cnfgen.formula.opb import OPB
    CNF = cnfgen.CNF
    t0 = time.time()
    seed = ctx.rng.randrange(1 << 30)

    def opb_of(m, w, nvars, coefs=COEFS):
        def f():
            F = OPB()
            F.update_variable_number(nvars)
            F.add_constraints_from(scrambled_constraints(seed, m, w, nvars, coefs), check=False)
            return F
        return f

    def cnf_of(m, w, lo, hi):
        return lambda: CNF(c06.scrambled_clauses(seed, m, w, lo, hi))

    def one_row(w):
        def f():
            F = OPB()
            F.add_constraint([(COEFS[i % len(COEFS)], (-1) ** i * (1 + (i * 7) % w)) for i in range(w)] + ['>=', 10 ** 18])
            F.add_constraint([(1, 1), '==', 1])
            return F
        return f

    def long_fields(k, j):
        def f():
            F = OPB(description='D' * k)
            F.new_variable('N' * j)
            F.new_variable('y')
            F.add_constraint([(2 ** 40, 1), (10 ** 6, -2), '>=', 2 ** 31])
            return F
        return f
    VIAS = c06.VIAS
    if quick:
        # > 131072 constraints, > 8 MiB of OPB; > 65536 rows of LaTeX in a snippet
        huge_case(ctx, cnfgen, '140000 constraints of 3 terms, coefficients up to 2^64', opb_of(140000, 3, 100000), True, ('name',), [])
        # > 65536 clauses as OPB (> 16 MiB) through the standard output, and as a LaTeX document (> 65536 rows, 35 per page)
        huge_case(ctx, cnfgen, '66000 clauses of 20 literals below 3000000', cnf_of(66000, 20, 2990000, 3000000), False, ('stdout',), [], header=False)
        huge_case(ctx, cnfgen, '70000 constraints of 2 terms', opb_of(70000, 2, 500), True, (), ['snippet', 'name-by-extension'])
        huge_case(ctx, cnfgen, 'one constraint of 30000 terms', one_row(30000), True, ('fileobj',), ['snippet'])
        huge_case(ctx, cnfgen, 'description of 100000 characters, name of 70000 characters', long_fields(100000, 70000), True, ('name-by-extension',), ['StringIO'], names=True)
    else:
        huge_case(ctx, cnfgen, '140000 constraints of 3 terms, coefficients up to 2^64', opb_of(140000, 3, 100000), True, VIAS, ['snippet', 'name', 'StringIO'])
        huge_case(ctx, cnfgen, '300000 constraints of 4 terms, coefficients up to 2^64', opb_of(300000, 4, 100000), True, ('name', 'stdout'), [])
        huge_case(ctx, cnfgen, '66000 clauses of 20 literals below 3000000', cnf_of(66000, 20, 2990000, 3000000), False, VIAS, [], header=False)
        huge_case(ctx, cnfgen, '140000 clauses of 5 literals', cnf_of(140000, 5, 1, 3000), False, ('name', 'StringIO'), ['snippet', 'name-by-extension', 'stdout'])
        huge_case(ctx, cnfgen, '70000 constraints of 2 terms', opb_of(70000, 2, 500), True, VIAS, ['snippet', 'name-by-extension', 'fileobj'])
        for w in (30000, 65537, 200000):
            huge_case(ctx, cnfgen, 'one constraint of %d terms' % w, one_row(w), True, VIAS, ['snippet', 'name'])
        for k, j in ((100000, 70000), (131073, 131073), (2000000, 1000000)):
            huge_case(ctx, cnfgen, 'description of %d characters, name of %d characters' % (k, j), long_fields(k, j), True, VIAS, ['snippet', 'StringIO', 'name'], names=True)
        for i in range(6):
            m, w = ctx.rng.choice([(66000, 6), (132000, 3), (9000, 100), (35 * 2000, 2), (35 * 2000 + 1, 2), (35 * 2000 - 1, 2)])
            huge_case(ctx, cnfgen, '%d constraints of %d terms (random instance %d)' % (m, w, i), opb_of(m, w, ctx.rng.choice([9, 300, 70000]),
                      ctx.rng.sample(COEFS, 4)), True, ctx.rng.sample(VIAS, 2), ctx.rng.sample(['snippet', 'name', 'StringIO', 'stdout'], 2),
                      header=ctx.rng.random() < 0.7)
    ctx.note('huge: %.0f s' % (time.time() - t0))


# --------------------------------------------------------------------------
# thresholds: coefficients, degrees, variable numbers, numbers of terms / rows / header fields / names and their lengths
# at the values where a numeric threshold would bite; exact comparison with the model (the outputs stay small)
# --------------------------------------------------------------------------
def build_thresholds(ctx, cnfgen, quick):
    """[(label, cls, is_opb, thunk, dict(opb=[(header, names)...] | None, latex=bool))]"""
    from cnfgen.formula.opb import OPB
    CNF = cnfgen.CNF
    T = c06.THRESHOLDS
    out = []
    PLAIN = dict(opb=[(False, False), (True, True)])
    NO_NAMES = dict(opb=[(False, False), (True, False)])

    def add(label, cls, is_opb, thunk, only):
        out.append((label, cls, is_opb, thunk, only))
        ctx.tally('thresholds kind', cls)
    # coefficients and degrees: large, negative (normalised by add_constraint), zero
    for t in T + [10 ** 6 - 1, 10 ** 6, 10 ** 6 + 1, 10 ** 9] + c06.BIGINTS:
        def coef(t=t):
            F = OPB()
            F.add_constraint([(t, 1), (t + 1, -2), (t - 1, 3), '>=', t])
            F.add_constraint([(-t, 1), (t, -2), (-(t + 1), -3), '>=', -t])
            F.add_constraint([(t, 1), (-t, 2), '==', 0])
            F.add_constraint([(1, 1), (t, 2), '<=', t * t])
            F.add_constraint([(t, -1), (2, 2), '<', -t])
            F.add_constraint([(0, 1), (t, 3), '>', t - 1])
            F.add_constraint(['>=', t])
            F.add_constraint(['==', -t])
            return F
        add('coefficients and degrees +-%d' % t, 'thr-coefficient', True, coef, PLAIN)
    # the number of a variable
    for t in T + c06.BLOCKS + [2 ** 31, 10 ** 18]:
        def var(t=t):
            F = OPB()
            F.update_variable_number(t)
            F.add_constraint([(2, t), (3, -t), (1, t - 1), '>=', 2])
            F.add_constraint([(1, -(t - 1)), (1, 1), '==', 1])
            return F

        def cvar(t=t):
            F = CNF()
            F.update_variable_number(t)
            F.add_clause([t, -(t - 1), 1])
            F.add_clause([-t])
            return F
        small = t <= 1025
        add('OPB variables x%d, x%d' % (t, t - 1), 'thr-variable', True, var, dict(opb=PLAIN['opb'] if small else NO_NAMES['opb'], latex=small))
        add('CNF variables x%d, x%d' % (t, t - 1), 'thr-variable', False, cvar, dict(opb=PLAIN['opb'] if small else NO_NAMES['opb'], latex=small))
    # the number of terms of a constraint / literals of a clause
    for w in T + [4096] + ([] if quick else [8192, 30000]):
        def wide(w=w):
            F = OPB()
            F.add_constraint([(1 + i % 3, (-1) ** i * (1 + i % (w - 1))) for i in range(w)] + ['>=', w])
            F.add_constraint([(1, i + 1) for i in range(w)] + ['==', 1])
            return F

        def cwide(w=w):
            return CNF([[(-1) ** i * (1 + i % (w - 1)) for i in range(w)], [1, -1] * (w // 2)])
        add('constraints of %d terms' % w, 'thr-width', True, wide, dict(opb=NO_NAMES['opb'], latex=w <= 1025))
        add('clauses of %d literals' % w, 'thr-width', False, cwide, dict(opb=NO_NAMES['opb'], latex=w <= 1025))
    # the number of rows: OPB lines, LaTeX rows and pages of 35
    pages = [34, 35, 36, 69, 70, 71, 35 * 7, 35 * 7 + 1, 35 * 29 - 1, 35 * 29, 35 * 29 + 1]
    for m in sorted(set(T + pages + ([] if quick else [4096, 8192, 35 * 256, 35 * 256 + 1, 35 * 257]))):
        def rows(m=m):
            F = OPB()
            for i in range(m):
                F.add_constraint([(1 + i % 3, 1 + i % 5), (2, -(1 + (i * 7) % 6)), '>=' if i % 2 else '==', i % 4] if i % 11 else ['>=', i % 3])
            return F

        def crows(m=m):
            F = CNF()
            for i in range(m):
                F.add_clause([1 + i % 5, -(1 + (i * 7) % 6)] if i % 9 and i != m - 1 else [])
            return F
        add('%d constraints' % m, 'thr-rows', True, rows, NO_NAMES)
        add('%d clauses' % m, 'thr-rows', False, crows, NO_NAMES)
    # header: number of fields, length of a field; names: number, length
    for k in T:
        def fields(k=k):
            F = OPB()
            F.add_constraint([(2, 1), (1, -2), '>=', 1])
            for i in range(k - len(F.header)):
                F.header['field%d' % i] = 'v%d' % i
            return F
        add('header with %d fields' % k, 'thr-header', True, fields, dict(opb=[(True, False)], latex=k in (16, 257)))
    for t in T + (c06.QUICK_BLOCKS if quick else c06.BLOCKS) + [100000]:
        def longval(t=t):
            F = OPB(description='d' * t)
            if t <= 1025 or not quick:
                F.header['k' * t] = 'v' * (t - 1) + ' '
            F.add_constraint([(2, 1), (1, -2), '>=', 1])
            return F
        add('header field of %d characters' % t, 'thr-header', True, longval, dict(opb=[(True, False)], latex=t in (256, 257, 65537, 100000) or not quick))
    for t in T + (c06.QUICK_BLOCKS if quick else c06.BLOCKS) + [70000]:
        def longname(t=t):
            F = OPB() if t % 2 else CNF()
            F.new_variable('y')
            F.new_variable('n' * t)
            F.new_variable('u_' + 'm' * (t - 2))
            F.add_clause([1, -2, -3])
            return F
        add('variable name of %d characters' % t, 'thr-name', bool(t % 2), longname, dict(opb=[(False, True)], latex=t <= 1025 or t in (65537, 70000) or not quick))
    for t in T + [4096] + ([] if quick else [8192, 65537]):
        def manynames(t=t):
            F = OPB()
            F.new_block(t - 2, label='b_{}')
            F.new_variable('last but one')
            F.update_variable_number(t)
            F.add_constraint([(3, t), (2, -(t - 1)), (1, 1), (1, -(t - 2)), '>=', 3])
            return F
        add('%d variables with names' % t, 'thr-name', True, manynames, dict(opb=[(False, True), (True, True)], latex=t <= 1025))
    return out


# --------------------------------------------------------------------------
# shapes: kinds of destination, file names that select (or merely resemble) a format, names outside ASCII
# --------------------------------------------------------------------------
def uni_formula(cnfgen, opb):
    """the formula harness/c06.py UNICODE_CHILD builds in the child process"""
    from cnfgen.formula.opb import OPB
    F = (OPB if opb else cnfgen.CNF)(description='caf\xe9 α 数')
    for nm in c06.UNI_NAMES:
        F.new_variable(nm)
    if opb:
        F.add_constraint([(2, 1), (3, -2), (1, 3), '>=', 2])
        F.add_constraint([(1, -4), (1, 5), '==', 1])
    else:
        F.add_clause([1, -2, 3])
        F.add_clause([-4, 5])
    return F


def names_shown(text, fmt, labels):
    """the variable names appear as they are in the varname comments of an OPB text"""
    if fmt != 'opb':
        return True
    lines = text.split('\n')
    return all(('* varname x%d %s' % (i + 1, nm)) in lines for i, nm in enumerate(labels))


def judge_written(ctx, stream, descr, text, fmt, F, is_opb, names):
    """content of a text whose format is already known to be the documented one"""
    n, mem = F.number_of_variables(), mem_constraints(F, is_opb)
    if fmt == 'opb':
        ok = direct_opb(ctx, descr, text, n, mem, is_opb)
        if ok and names and not names_shown(text, fmt, list(F.all_variable_labels())):
            ctx.violation('counterexample', 'a variable name is not written as it is in the varname comments of the OPB text',
                          dict(input=descr, text_start=text[:400]), True, site='to_opb_file', cls='unicode-name-changed')
    elif fmt == 'latex':
        direct_latex(ctx, descr, text, mem, is_opb, list(F.all_variable_labels(default_label_format='x_{}')), True)


def run_shapes(ctx, cnfgen, quick):
    import json
    import os
    import shutil
    import tempfile
    import time
    from concurrent.futures import ThreadPoolExecutor
    from cnfgen.formula.opb import OPB
    CNF = cnfgen.CNF
    t0 = time.time()
    tmp = tempfile.mkdtemp(prefix='c12shapes-')

    def plain_opb():
        F = OPB(description='plain')
        F.add_constraint([(2, 3), (1, -1), (10 ** 18, 4), '>=', 2])
        F.add_constraint(['==', -1])
        F.add_constraint([(1, 1), (2 ** 31, -2), '==', 2])
        F.update_variable_number(6)
        return F
    forms = [('OPB, names outside ASCII', True, lambda: uni_formula(cnfgen, True), True), ('CNF, names outside ASCII', False, lambda: uni_formula(cnfgen, False), True),
             ('OPB, plain', True, plain_opb, False), ('CNF, plain', False, lambda: CNF([[1, -2], [], [2, 3]], description='plain'), False)]
    # ---- (1) every kind of destination x explicit / implicit format
    for flabel, is_opb, mk, names in forms:
        F = mk()
        descr = dict(formula=flabel, output='to_latex()', names=list(F.all_variable_labels(default_label_format='x_{}')))
        ctx.count('shapes-destination', (flabel, 'to_latex()'), True, sample=descr)
        direct_latex(ctx, descr, F.to_latex(), mem_constraints(F, is_opb), is_opb, descr['names'], False)
        for dlabel, op, seen in c06.destinations(tmp, quick, extra_names=(b'bytes.tex', b'bytes.opb', 'a.cnf.tex', 'cover_vertex.opb')):
            for request in (None, 'opb', 'latex'):
                expected = documented_format('x' if seen is None or seen == 0 else seen, request, is_opb)
                if expected == 'dimacs':
                    continue            # property C06
                descr = dict(formula=flabel, destination=dlabel, fileformat=request, export_varnames=names,
                             names=list(F.all_variable_labels()) if names else None)
                ctx.count('shapes-destination', (flabel, dlabel, request), True, sample=descr)
                ctx.tally('shapes destination', dlabel.split(' named ')[0])
                dest, close = op()
                try:
                    F.to_file(dest, fileformat=request, export_varnames=names)
                    exc = None
                except Exception as e:  # noqa
                    exc = e
                try:
                    text = close()
                except Exception as e:  # noqa
                    text, exc = None, exc or e
                if exc is not None:
                    ctx.disagreements_checked += 1
                    guessing = request is None and isinstance(exc, TypeError) and not isinstance(seen, str) and seen is not None
                    ctx.violation('counterexample', 'to_file(<%s>, fileformat=%r) raised %s: %s' % (dlabel, request, type(exc).__name__, str(exc)[:100]),
                                  dict(input=descr, implementation=[type(exc).__name__, str(exc)[:160]]), True,
                                  site='guess_output_format' if guessing else 'to_file',
                                  cls='file-object-name-not-a-string' if guessing else 'raises-' + type(exc).__name__)
                    continue
                got = c06.format_of_text(text)
                if got != expected:
                    ctx.disagreements_checked += 1
                    ctx.violation('counterexample', 'to_file(<%s>, fileformat=%r) of %s wrote %s, the documented format is %s' %
                                  (dlabel, request, 'an OPB object' if is_opb else 'a CNF object', got, expected),
                                  dict(input=descr, text_start=text[:200], documented='guess_output_format / OPB.to_file: explicit request, else the name ends in .tex / .opb, else the default of the class'),
                                  True, site='guess_output_format',
                                  cls='bytes-name-extension-ignored' if isinstance(seen, bytes) and request is None else 'format-%s-instead-of-%s' % (got, expected))
                    continue
                judge_written(ctx, 'shapes-destination', descr, text, expected, F, is_opb, names)
    # ---- (2) file names: to_file(name), `cnfgen -o name`, `pbgen -o name`, with and without an explicit format
    from cnfgen.clitools.cnfgen import cli as cnfgen_cli
    from cnfgen.clitools.pbgen import cli as pbgen_cli
    Fc = cnfgen_cli(['cnfgen', 'php', '3', '2'], mode='formula')
    Fo = pbgen_cli(['pbgen', 'php', '3', '2'], mode='formula')
    table = [(nm, 'dimacs') for nm in c06.DIMACS_NAMES] + [(nm, 'latex') for nm in c06.LATEX_NAMES] + [(nm, 'opb') for nm in c06.OPB_NAMES]
    def fmt_of(nm, request, how):
        if how == 'pbgen -o name':       # usage of pbgen: "--output-format {latex,opb} ... (default: opb)": the name plays no role
            return request or 'opb'
        return documented_format(nm, request, how.startswith('OPB'))
    jobs = []
    for k, (nm, _by) in enumerate(table):
        for request in (None, 'latex', 'opb'):
            for how in ('OPB.to_file(name)', 'CNF.to_file(name)', 'cnfgen -o name', 'pbgen -o name'):
                if fmt_of(nm, request, how) == 'dimacs':
                    continue
                if how.endswith('-o name') and quick and not (request is None and (k % 5 == 0 or nm in ('formula_opb', 'cover_vertex', 'y.tex', 'y.opb', 'a.tex.opb'))):
                    continue
                if quick and request is not None and (k + len(how)) % 3:
                    continue
                jobs.append((nm, request, how))
    roots = {}
    for how in ('OPB.to_file(name)', 'CNF.to_file(name)', 'cnfgen -o name', 'pbgen -o name'):
        for request in (None, 'latex', 'opb'):
            roots[(how, request)] = os.path.join(tmp, 'names-%s-%s' % (how.split('(')[0].replace(' ', ''), request))
            for nm, _ in table:
                os.makedirs(os.path.dirname(os.path.join(roots[(how, request)], nm)), exist_ok=True)

    def child(prog, argv):
        import subprocess
        env = dict(os.environ, PYTHONPATH=lib.REPO, CNFGEN_VERIF='1')
        code = 'import sys; sys.argv = %r; from cnfgen.clitools.%s import main; main()' % ([prog] + argv, prog)
        r = subprocess.run([lib.PY, '-W', 'ignore', '-c', code], cwd=lib.REPO, env=env, stdout=subprocess.PIPE, stderr=subprocess.PIPE, timeout=300)
        return r.returncode, r.stderr.decode('utf-8', 'replace')

    def do(job):
        nm, request, how = job
        p = os.path.join(roots[(how, request)], nm)
        if how.endswith('to_file(name)'):
            try:
                (Fo if how.startswith('OPB') else Fc).to_file(p, fileformat=request)
                res = (0, '')
            except Exception as e:  # noqa
                res = (type(e).__name__, str(e)[:160])
        else:
            code, err = child(how.split(' ')[0], ['-o', p] + (['-of', request] if request else []) + ['php', '3', '2'])
            res = (code, err[-300:])
        try:
            with open(p, 'r', newline='', encoding='utf-8') as f:
                text = f.read()
        except OSError:
            text = None
        return res, text
    cli_jobs = [j for j in jobs if j[2].endswith('-o name')]
    with ThreadPoolExecutor(max_workers=4) as ex:
        cli_res = dict(zip(cli_jobs, ex.map(do, cli_jobs)))
    for job in jobs:
        nm, request, how = job
        is_opb = how in ('OPB.to_file(name)', 'pbgen -o name')
        res, text = cli_res[job] if job in cli_res else do(job)
        expected = fmt_of(nm, request, how)
        descr = dict(file_name=nm, fileformat=request, how=how, formula='php 3 2')
        ctx.count('shapes-file-name', job, True, sample=descr)
        ctx.tally('shapes file name: documented format', '%s%s' % (expected, ' (explicit)' if request else ' (by name)' if nm.endswith(('.tex', '.opb')) else ' (default of the class)'))
        ctx.tally('shapes file name: how', how)
        if res[0] != 0 or text is None:
            ctx.disagreements_checked += 1
            ctx.violation('counterexample', '%s with the file name %r%s fails: %r' % (how, nm, ' and format %s' % request if request else '', res),
                          dict(input=descr, implementation=list(res)), True, site='guess_output_format', cls='raises-%s' % (res[0],))
            continue
        got = c06.format_of_text(text)
        if got != expected:
            ctx.disagreements_checked += 1
            ctx.violation('counterexample', '%s with the file name %r%s wrote %s; the documented format is %s (an explicit request wins, else the '
                          'name must END in .tex / .opb)' % (how, nm, ' and format %s' % request if request else '', got, expected),
                          dict(input=descr, text_start=text[:200]), True, site='guess_output_format', cls='format-%s-instead-of-%s' % (got, expected))
            continue
        judge_written(ctx, 'shapes-file-name', descr, text, expected, Fo if is_opb else Fc, is_opb, False)
    # ---- (3) names outside ASCII written by a process whose locale is / is not UTF-8
    runs = []
    for (en, ex_) in c06.CHILD_ENVS:
        for fmt in ('opb', 'latex'):
            runs.append((fmt, 'files', en, ex_, 'cnf'))
            for kind in ('cnf', 'opb'):
                if en == 'default' or not quick:
                    runs.append((fmt, 'stdout', en, ex_, kind))
    with ThreadPoolExecutor(max_workers=4) as ex:
        results = list(ex.map(lambda r: c06.unicode_child(tmp, r[0], r[1], r[2], r[3], r[4]), runs))
    mem_forms = {'cnf': uni_formula(cnfgen, False), 'opb': uni_formula(cnfgen, True)}
    for (fmt, mode, en, _x, kind0), (d, code, out, err) in zip(runs, results):
        base = dict(names=c06.UNI_NAMES, format=fmt, destination=mode, environment=en)
        if mode == 'stdout':
            descr = dict(base, formula=kind0)
            ctx.count('shapes-unicode-process', (fmt, mode, en, kind0), True, sample=descr)
            if code != 0:
                if 'UnicodeEncodeError' in err and en != 'default':
                    ctx.tally('shapes unicode: standard output of a process in an ASCII locale', 'UnicodeEncodeError (the encoding of that stream is the caller\'s)')
                    continue
                ctx.violation('counterexample', 'writing names outside ASCII to the standard output (%s, %s) fails' % (fmt, en),
                              dict(input=descr, implementation=[code, err[-300:]]), True, site='to_file', cls='unicode-stdout')
                continue
            try:
                text = out.decode('utf-8')
            except UnicodeDecodeError:
                ctx.violation('counterexample', 'the %s text written to the standard output (%s) is not UTF-8' % (fmt, en),
                              dict(input=descr, stdout_bytes=repr(out[:300])), True, site='to_file', cls='unicode-file-encoding')
                continue
            judge_written(ctx, 'shapes-unicode-process', descr, text, fmt, mem_forms[kind0], kind0 == 'opb', True)
            continue
        try:
            res = json.loads(out.decode('utf-8'))
        except Exception:  # noqa
            ctx.violation('counterexample', 'the process writing names outside ASCII (%s, %s) died' % (fmt, en), dict(input=base, implementation=[code, err[-400:]]),
                          True, site='to_file', cls='unicode-process')
            continue
        ext = {'opb': 'opb', 'latex': 'tex'}[fmt]
        for kind in ('cnf', 'opb'):
            for key, fname in ((kind + ':name', kind + '-name.out'), (kind + ':name-by-extension', kind + '-ext.' + ext), (kind + ':fileobj', kind + '-fileobj.out'),
                               (kind + ':non-ascii-path', None)):
                descr = dict(base, formula=kind, destination=key)
                if key not in res:
                    continue
                ctx.count('shapes-unicode-process', (fmt, key, en), True, sample=descr)
                if res[key] != 'ok':
                    ctx.disagreements_checked += 1
                    ctx.violation('counterexample', 'to_file (%s, %s) of a formula with names outside ASCII raised %s in a process with %s' % (key, fmt, res[key], en),
                                  dict(input=descr, implementation=res[key]), True, site='to_file', cls='unicode-raises-%s' % res[key][0])
                    continue
                if fname is None:
                    cands = [f for f in os.listdir(os.fsencode(d)) if f.startswith(kind.encode() + b'-') and f.endswith(b'.' + ext.encode()) and f != (kind + '-ext.' + ext).encode()]
                    pth = os.path.join(os.fsencode(d), cands[0]) if cands else None
                else:
                    pth = os.path.join(d, fname)
                try:
                    with open(pth, 'rb') as f:
                        text = f.read().decode('utf-8')
                except Exception as e:  # noqa
                    ctx.disagreements_checked += 1
                    ctx.violation('counterexample', 'the %s file written (%s) with names outside ASCII by a process with %s is not UTF-8 text' % (fmt, key, en),
                                  dict(input=descr, error=str(e)[:100]), True, site='to_file', cls='unicode-file-encoding')
                    continue
                got = c06.format_of_text(text)
                if got != fmt:
                    ctx.violation('counterexample', 'to_file (%s) wrote %s instead of %s' % (key, got, fmt), dict(input=descr, text_start=text[:200]), True,
                                  site='guess_output_format', cls='format-%s-instead-of-%s' % (got, fmt))
                    continue
                judge_written(ctx, 'shapes-unicode-process', descr, text, fmt, mem_forms[kind], kind == 'opb', True)
    shutil.rmtree(tmp, ignore_errors=True)
    ctx.note('shapes: %.0f s' % (time.time() - t0))


documented_format = c06.documented_format


# --------------------------------------------------------------------------
# history: ONE formula object built by a random sequence of public API calls and rendered again and again (OPB text,
# LaTeX rows, LaTeX document, in turn), with edits in between and destinations that are reused
# --------------------------------------------------------------------------
def run_history(ctx, cnfgen, quick):
    import random
    import time
    from cnfgen.formula.opb import OPB
    CNF = cnfgen.CNF
    t0 = time.time()
    snaps = []
    paths = {'opb': c06.tmp_path('history.opb'), 'latex': c06.tmp_path('history.tex')}
    for run_no in range(30 if quick else 400):
        r = random.Random(ctx.rng.randrange(1 << 30))
        is_opb = run_no % 3 != 0
        F = (OPB if is_opb else CNF)(description=r.choice(['history %d' % run_no, 'two\nlines', 'under_score']))
        log = []
        big_run = run_no % 6 == 2
        for step in range(r.randint(4, 12)):
            n = F.number_of_variables()
            op = r.choice(['add_clause', 'add_constraint', 'add_constraint', 'cardinality', 'parity', 'raise', 'raise-to-threshold', 'new_variable',
                           'new_block', 'header-set', 'header-del', 'empty', 'many-rows', 'big-coefficient'])

            def lits(k):
                return [r.choice([1, -1]) * r.randint(1, n) for _ in range(k)]
            try:
                if op == 'add_clause' and n:
                    F.add_clause(lits(r.choice([1, 2, 3, 17, 40])))
                elif op == 'add_constraint' and n and is_opb:
                    F.add_constraint([(r.randint(-4, 6), l) for l in lits(r.choice([0, 1, 2, 3, 17]))] + [r.choice(['>=', '==', '<=', '<', '>']), r.randint(-5, 9)])
                elif op == 'big-coefficient' and n and is_opb:
                    t = r.choice(COEFS[3:])
                    F.add_constraint([(t, lits(1)[0]), (-t - 1, lits(1)[0]), (1, lits(1)[0]), r.choice(['>=', '==', '<=']), r.choice([t, -t, 0])])
                    op += ' %d' % t
                elif op == 'cardinality' and n and is_opb:
                    getattr(F, r.choice(['cardinality_geq', 'cardinality_leq', 'cardinality_eq']))(lits(r.randint(1, 4)), r.randint(0, 3))
                elif op == 'parity' and n and is_opb:
                    F.add_parity(sorted(set(abs(l) for l in lits(r.randint(1, 3)))), r.randint(0, 1))
                elif op == 'raise':
                    F.update_variable_number(n + r.choice([2, 3, 5, 10]))
                elif op == 'raise-to-threshold':
                    t = r.choice([x for x in c06.THRESHOLDS if x > n] or [n + 2])
                    if t <= 300 or big_run:
                        F.update_variable_number(t)
                    op += ' %d' % t
                elif op == 'new_variable':
                    F.new_variable(r.choice(['v', 'w_%d' % step, 'u^%d_' % step, 'caf\xe9%d' % step, 'k']) + str(run_no * 100 + step))
                elif op == 'new_block':
                    F.new_block(r.randint(1, 3), r.randint(1, 4), label='b%d_{{{{{{}},{{}}}}}}' % step)
                elif op == 'header-set':
                    F.header[r.choice(['note', 'k%d' % step, 'description'])] = r.choice(['v', 'x' * 300, 'a\r\nb', str(step), 'under_score'])
                elif op == 'header-del' and len(F.header) > 1:
                    k = r.choice([k for k in F.header if k != 'description'] or ['description'])
                    if k != 'description':
                        del F.header[k]
                elif op == 'empty':
                    if is_opb and r.random() < 0.5:
                        F.add_constraint(['>=', r.randint(-1, 1)])
                    else:
                        F.add_clause([])
                elif op == 'many-rows' and n and big_run:
                    m = r.choice([34, 35, 36, 70, 71, 256, 257])
                    for i in range(m):
                        F.add_clause([1 + i % n, -(1 + (i * 5) % n)])
                    op += ' %d' % m
                else:
                    continue
            except ValueError as e:
                op += ' (refused: %s)' % str(e)[:40]
            log.append(op)
            ctx.tally('history operation', op.split(' ')[0])
            if r.random() < 0.5 or step == 0:
                n = F.number_of_variables()
                labels = list(F.all_variable_labels())
                tex_labels = list(F.all_variable_labels(default_label_format='x_{}'))
                c = dict(label='history %d step %d' % (run_no, step), cls='history', is_opb=is_opb, F=F, n=n, labels=labels, tex_labels=tex_labels,
                         mem=mem_constraints(F, is_opb), hdr_items=c06.header_items(F), history=list(log))
                what = r.choice(['opb', 'opb', 'latex', 'both'])
                try:
                    # the string renderings, asked again and again of the same object (a rendering kept from an earlier state
                    # of the object would show here): the first line declares the counts of NOW
                    first = F.to_opb().split('\n')[0]
                    want = '* #variable= %d #constraint= %d' % (n, len(c['mem']))
                    if first != want:
                        ctx.violation('counterexample', 'to_opb() after a sequence of edits declares %r, the formula in memory has %d variables and %d constraints'
                                      % (first[:60], n, len(c['mem'])), dict(input=dict(history=list(log), kind='OPB' if is_opb else 'CNF'), first_line=first[:80], expected=want),
                                      True, site='to_opb', cls='history-stale-counts')
                        continue
                    if what in ('opb', 'both'):
                        via = r.choice(['StringIO', 'name', 'name', 'fileobj', 'stdout'])
                        c['header'], c['names'], c['via'] = r.random() < 0.7, r.random() < 0.5, via
                        c['opb_text'] = c06.write_via(F, via, c['header'], c['names'], paths['opb'], fmt='opb')
                        ctx.tally('history via', 'opb ' + via)
                    if what in ('latex', 'both'):
                        c['snippet'] = F.to_latex()
                        docs = []
                        for header in (False, True):
                            extra = '' if header else 'Some extra text & more.\n'
                            via = r.choice(['StringIO', 'name', 'fileobj', 'stdout'])
                            docs.append((header, extra, c06.write_via(F, via, header, False, paths['latex'], fmt='latex', extra_text=extra), None))
                            ctx.tally('history via', 'latex ' + via)
                        c['docs'] = docs
                except Exception as e:  # noqa
                    ctx.violation('counterexample', 'rendering a formula after a sequence of edits raised %s' % type(e).__name__,
                                  dict(input=dict(history=log, kind='OPB' if is_opb else 'CNF'), implementation=[type(e).__name__, str(e)[:160]]), True,
                                  site='to_file', cls='history-raises-' + type(e).__name__)
                    continue
                snaps.append(c)
    run_small(ctx, cnfgen, quick, snaps, 'history-')
    # ---- several formulas rendered one after the other in ONE process: same kind, same number of variables, same header, other
    # names and other rows -- each rendering must show ITS formula (nothing may be carried over from the rendering before)
    for is_opb in (False, True):
        for nv in (5, 63, 64, 70, 130) if quick else (5, 33, 63, 64, 65, 70, 130, 257, 1025):
            r = random.Random(ctx.rng.randrange(1 << 30))
            made = []
            for fam in ('a', 'b', 'c'):
                F = (OPB if is_opb else CNF)(description='sequence of renderings')
                if fam == 'c':
                    F.update_variable_number(nv)                      # default names
                else:
                    F.new_block(nv, label=fam + '_{{{}}}')  # names a_{1} ...
                for _ in range(r.randint(3, 8)):
                    lits = [v * r.choice([1, -1]) for v in r.sample(range(1, nv + 1), r.randint(1, min(4, nv)))]
                    if is_opb:
                        F.add_constraint([(r.randint(1, 3), l) for l in lits] + [r.choice(['>=', '==']), r.randint(0, 3)])
                    else:
                        F.add_clause(lits)
                made.append((fam, F))
            for order in (made, made[::-1]):
                for fam, F in order:
                    for document in (False, True):
                        labels = list(F.all_variable_labels(default_label_format='x_{}'))
                        descr = dict(kind='OPB' if is_opb else 'CNF', variables=nv, names=fam, document=document,
                                     sequence='rendered after %s in the same process' % [f for f, _ in order],
                                     constraints=[list(c) for c in mem_constraints(F, is_opb)][:12])
                        ctx.count('history-sequence', (is_opb, nv, fam, document, order is made), True, sample=descr)
                        try:
                            if document:
                                buf = io.StringIO()
                                F.to_file(buf, fileformat='latex')
                                text = buf.getvalue()
                            else:
                                text = F.to_latex()
                        except Exception as e:  # noqa
                            ctx.violation('counterexample', 'rendering raised %s' % type(e).__name__, dict(input=descr), True, site='to_latex',
                                          cls='sequence-raises-' + type(e).__name__)
                            continue
                        direct_latex(ctx, descr, text, mem_constraints(F, is_opb), is_opb, labels, document)
    ctx.note('history: %.0f s' % (time.time() - t0))


def build(ctx, cnfgen, quick):
    """[(label, cls, is_opb, thunk)]"""
    from cnfgen.formula.opb import OPB
    C = cnfgen
    CNF = C.CNF
    rng = ctx.rng
    out = []

    def add(label, cls, is_opb, thunk):
        out.append((label, cls, is_opb, thunk))

    # CNF objects: reuse the DIMACS collection (hand-built incl. odd headers / names / line breaks, families, chains)
    for label, cls, thunk in c06.build_formulas(ctx, cnfgen, True):
        if cls == 'large' or label.startswith('large literal') or label.startswith('wide'):
            continue
        add(label, 'cnf-' + cls, False, thunk)

    # OPB objects
    add('empty opb', 'opb-hand', True, lambda: OPB())

    def o1():
        F = OPB()
        F.add_constraint([(2, 3), (1, -1), (3, 4), '>=', 2])
        F.add_constraint(['==', -1])
        F.add_constraint([(1, 1), (2, -2), '<', 2])
        F.add_constraint([(1, 1), (2, -2), '==', 2])
        F.add_constraint([(5, -1), (7, -2), (1, 3), '<=', 6])
        F.add_constraint([(5, -1), (-7, -2), (1, 3), '>', -3])
        F.add_constraint(['>=', 0])
        F.update_variable_number(6)
        return F
    add('mixed constraints', 'opb-hand', True, o1)

    def o2():
        F = OPB()
        F.add_clause([1, -2, 3])
        F.add_clause([])
        F.cardinality_eq([1, 2, -3, 4], 2)
        F.cardinality_leq([1, 2, 3], 1)
        F.cardinality_geq([-1, -2], 1)
        F.add_parity([1, 2, 3], 1)
        return F
    add('clauses, cardinalities, parity', 'opb-hand', True, o2)

    def o3():
        F = OPB()
        F.add_constraint([(0, 1), (1, 2), (10 ** 20, -3), '>=', 10 ** 20])
        return F
    add('zero and huge coefficient', 'opb-hand', True, o3)

    def o4():
        F = OPB(description='caf\xe9 % * # odd')
        F.new_variable('X')
        F.new_block(2, 2, label='z_{{{},{}}}')
        F.new_variable('* #variable= 9 #constraint= 9')
        F.new_variable('w^2_3')
        F.new_variable('_lead')
        F.add_constraint([(2, 1), (3, -2), (1, -6), (4, -7), (2, -8), '>=', 3])
        return F
    add('named opb variables', 'opb-hand', True, o4)
    def o5():
        F = CNF()
        F.new_variable('\\overline{x}_1')
        F.new_variable('x_1')
        F.add_clause([1, -2])
        return F
    add('name beginning with \\overline{', 'cnf-hand', False, o5)
    for i, txt in enumerate(c06.BREAK_TEXTS):
        def ob(txt=txt):
            F = OPB(description=txt)
            F.add_constraint([(2, 1), (1, -2), '>=', 1])
            return F
        add('opb line break in description %d' % i, 'opb-break', True, ob)
    for i in range(15 if quick else 200):
        def obr(seed=rng.randrange(1 << 30)):
            import random
            r = random.Random(seed)
            F = OPB(description=c06.break_text(r))
            for _ in range(r.randint(0, 2)):
                F.header[c06.break_text(r)] = c06.break_text(r)
            for _ in range(r.randint(0, 3)):
                try:
                    F.new_variable(c06.break_text(r))
                except ValueError:
                    pass
            if F.number_of_variables() < 2:
                F.update_variable_number(2)
            F.add_constraint([(2, 1), (1, -2), r.choice(['>=', '==']), 1])
            return F
        add('opb random fields with line breaks %d' % i, 'opb-break-random', True, obr)
    for rows in (1, 2, 34, 35, 36, 70, 71):
        def many(rows=rows):
            F = OPB()
            for i in range(rows):
                F.add_constraint([(1 + i % 3, 1 + i % 5), (2, -(1 + (i * 7) % 6)), '>=' if i % 2 else '==', i % 4])
            return F
        add('opb %d rows' % rows, 'opb-rows', True, many)

        def manyc(rows=rows):
            F = CNF()
            for i in range(rows):
                F.add_clause([1 + i % 5, -(1 + (i * 7) % 6)] if i % 9 else [])
            return F
        add('cnf %d rows' % rows, 'cnf-rows', False, manyc)
    for i in range(15 if quick else 500):
        def rnd(seed=rng.randrange(1 << 30)):
            import random
            r = random.Random(seed)
            F = OPB()
            n = r.randint(1, 9)
            for _ in range(r.randint(0, 12)):
                w = r.choice([0, 1, 2, 3, 5])
                terms = [(r.randint(-4, 6), r.choice([1, -1]) * r.randint(1, n)) for _ in range(w)]
                F.add_constraint(terms + [r.choice(['>=', '==', '<=', '<', '>']), r.randint(-5, 9)])
            if r.random() < 0.3:
                F.update_variable_number(n + 3)
            return F
        add('random opb %d' % i, 'opb-random', True, rnd)
    # random variable names (the \\overline placement looks for the first '_' or '^' not at position 0)
    for i in range(12 if quick else 300):
        def rn(seed=rng.randrange(1 << 30), as_opb=(i % 2 == 1)):
            import random
            r = random.Random(seed)
            F = OPB() if as_opb else CNF()
            k = r.randint(1, 5)
            for _ in range(k):
                m = r.choice([1, 1, 2, 3, 6])
                nm = ''.join(r.choice('xyzXp_^_^{}\\01,()&+|' + (' ' if r.random() < 0.1 else 'q')) for _ in range(m))
                F.new_variable(nm)
            for _ in range(r.randint(0, 6)):
                w = r.choice([0, 1, 2, 3])
                lits = [r.choice([1, -1]) * r.randint(1, k) for _ in range(w)]
                if as_opb:
                    F.add_constraint([(r.randint(0, 4), l) for l in lits] + [r.choice(['>=', '==']), r.randint(0, 4)])
                else:
                    F.add_clause(lits)
            return F
        add('random names %d' % i, 'opb-random-names' if i % 2 == 1 else 'cnf-random-names', i % 2 == 1, rn)
    # families built as OPB objects
    add('php 4 3 as OPB', 'opb-family', True, lambda: C.PigeonholePrinciple(4, 3, formula_class=OPB))
    add('count 5 2 as OPB', 'opb-family', True, lambda: C.CountingPrinciple(5, 2, formula_class=OPB))
    add('subsetcard as OPB', 'opb-family', True, lambda: C.SubsetCardinalityFormula(c06.bip(C, rng, 4, 4, 3), formula_class=OPB))
    add('tseitin as OPB', 'opb-family', True, lambda: C.TseitinFormula(c06.cycle_graph(C, 5), formula_class=OPB))
    return out


def run(ctx):
    cnfgen = import_impl()
    quick = ctx.tier == 'quick'
    # the large cases first, as a corpus (notes/LARGE_STREAMS.md)
    run_huge(ctx, cnfgen, quick)
    run_small(ctx, cnfgen, quick, build_thresholds(ctx, cnfgen, quick), 'thresholds-')
    run_shapes(ctx, cnfgen, quick)
    run_history(ctx, cnfgen, quick)
    run_small(ctx, cnfgen, quick, build(ctx, cnfgen, quick), '')
    import c12_pipeline
    c12_pipeline.run_latex_pipeline(ctx)
    ctx.assumptions.append('LaTeX decoder theorem: names without white space; characters above 255 outside the model')
    ctx.assumptions.append('outputs of several megabytes: the statement is checked directly on the text (independent OPB reader and LaTeX row '
                           'decoder written in Python, tied to the model\'s reader / decoder on every small case of the run)')
    if c06.TMPDIR:
        import shutil
        shutil.rmtree(c06.TMPDIR, ignore_errors=True)
        c06.TMPDIR = None


def run_small(ctx, cnfgen, quick, formulas, pre):
    """formulas: [(label, class, is_opb, thunk)] or [(label, class, is_opb, thunk, dict(opb=[(header, names)...], latex=bool))] or
    prewritten snapshots (history) as dicts; pre: prefix of the stream names"""
    cases = []
    for item in formulas:
        if isinstance(item, dict):
            cases.append(item)
            continue
        label, cls, is_opb, thunk = item[:4]
        only = item[4] if len(item) > 4 else {}
        try:
            F = thunk()
        except Exception as e:  # noqa
            ctx.note('generator %s raised %s: %s' % (label, type(e).__name__, str(e)[:80]))
            continue
        n = F.number_of_variables()
        if n > 10 ** 6:
            if not only:
                continue
            # too many variables to list their names: OPB without names only
            only = dict(opb=[o for o in (only.get('opb') or [(False, False), (True, False)]) if not o[1]], latex=False)
            labels, tex_labels = [], []
        else:
            labels = list(F.all_variable_labels())
            tex_labels = list(F.all_variable_labels(default_label_format='x_{}'))
        ctx.tally(pre + 'formula class', cls)
        ctx.tally(pre + 'rows', '0' if len(F) == 0 else '1-34' if len(F) < 35 else '35' if len(F) == 35 else '36-70' if len(F) <= 70 else '71+')
        cases.append(dict(label=label, cls=cls, is_opb=is_opb, F=F, n=n, labels=labels, tex_labels=tex_labels, only=only))

    # ---------------- OPB text ----------------
    jobs = []
    for c in cases:
        F = c['F']
        if 'mem' in c:               # a snapshot written by the caller (history stream)
            if 'opb_text' in c:
                jobs.append(dict(c=c, header=c['header'], names=c['names'], text=c['opb_text'], wexc=None))
            continue
        for header in (False, True):
            for names in (False, True):
                if names and not all(c06.latin1(x) for x in c['labels']):
                    continue
                if c.get('only', {}).get('opb') is not None and (header, names) not in c['only']['opb']:
                    continue
                s = io.StringIO()
                try:
                    F.to_file(s, fileformat='opb', export_header=header, export_varnames=names)
                    text, wexc = s.getvalue(), None
                except Exception as e:  # noqa
                    text, wexc = None, [type(e).__name__, str(e)[:120]]
                jobs.append(dict(c=c, header=header, names=names, text=text, wexc=wexc))
    reqs = []
    for j in jobs:
        c = j['c']
        margs = (c06.opt(hdr_model(c) if j['header'] else None),
                 c06.opt(c['labels'] if j['names'] else None), mformula(c))
        reqs.append(cmd('print_opb', *margs))
        # the model's reader is quadratic in the number of terms of a constraint: beyond 600 terms the harness's reader is used
        j['wide'] = any(len(r[0] if c['is_opb'] else r) > 600 for r in margs[2][2])
        reqs.append(cmd('parse_opb', j['text'] if j['text'] is not None and c06.latin1(j['text']) and not j['wide'] else ''))
        reqs.append(cmd('print_opb_as_found', *margs))
    reps3 = ctx.model.batch(reqs)
    reps = [x for i, x in enumerate(reps3) if i % 3 != 2]
    as_found = reps3[2::3]
    for k, j in enumerate(jobs):
        c = j['c']
        F = c['F']
        mp, mr = reps[2 * k], reps[2 * k + 1]
        if j['wide'] and j['text'] is not None:
            mr = py_parse_opb(j['text'])
            ctx.tally(pre + 'opb reader', 'harness (a constraint of more than 600 terms)')
        mem = c['mem'] if 'mem' in c else mem_constraints(F, c['is_opb'])
        nrows = len(mem)
        descr = dict(formula=c['label'], kind='OPB' if c['is_opb'] else 'CNF', n=c['n'],
                     constraints=mem if (nrows <= 12 and len(str(mem)) < 600) else '%d rows' % nrows,
                     export_header=j['header'], export_varnames=j['names'],
                     header=[[c06.clip(a), c06.clip(b)] for a, b in hdr_items(c)[:40]] if j['header'] else None,
                     names=[c06.clip(x) for x in c['labels'][:12]] if j['names'] else None)
        if c.get('history'):
            descr['history'] = c['history']
            descr['via'] = c.get('via')
        ctx.count(pre + 'opb', (c['label'], j['header'], j['names']), nrows > 0, sample=dict(descr, constraints='...'))
        ctx.tally(pre + 'opb options', 'header=%s names=%s' % (j['header'], j['names']))
        if j['text'] is None:
            ctx.violation('counterexample', 'writing a formula to OPB raised %s' % j['wexc'][0], dict(input=descr, implementation=j['wexc']),
                          True, site='to_opb_file', cls='raises-' + j['wexc'][0])
            continue
        text = j['text']
        broken = bool((j['header'] and any(b in k or b in v for k, v in hdr_items(c) for b in c06.BREAKS)) or
                      (j['names'] and any(b in lab for lab in c['labels'] for b in c06.BREAKS)))
        want = expected_read_mem(c['n'], mem, c['is_opb'])
        defect = opb_shape_defect(text, c['n'], nrows)
        # the harness's own reader (used alone on the huge outputs) must agree with the model's reader on every small text
        if c06.latin1(text) and not is_error(mr) and not j['wide']:
            pr = py_parse_opb(text)
            if (pr[0] == 'ok') != (mr[0] == 'ok') or (pr[0] == 'ok' and pr != mr):
                ctx.violation('correspondence', 'the OPB reader of the harness (py_parse_opb) and the reader of the model (OpbText.v parse_opb) differ on a text',
                              dict(input=descr, text=text[:400], harness=pr[:2], model=mr[:2]), False, site='py_parse_opb', cls='differs')
        read_ok = (mr == want) if c06.latin1(text) else None
        if is_error(mp) or is_error(mr):
            ctx.violation('correspondence', 'model error', dict(input=descr, model=[mp, mr]), False, site='model-error', cls='opb')
            continue
        ctx.tally('opb: line break in header/name', broken)
        old_text = broken and as_found[k] == text          # the writer as it was before the repair of D4
        if old_text and (read_ok is False or defect is not None):
            ctx.disagreements_checked += 1
            ctx.violation('counterexample', 'a line break inside a header field or variable name is written raw into the OPB text again '
                          '(the text is the one of print_opb_as_found): a line that is neither a comment nor a constraint of the formula',
                          dict(input=descr, text=text[:400], expected_text=mp[:400], reader=mr, shape=defect,
                               theorem='opb_roundtrip / opb_shape hold of print_opb; opb_header_newline_refuted describes this text'),
                          True, site=FINDING_SITE, cls=FINDING_CLS)
            continue
        if read_ok is False or defect is not None:
            ctx.disagreements_checked += 1
            ctx.violation('counterexample', 'the OPB text does not denote the formula in memory: %s' % (defect or 'an independent reader returns other constraints'),
                          dict(input=descr, text=text[:500], reader=mr if mr != want else 'as in memory', in_memory=want, shape=defect), True,
                          site='to_opb_file', cls=('line-break-other' if broken else 'shape' if defect else 'denotation'))
            continue
        if mp != text:
            ctx.disagreements_checked += 1
            i = next((q for q in range(min(len(mp), len(text))) if mp[q] != text[q]), min(len(mp), len(text)))
            ctx.violation('correspondence', 'OPB text differs from the model (OpbText.v print_opb) although it reads back correctly',
                          dict(input=descr, first_difference_at=i, implementation=text[max(0, i - 40):i + 60], model=mp[max(0, i - 40):i + 60],
                               correspondence='OpbText.v print_opb <-> to_opb_file'), False, site='to_opb_file', cls='text-differs')

    # ---------------- LaTeX ----------------
    jobs = []
    for c in cases:
        F = c['F']
        if 'mem' in c and 'snippet' not in c:
            continue
        if c.get('only', {}).get('latex') is False:
            continue
        if 'snippet' in c:           # a snapshot written by the caller (history stream)
            jobs.append(dict(c=c, snippet=c['snippet'], sexc=None, docs=c['docs']))
            continue
        if not all(c06.latin1(x) for x in c['tex_labels']) or not c06.latin1(str(F.header.get('description', ''))):
            ctx.tally('latex skipped', 'non latin-1 name or title')
            continue
        try:
            snippet, sexc = F.to_latex(), None
        except Exception as e:  # noqa
            snippet, sexc = None, [type(e).__name__, str(e)[:100]]
        docs = []
        for header in (False, True):
            extra = '' if header else 'Some extra text & more.\n'
            s = io.StringIO()
            try:
                F.to_file(s, fileformat='latex', export_header=header, extra_text=extra)
                docs.append((header, extra, s.getvalue(), None))
            except Exception as e:  # noqa
                docs.append((header, extra, None, [type(e).__name__, str(e)[:100]]))
        jobs.append(dict(c=c, snippet=snippet, sexc=sexc, docs=docs))
    reqs = []
    for j in jobs:
        c = j['c']
        f = mformula(c)
        reqs.append(cmd('print_latex', c['tex_labels'], -1, True, f))
        reqs.append(cmd('formula_lrows', c['tex_labels'], f))
        reqs.append(cmd('rows_of_latex', c['is_opb'], j['snippet'] or ''))
        # the model's literal decoder is quadratic in the length of a name: beyond 2000 characters the harness's decoder is used
        j['longname'] = any(len(nm) > 2000 for nm in c['tex_labels'])
        reqs.append(cmd('latex_litrows', c['is_opb'], (j['snippet'] or '') if not j['longname'] else ''))
        reqs.append(cmd('formula_litrows', c['tex_labels'], f))
        for (header, extra, doc, _) in j['docs']:
            reqs.append(cmd('print_latex_document', dict(hdr_items(c)).get('description', ''),
                            c06.opt(hdr_model(c) if header else None), extra, c['tex_labels'], f))
            reqs.append(cmd('print_latex', c['tex_labels'], 35, False, f))
    reps = iter(ctx.model.batch(reqs))
    for j in jobs:
        c = j['c']
        F = c['F']
        msnip, mrows, drows = next(reps), next(reps), next(reps)
        dlits, mlits = next(reps), next(reps)
        if j['longname'] and j['snippet'] is not None:
            pl = py_latex_rows(j['snippet'], c['is_opb'])
            dlits = [pl[0], [['some', r] if r is not None else None for r in pl[1]]]
            ctx.tally(pre + 'latex literal decoder', 'harness (a name of more than 2000 characters)')
        mem = c['mem'] if 'mem' in c else mem_constraints(F, c['is_opb'])
        nrows = len(mem)
        F = Rows(mem)                 # the rows as they were when the text was written
        descr = dict(formula=c['label'], kind='OPB' if c['is_opb'] else 'CNF', n=c['n'], rows=nrows,
                     constraints=mem if (nrows <= 12 and len(str(mem)) < 600) else '%d rows' % nrows, names=[c06.clip(x) for x in c['tex_labels'][:12]])
        if c.get('history'):
            descr['history'] = c['history']
        names_ok = not any(ch.isspace() for nm in c['tex_labels'] for ch in nm)
        ctx.count(pre + 'latex-snippet', c['label'], nrows > 0, sample=dict(descr, constraints='...'))
        ctx.tally(pre + 'latex names without white space', names_ok)
        if j['snippet'] is None:
            if msnip is None and j['sexc'][0] == 'KeyError':
                ctx.violation('counterexample', 'to_latex() raises KeyError: a literal of the formula has no variable label',
                              dict(input=descr, implementation=j['sexc']), True, site='to_latex', cls='KeyError-missing-label')
            else:
                ctx.violation('counterexample', 'to_latex() raised %s' % j['sexc'][0], dict(input=descr, implementation=j['sexc'], model=msnip),
                              True, site='to_latex', cls='raises-' + j['sexc'][0])
            for _ in j['docs']:
                next(reps), next(reps)
            continue
        # the property itself, checked on the implementation's text with the model's decoder
        want_rows = [len(F) == 0, mrows[1]] if mrows is not None else None
        if names_ok and want_rows is not None and drows != want_rows:
            ctx.disagreements_checked += 1
            bad = next((i for i, (a, b) in enumerate(zip(drows[1], want_rows[1])) if a != b), None)
            ctx.violation('counterexample', 'the LaTeX rows do not show the clauses / constraints in memory (row %s)' % bad,
                          dict(input=descr, text=j['snippet'][:600], decoded=drows[1][bad] if bad is not None else [drows[0], len(drows[1])],
                               expected=want_rows[1][bad] if bad is not None else [want_rows[0], len(want_rows[1])], theorem='latex_rows'),
                          True, site='to_latex', cls='rows')
        elif msnip != ['some', j['snippet']]:
            ctx.disagreements_checked += 1
            ctx.violation('correspondence', 'to_latex() text differs from the model (Latex.v print_latex_string)',
                          dict(input=descr, implementation=j['snippet'][:500], model=(msnip[1][:500] if msnip else None),
                               correspondence='Latex.v print_latex <-> _print_latex'), False, site='to_latex', cls='text-differs')
        # the same, read as literals: (polarity, variable name) of every literal of every row, against the formula in memory
        decodable = not any(nm.startswith('\\overline{') for nm in c['tex_labels'])
        ctx.tally('latex names decodable (none begins with \\overline{)', decodable)
        try:
            want_lits = expected_litrows(F, c['is_opb'], c['tex_labels'])
        except IndexError:
            want_lits = None
        if names_ok and decodable and want_lits is not None:
            ctx.count(pre + 'latex-literals', c['label'], len(F) > 0)
            # the harness's own row decoder (used alone on the huge outputs) must agree with the model's decoder on every small text
            if not j['longname'] and not any(nm[:1].isdigit() or ' + ' in nm or '\\lor' in nm or nm == '' or not balanced(nm) for nm in c['tex_labels']):
                pl = py_latex_rows(j['snippet'], c['is_opb'])
                if pl[:2] != [dlits[0], [r[1] if r is not None and r != 'none' else None for r in dlits[1]]]:
                    ctx.violation('correspondence', 'the LaTeX row decoder of the harness (py_latex_rows) and the decoder of the model (Latex.v latex_litrows) differ',
                                  dict(input=descr, text=j['snippet'][:400], harness=str(pl)[:300], model=str(dlits)[:300]), False, site='py_latex_rows', cls='differs')
            if dlits != [len(F) == 0, [['some', r] for r in want_lits]]:
                ctx.disagreements_checked += 1
                bad = next((i for i, (a, b) in enumerate(zip(dlits[1], want_lits)) if a != ['some', b]), None)
                ctx.violation('counterexample', 'the LaTeX rows do not show the literals of the formula in memory (row %s): polarity or variable name differs' % bad,
                              dict(input=descr, text=j['snippet'][:600], decoded=dlits[1][bad] if bad is not None else [dlits[0], len(dlits[1])],
                                   expected=want_lits[bad] if bad is not None else [len(F) == 0, len(want_lits)], theorem='latex_rows_literals'),
                              True, site='to_latex', cls='literals')
            elif mlits != ['some', want_lits]:
                ctx.violation('correspondence', 'formula_litrows (Latex.v) differs from the literal rows computed by the harness',
                              dict(input=descr, model=mlits, harness=want_lits), False, site='Latex.formula_litrows', cls='differs')
        for (header, extra, doc, dexc) in j['docs']:
            mdoc, mbody = next(reps), next(reps)
            ctx.count(pre + 'latex-document', (c['label'], header), len(F) > 0)
            if doc is None:
                ctx.violation('counterexample', 'writing the LaTeX document raised %s' % dexc[0], dict(input=descr, implementation=dexc), True,
                              site='to_latex_document', cls='raises-' + dexc[0])
                continue
            if names_ok and decodable and want_lits is not None and not header:
                start = doc.find('\\begin{align}')
                if j['longname']:
                    pl = py_latex_rows(doc[start:doc.rfind('\\end{document}')] if start >= 0 else '', c['is_opb'])
                    lits = [pl[0], [['some', r] if r is not None else None for r in pl[1]]]
                else:
                    lits = ctx.model.call(Sym('latex_litrows'), c['is_opb'], doc[start:doc.rfind('\\end{document}')] if start >= 0 else '')
                ctx.count(pre + 'latex-document-literals', c['label'], len(F) > 0)
                if lits != [len(F) == 0, [['some', r] for r in want_lits]]:
                    ctx.disagreements_checked += 1
                    ctx.violation('counterexample', 'the LaTeX document (35 rows per block) does not show the literals of the formula in memory',
                                  dict(input=descr, decoded_rows=len(lits[1]), expected_rows=len(want_lits), theorem='latex_rows_literals'), True,
                                  site='to_latex_document', cls='literals')
                    continue
            if mdoc != ['some', doc]:
                ctx.disagreements_checked += 1
                # does the document still contain the right rows?  decode its align part
                start = doc.find('\\begin{align}')
                rows = ctx.model.call(Sym('rows_of_latex'), c['is_opb'], doc[start:doc.rfind('\\end{document}')] if start >= 0 else '')
                if names_ok and want_rows is not None and rows != want_rows:
                    ctx.violation('counterexample', 'the LaTeX document does not show the clauses / constraints in memory (page split?)',
                                  dict(input=descr, export_header=header, decoded_rows=len(rows[1]), expected_rows=len(want_rows[1])), True,
                                  site='to_latex_document', cls='rows')
                else:
                    i = next((q for q in range(min(len(mdoc[1]), len(doc))) if mdoc[1][q] != doc[q]), 0) if mdoc else 0
                    ctx.violation('correspondence', 'LaTeX document differs from the model (Latex.v print_latex_document)',
                                  dict(input=descr, export_header=header, first_difference_at=i, implementation=doc[max(0, i - 60):i + 80],
                                       model=(mdoc[1][max(0, i - 60):i + 80] if mdoc else None)), False, site='to_latex_document', cls='text-differs')
