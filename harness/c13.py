"""C13 -- random k-CNF and k-XOR formulas have exactly the promised shape.

Correspondence: the functions of the `random` module called by
cnfgen/families/randomformulas.py, randomkxor.py and the randkcnf/randkxor
command line helpers (random.sample, random.choice, random.randint) are wrapped
in this process; the values they return are recorded (positions for sample) and
the same stream of draws is replayed through the extracted Coq model (Rand.v).
Clause lists (and the list of parities) must be EQUAL, in order, the number of
variables equal, and the model must have read exactly the recorded draws.

Two kinds of oracle are used: the real Mersenne twister under many seeds, and a
scripted oracle driven by ctx.rng that answers inside the contract of the
random functions but is biased towards repeating itself, which forces the
hand-over from rejection sampling to dense sampling with a non-empty partial
result.

Independently of the model, the PROPERTY is checked on every output of the
implementation (m distinct clauses, k distinct variables in 1..n each, planted
assignments satisfy, n variables; ValueError iff k>n or m exceeds the number of
compatible clauses, counted by an independent enumeration)."""
import argparse
import itertools
import json
import os
import random
import subprocess

import lib
from lib import cmd, is_error, import_impl, Sym

META = dict(
    technique='Coq theorems over oracle streams (RandFacts.v) + replay of the recorded draws of random.sample/choice/randint through the extracted model (exact clause lists)',
    category='proof',
    text='The samplers are modelled as functions of the stream of values returned by random.sample/choice/randint; machine-checked '
         'theorems state for every k, n, m, every set of planted assignments and EVERY stream inside the contracts of those functions '
         'that the result has exactly m pairwise distinct clauses (parities) over k distinct variables of 1..n, all satisfied by every '
         'planted assignment, n variables, that the XOR formula means its linear system, and that ValueError is raised exactly when k>n '
         'or m exceeds the number of compatible clauses (parities) -- through both the rejection loop and the dense hand-over. The model '
         'is tied to the code by replaying the recorded draws of real and scripted runs and comparing clause lists exactly.',
    note='Trusted: Coq kernel, extraction, OCaml driver, the harness, the contract of the random module (sample returns k elements at '
         'distinct positions, choice a member, randint a value in range). random.seed and the Mersenne twister are not modelled. '
         'The XOR error theorem assumes planted assignments define every variable of 1..n (otherwise cnfgen raises ValueError from parity_satisfied).',
    design_ref='5/C13',
)

RULE = ('one case = one call of RandomKCNF / RandomKXOR / sample_clauses / sample_parities / helper.build_formula with given (k,n,m), planted '
        'assignments and oracle (seed or scripted stream); non-trivial when m>=1 and k<=n; distinct = distinct (stream, k, n, m, planted, oracle) keys')
TRUSTED = ['contract of random.sample / random.choice / random.randint (hypothesis of the theorems: sample_ok, membership, range)']


# --------------------------------------------------------------------------
# recording / scripting the random module
# --------------------------------------------------------------------------
class Oracle:
    """Wraps the functions of the `random` module used by the two source files.
    mode 'real': the original functions answer; mode 'script': ctx.rng answers
    (inside the contract, biased to repeat earlier answers)."""
    NAMES = ['sample', 'choice', 'randint', 'getrandbits', 'shuffle', 'random', 'randrange', 'uniform', 'choices']

    def __init__(self, script_rng=None, stick=0.0):
        self.draws = []
        self.rng = script_rng
        self.stick = stick
        self.saved = {}
        self.last = {}
        self.unexpected = []

    def __enter__(self):
        for nm in self.NAMES:
            self.saved[nm] = getattr(random, nm)
        orig = self.saved

        def sample(pop, k, **kw):
            if kw:
                self.unexpected.append('sample(counts=...)')
            if self.rng is None:
                res = orig['sample'](pop, k)
            else:
                n = len(pop)
                if k > n or k < 0:
                    raise ValueError("Sample larger than population or is negative")
                key = (n, k)
                if key in self.last and self.rng.random() < self.stick:
                    idx = self.last[key]
                else:
                    idx = self.rng.sample(range(n), k)
                self.last[key] = idx
                res = [pop[i] for i in idx]
            # positions of the returned elements (by identity for lists/tuples, by value for ints)
            pos = []
            for r in res:
                if isinstance(r, int):
                    pos.append(pop.index(r))
                else:
                    pos.append(next(i for i, x in enumerate(pop) if x is r))
            self.draws.append([Sym('s')] + pos)
            return res

        def choice(seq):
            if self.rng is None:
                z = orig['choice'](seq)
            else:
                z = seq[self.rng.randrange(len(seq))]
            self.draws.append([Sym('c'), z])
            return z

        def randint(a, b):
            if self.rng is None:
                z = orig['randint'](a, b)
            else:
                z = self.rng.randint(a, b)
            self.draws.append([Sym('i'), z])
            return z

        random.sample, random.choice, random.randint = sample, choice, randint
        for nm in self.NAMES[3:]:
            def other(*a, _nm=nm, **k):
                self.unexpected.append(_nm)
                return orig[_nm](*a, **k)
            setattr(random, nm, other)
        return self

    def __exit__(self, *exc):
        for nm, f in self.saved.items():
            setattr(random, nm, f)
        return False


# --------------------------------------------------------------------------
# independent statement of the property
# --------------------------------------------------------------------------
def lit_in(l, p):
    return l in p


def count_compatible_clauses(k, n, planted):
    cnt = 0
    for dom in itertools.combinations(range(1, n + 1), k):
        for bits in range(1 << k):
            cls = [v if (bits >> i) & 1 else -v for i, v in enumerate(dom)]
            if all(any(l in p for l in cls) for p in planted):
                cnt += 1
    return cnt


def count_compatible_parities(k, n, planted):
    cnt = 0
    for dom in itertools.combinations(range(1, n + 1), k):
        for b in (0, 1):
            if all(sum(1 for v in dom if v in p) % 2 == b for p in planted):
                cnt += 1
    return cnt


def kcnf_property_fails(k, n, m, planted, out):
    """None, or a description of how the outcome violates the statement of C13"""
    maxm = count_compatible_clauses(k, n, planted) if k <= n else 0
    should_fail = k > n or m > maxm
    if out[0] == 'exc':
        if out[1] != 'ValueError':
            return 'raises %s, not ValueError' % out[1]
        return None if should_fail else 'ValueError although k<=n and m=%d <= %d compatible clauses' % (m, maxm)
    if should_fail:
        return 'no ValueError although %s' % ('k>n' if k > n else 'm=%d > %d compatible clauses' % (m, maxm))
    nv, cls = out[1], out[2]
    if nv != n:
        return 'formula has %d variables, not n=%d' % (nv, n)
    if len(cls) != m:
        return '%d clauses instead of m=%d' % (len(cls), m)
    if len({tuple(c) for c in cls}) != len(cls):
        return 'repeated clause'
    for c in cls:
        vs = [abs(l) for l in c]
        if len(c) != k or len(set(vs)) != k or any(v < 1 or v > n for v in vs):
            return 'clause %r is not over k=%d distinct variables of 1..%d' % (c, k, n)
        for p in planted:
            if not any(l in p for l in c):
                return 'clause %r falsified by planted assignment %r' % (c, p)
    return None


def kxor_property_fails(k, n, m, planted, out, check_models=True):
    maxm = count_compatible_parities(k, n, planted) if k <= n else 0
    should_fail = k > n or m > maxm
    if out[0] == 'exc':
        if out[1] != 'ValueError':
            return 'raises %s, not ValueError' % out[1]
        return None if should_fail else 'ValueError although k<=n and m=%d <= %d compatible parities' % (m, maxm)
    if should_fail:
        return 'no ValueError although %s' % ('k>n' if k > n else 'm=%d > %d compatible parities' % (m, maxm))
    nv, pars, cls = out[1], out[2], out[3]
    if nv != n:
        return 'formula has %d variables, not n=%d' % (nv, n)
    if pars is not None:
        if len(pars) != m:
            return '%d parities instead of m=%d' % (len(pars), m)
        if len({(tuple(X), b) for X, b in pars}) != len(pars):
            return 'repeated parity constraint'
        for X, b in pars:
            if len(X) != k or len(set(X)) != k or any(v < 1 or v > n for v in X) or b not in (0, 1):
                return 'parity %r=%r is not over k=%d distinct variables of 1..%d' % (X, b, k, n)
            for p in planted:
                if sum(1 for v in X if v in p) % 2 != b:
                    return 'parity %r=%r falsified by planted assignment %r' % (X, b, p)
        if check_models and n <= 7:
            for a in lib.assignments(n):
                want = all(sum(1 for v in X if a[v]) % 2 == b for X, b in pars)
                if lib.cnf_sat(a, cls) != want:
                    return 'clauses and linear system differ on assignment %r' % (a[1:],)
    for p in planted:
        a = [None] + [(v in p) for v in range(1, n + 1)]
        if not lib.cnf_sat(a, cls):
            return 'planted assignment %r falsifies the formula' % (p,)
    return None


# --------------------------------------------------------------------------
# running the implementation
# --------------------------------------------------------------------------
def planted_sets(rng, n, count):
    return [[v if rng.random() < 0.5 else -v for v in range(1, n + 1)] for _ in range(count)]


def run_impl(kind, k, n, m, planted, oracle_spec, mods):
    """returns (outcome, draws, unexpected) ; outcome = ('ok', nv, clauses) / ('ok', nv, parities, clauses) / ('exc', name, msg)"""
    RandomKCNF, RandomKXOR, rf, rx, RandCmdHelper, RandXorHelper, CNF = mods
    if oracle_spec[0] == 'seed':
        orc = Oracle()
        seed = oracle_spec[1]
    else:
        orc = Oracle(script_rng=random.Random(oracle_spec[1]), stick=oracle_spec[2])
        seed = None
    captured = {}
    saved_sp = rx.sample_parities

    def sp(*a, **kw):
        r = saved_sp(*a, **kw)
        captured['pars'] = [(list(X), b) for X, b in r]
        return r
    pl = [list(p) for p in planted]
    try:
        rx.sample_parities = sp
        with orc:
            try:
                if kind == 'RandomKCNF':
                    F = RandomKCNF(k, n, m, seed=seed, planted_assignments=pl)
                    out = ('ok', F.number_of_variables(), [list(c) for c in F.clauses()])
                elif kind == 'RandomKXOR':
                    F = RandomKXOR(k, n, m, seed=seed, planted_assignments=pl)
                    out = ('ok', F.number_of_variables(), captured.get('pars'), [list(c) for c in F.clauses()])
                elif kind == 'sample_clauses':
                    if seed is not None:
                        random.seed(seed)
                    out = ('ok', n, [list(c) for c in rf.sample_clauses(k, n, m, pl)])
                elif kind == 'sample_parities':
                    if seed is not None:
                        random.seed(seed)
                    out = ('ok', n, [(list(X), b) for X, b in saved_sp(k, n, m, pl)], None)
                elif kind in ('randkcnf', 'randkcnf-p'):
                    if seed is not None:
                        random.seed(seed)
                    args = argparse.Namespace(k=k, n=n, m=m, plant=kind.endswith('-p'))
                    F = RandCmdHelper.build_formula(args, CNF)
                    out = ('ok', F.number_of_variables(), [list(c) for c in F.clauses()])
                elif kind in ('randkxor', 'randkxor-p'):
                    if seed is not None:
                        random.seed(seed)
                    args = argparse.Namespace(k=k, n=n, m=m, plant=kind.endswith('-p'))
                    F = RandXorHelper.build_formula(args, CNF)
                    out = ('ok', F.number_of_variables(), captured.get('pars'), [list(c) for c in F.clauses()])
                else:
                    raise AssertionError(kind)
            except Exception as e:  # noqa
                out = ('exc', type(e).__name__, str(e)[:200])
    finally:
        rx.sample_parities = saved_sp
    if planted and pl != [list(p) for p in planted]:
        out = ('exc', 'ArgumentModified', 'planted assignments changed by the call')
    return out, orc.draws, orc.unexpected


MODEL_CMD = {'RandomKCNF': 'random_kcnf', 'RandomKXOR': 'random_kxor', 'sample_clauses': 'sample_clauses',
             'sample_parities': 'sample_parities', 'randkcnf': 'rand_cmd', 'randkcnf-p': 'rand_cmd',
             'randkxor': 'randxor_cmd', 'randkxor-p': 'randxor_cmd'}


def model_request(kind, k, n, m, planted, draws):
    if kind in ('randkcnf', 'randkcnf-p', 'randkxor', 'randkxor-p'):
        return cmd(MODEL_CMD[kind], k, n, m, kind.endswith('-p'), draws)
    return cmd(MODEL_CMD[kind], k, n, m, [list(p) for p in planted], draws)


def canon_model(kind, rep):
    """model reply -> the same shape as the implementation outcome"""
    tag = rep[0]
    if tag != 'ok':
        return (str(tag),)
    if kind in ('RandomKCNF', 'randkcnf', 'randkcnf-p'):
        return ('ok', rep[1], rep[2], rep[3])
    if kind in ('RandomKXOR', 'randkxor', 'randkxor-p'):
        return ('ok', rep[1], [(X, b) for X, b in rep[2]], rep[3], rep[4])
    if kind == 'sample_clauses':
        return ('ok', None, rep[1], rep[2])
    return ('ok', None, [(X, b) for X, b in rep[1]], None, rep[2])


def agree(kind, out, mod):
    """does the implementation outcome equal what the model computed from the same draws?"""
    if out[0] == 'exc':
        return out[1] == 'ValueError' and mod == ('valueerror',)
    if mod[0] != 'ok':
        return False
    if mod[-1] != 0:     # the model did not read all recorded draws
        return False
    if kind in ('RandomKCNF', 'randkcnf', 'randkcnf-p'):
        return out[1] == mod[1] and out[2] == mod[2]
    if kind in ('RandomKXOR', 'randkxor', 'randkxor-p'):
        return out[1] == mod[1] and out[2] == mod[2] and out[3] == mod[3]
    if kind == 'sample_clauses':
        return out[2] == mod[2]
    return out[2] == mod[2]


def m_values(maxm, quick, rng):
    base = {0, 1, 2, maxm - 1, maxm, maxm + 1, maxm // 2}
    if quick:
        base |= {rng.randint(0, maxm + 1)}
    else:
        base |= set(range(0, min(maxm + 2, 40))) | {rng.randint(0, maxm + 1) for _ in range(6)}
    return sorted(x for x in base if 0 <= x <= maxm + 1)


def run(ctx):
    import_impl()
    from cnfgen.families.randomformulas import RandomKCNF
    from cnfgen.families.randomkxor import RandomKXOR
    import cnfgen.families.randomformulas as rf
    import cnfgen.families.randomkxor as rx
    from cnfgen.clihelpers.simple_helpers import RandCmdHelper, RandXorHelper
    from cnfgen.formula.cnf import CNF
    mods = (RandomKCNF, RandomKXOR, rf, rx, RandCmdHelper, RandXorHelper, CNF)
    quick = ctx.tier == 'quick'
    rng = ctx.rng
    cases = []   # (stream, kind, k, n, m, planted, oracle_spec)

    def oracles(nseeds, nscripts):
        out = [('seed', rng.randrange(1, 10 ** 6)) for _ in range(nseeds)]
        out += [('script', rng.randrange(10 ** 9), rng.choice([0.0, 0.5, 0.9, 0.97])) for _ in range(nscripts)]
        return out

    for k in range(0, 6):
        for n in range(0, 7):
            for npl in range(0, 4):
                for rep in range(1 if quick else 3):
                    planted = planted_sets(rng, n, npl)
                    for kind in ('RandomKCNF', 'RandomKXOR'):
                        if k <= n:
                            maxm = (count_compatible_clauses if kind == 'RandomKCNF' else count_compatible_parities)(k, n, planted)
                            ms = m_values(maxm, quick, rng)
                        else:
                            ms = [0, 1, 3]
                        for m in ms:
                            near = k <= n and m >= maxm - 1
                            for o in oracles(2 if near else 1, (3 if near else 1) if quick else (6 if near else 2)):
                                cases.append(('library', kind, k, n, m, planted, o))
    # sample_* called directly (k <= n: for k > n random.sample raises inside)
    for _ in range(150 if quick else 1500):
        n = rng.randint(0, 6)
        k = rng.randint(0, n)
        planted = planted_sets(rng, n, rng.randint(0, 3))
        kind = rng.choice(['sample_clauses', 'sample_parities'])
        maxm = (count_compatible_clauses if kind == 'sample_clauses' else count_compatible_parities)(k, n, planted)
        m = rng.choice([0, 1, maxm // 2, maxm - 1, maxm, maxm, maxm + 1, rng.randint(0, maxm + 1)])
        if m < 0:
            continue
        cases.append(('sampler', kind, k, n, m, planted, oracles(1, 1)[rng.randrange(2)]))
    # partially defined / inconsistent planted assignments (documented as allowed for k-CNF; XOR raises ValueError when undefined)
    for _ in range(120 if quick else 1200):
        n = rng.randint(1, 5)
        k = rng.randint(0, n)
        planted = []
        for _j in range(rng.randint(1, 2)):
            p = [v if rng.random() < 0.5 else -v for v in range(1, n + 1) if rng.random() < 0.7]
            if p and rng.random() < 0.2:
                p.append(-p[0])
            planted.append(p)
        kind = rng.choice(['RandomKCNF', 'RandomKXOR'])
        m = rng.randint(0, 12)
        cases.append(('partial-planted', kind, k, n, m, planted, oracles(1, 1)[rng.randrange(2)]))
    # negative arguments
    for (k, n, m) in [(-1, 3, 1), (2, -1, 1), (2, 3, -1), (-2, -2, -2), (0, 0, 0), (0, 0, 1), (0, 0, 2), (7, 6, 0)]:
        for kind in ('RandomKCNF', 'RandomKXOR'):
            cases.append(('arguments', kind, k, n, m, [], ('seed', 7)))
    # command line helpers (build_formula with a Namespace, exactly what cnfgen randkcnf / randkxor run)
    for _ in range(250 if quick else 2500):
        n = rng.randint(1, 6)
        k = rng.randint(1, min(n + 1, 5))
        kind = rng.choice(['randkcnf', 'randkcnf-p', 'randkxor', 'randkxor-p'])
        if k <= n:
            free = (2 ** k if 'cnf' in kind else 2) * len(list(itertools.combinations(range(n), k)))
            pl = (free - len(list(itertools.combinations(range(n), k)))) if ('cnf' in kind and kind.endswith('-p')) else (free // 2 if kind.endswith('-p') else free)
            m = rng.choice([0, 1, pl - 1, pl, pl, pl + 1, free, free + 1, rng.randint(0, free + 1)])
        else:
            m = rng.randint(0, 3)
        if m < 0:
            continue
        cases.append(('cli-helper', kind, k, n, m, [], oracles(1, 1)[rng.randrange(2)]))

    # ---- run the implementation, then the model on the recorded draws ----
    results = []
    reqs = []
    for (stream, kind, k, n, m, planted, o) in cases:
        out, draws, unexpected = run_impl(kind, k, n, m, planted, o, mods)
        results.append((out, draws, unexpected))
        reqs.append(model_request(kind, k, n, m, planted, draws))
    replies = ctx.model.batch(reqs)

    for (stream, kind, k, n, m, planted, o), (out, draws, unexpected), rep in zip(cases, results, replies):
        descr = dict(call=kind, k=k, n=n, m=m, planted=planted, oracle=list(o))
        ctx.count(stream, (kind, k, n, m, json.dumps(planted), json.dumps(o)), nontrivial=(m >= 1 and k <= n), sample=descr)
        ctx.tally('call', kind)
        ctx.tally('k', k)
        ctx.tally('n', n)
        ctx.tally('planted assignments', len(planted))
        ctx.tally('oracle', o[0] if o[0] == 'seed' else 'script stick=%s' % o[2])
        if out[0] == 'exc':
            branch = 'error:' + out[1]
        elif m == 0:
            branch = 'm=0'
        else:
            # the dense branch ends with one sample of m positions out of the full set, after 10*m rejection rounds
            per_round = (1 + k) if 'cnf' in kind.lower() or kind == 'sample_clauses' else 2
            planted_draws = n if kind.endswith('-p') else 0
            branch = 'dense' if (len(draws) - planted_draws) == 10 * m * per_round + 1 else 'rejection'
        ctx.tally('branch', branch)
        if unexpected:
            ctx.violation('correspondence', 'the code called random.%s, which the model (Rand.v) does not know' % unexpected[0],
                          dict(input=descr, correspondence='Rand.v oracle stream'), False, site=kind, cls='unmodelled-random-call')
        # the property itself, on the implementation's outcome
        fails = None
        if stream in ('library', 'sampler', 'arguments', 'cli-helper'):
            eff_planted = planted
            if kind.endswith('-p') and out[0] == 'ok':
                eff_planted = [[d[1] * v for d, v in zip(draws[:n], range(1, n + 1))]]
            elif kind.endswith('-p'):
                eff_planted = [[d[1] * v for d, v in zip(draws[:n], range(1, n + 1))]] if len(draws) >= n else None
            if min(k, n, m) < 0:
                fails = None if (out[0] == 'exc' and out[1] == 'ValueError') else 'negative argument accepted or wrong exception: %r' % (out[:2],)
            elif eff_planted is None:
                fails = None
            elif kind in ('RandomKCNF', 'sample_clauses', 'randkcnf', 'randkcnf-p'):
                fails = kcnf_property_fails(k, n, m, eff_planted, out)
            else:
                o2 = out if kind != 'sample_parities' or out[0] == 'exc' else ('ok', n, out[2], xor_expand(out[2]))
                fails = kxor_property_fails(k, n, m, eff_planted, o2, check_models=(n <= 5 or not quick))
        if fails is not None:
            ctx.disagreements_checked += 1
            ctx.violation('counterexample', 'C13 fails: ' + fails,
                          dict(input=descr, draws=draws_json(draws), implementation=out_json(out)), True,
                          site=kind, cls=classify(fails))
        # correspondence with the model on the same draws
        if is_error(rep):
            ctx.violation('correspondence', 'model error', dict(input=descr, model=rep), False, site='model-error', cls=kind)
            continue
        mod = canon_model(kind, rep)
        if not agree(kind, out, mod):
            ctx.disagreements_checked += 1
            if fails is None:
                ctx.violation('correspondence',
                              'outcome differs from the model (Rand.v) on the same draws; theorems C13_* no longer cover the code',
                              dict(input=descr, draws=draws_json(draws), implementation=out_json(out), model=out_json(mod),
                                   correspondence='Rand.v <-> ' + kind), False, site=kind, cls='differs-from-model')
    ctx.note('dense branch = rejection loop exhausted 10*m rounds; see input_distribution.branch')
    run_cli(ctx)


def xor_expand(pars):
    out = []
    for X, b in pars:
        k = len(X)
        for bits in itertools.product([1, -1], repeat=k):
            neg = sum(1 for s in bits if s == -1)
            # clause forbids the assignment falsifying all its literals: x_i = (s_i == -1)
            if neg % 2 != b:
                out.append([s * v for s, v in zip(bits, X)])
    return out


def classify(fails):
    for key in ('no ValueError', 'ValueError although', 'raises', 'repeated', 'falsified', 'not over', 'variables, not', 'instead of', 'differ on', 'negative'):
        if key in fails:
            return key.replace(' ', '-')
    return 'other'


def draws_json(draws):
    return [[str(d[0])] + list(d[1:]) for d in draws]


def out_json(o):
    return json.loads(json.dumps(o, default=str))


# --------------------------------------------------------------------------
# the command line, in child processes (argument validation of randkcnf / randkxor)
# --------------------------------------------------------------------------
CLI_SNIPPET = ("import sys; sys.argv=['cnfgen']+sys.argv[1:]; "
               "from cnfgen.clitools.cnfgen import main; main()")


def run_cli(ctx):
    quick = ctx.tier == 'quick'
    rng = ctx.rng
    cmds = []
    fixed = [('randkcnf', '0', '3', '1'), ('randkcnf', '2', '0', '0'), ('randkcnf', '3', '2', '1'), ('randkcnf', '2', '3', '12'),
             ('randkcnf', '2', '3', '13'), ('randkcnf', '2', '3', '-1'), ('randkcnf', 'x', '3', '1'), ('randkcnf', '-p', '2', '3', '9'),
             ('randkcnf', '-p', '2', '3', '10'), ('randkxor', '2', '3', '6'), ('randkxor', '2', '3', '7'), ('randkxor', '-p', '2', '3', '3'),
             ('randkxor', '-p', '2', '3', '4'), ('randkxor', '4', '3', '0'), ('randkxor', '1', '1', '2'), ('randkxor', '1', '1', '3')]
    for f in fixed:
        cmds.append(list(f))
    for _ in range(6 if quick else 60):
        n = rng.randint(1, 5)
        k = rng.randint(1, n + 1)
        name = rng.choice(['randkcnf', 'randkxor'])
        plant = rng.random() < 0.5
        cmds.append([name] + (['-p'] if plant else []) + [str(k), str(n), str(rng.randint(0, 14))])
    env = dict(os.environ, PYTHONPATH=lib.REPO, PYTHONHASHSEED='0')
    procs = []
    for c in cmds:
        seed = rng.randrange(1, 10 ** 6)
        argv = ['-q', '--seed', str(seed)] + c
        procs.append((c, seed, subprocess.Popen([lib.PY, '-c', CLI_SNIPPET] + argv, cwd=lib.REPO, env=env,
                                                stdout=subprocess.PIPE, stderr=subprocess.PIPE)))
    for c, seed, p in procs:
        so, se = p.communicate(timeout=120)
        so, se = so.decode(errors='replace'), se.decode(errors='replace')
        name = c[0]
        plant = '-p' in c
        nums = [x for x in c[1:] if x != '-p']
        descr = dict(argv=['cnfgen', '-q', '--seed', str(seed)] + c)
        ctx.count('cli-process', tuple(descr['argv']), nontrivial=True, sample=descr)
        ctx.tally('cli command', name + (' -p' if plant else ''))
        try:
            k, n, m = [int(x) for x in nums]
            valid_syntax = k >= 1 and n >= 1 and m >= 0
        except ValueError:
            valid_syntax = False
        if 'Traceback' in se:
            ctx.violation('counterexample', 'cnfgen %s ends with a traceback' % ' '.join(c),
                          dict(input=descr, stderr=se[-600:]), True, site='cli-' + name, cls='traceback')
            continue
        failed = p.returncode != 0
        if not valid_syntax:
            if not failed:
                ctx.violation('counterexample', 'cnfgen accepts invalid arguments %r' % (c,), dict(input=descr, stdout=so[:300]), True,
                              site='cli-' + name, cls='accepts-invalid')
            continue
        free = len(list(itertools.combinations(range(n), k))) * (2 ** k if name == 'randkcnf' else 2) if k <= n else 0
        if plant:
            maxm = free - len(list(itertools.combinations(range(n), k))) if name == 'randkcnf' else free // 2
        else:
            maxm = free
        should_fail = k > n or m > maxm
        if failed != should_fail:
            ctx.violation('counterexample', 'cnfgen %s: exit status %d but the request %s fail (max m = %d)' %
                          (' '.join(c), p.returncode, 'should' if should_fail else 'should not', maxm),
                          dict(input=descr, stdout=so[:300], stderr=se[:300]), True, site='cli-' + name,
                          cls='no-error' if should_fail else 'spurious-error')
            continue
        if failed:
            continue
        # parse the DIMACS output and check the shape
        cls = []
        header = None
        for ln in so.splitlines():
            if ln.startswith('c') or not ln.strip():
                continue
            if ln.startswith('p'):
                header = ln.split()
                continue
            cls.append([int(x) for x in ln.split()][:-1])
        if name == 'randkcnf':
            bad = kcnf_property_fails(k, n, m, [], ('ok', int(header[2]) if header else -1, cls))
            if bad is None and plant:
                # some total assignment must satisfy every clause
                if not any(lib.cnf_sat(a, cls) for a in lib.assignments(n)):
                    bad = 'no planted assignment satisfies the output'
        else:
            bad = None
            if header is None or int(header[2]) != n:
                bad = 'formula has %r variables, not n=%d' % (header, n)
            elif len(cls) != m * (2 ** (k - 1)):
                bad = '%d clauses for m=%d parities of width %d' % (len(cls), m, k)
            elif plant and not any(lib.cnf_sat(a, cls) for a in lib.assignments(n)):
                bad = 'no planted assignment satisfies the output'
        if bad:
            ctx.violation('counterexample', 'cnfgen %s: %s' % (' '.join(c), bad), dict(input=descr, stdout=so[:600]), True,
                          site='cli-' + name, cls=classify(bad))
