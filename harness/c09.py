"""C09 -- shuffling is a signed renaming of variables plus a reordering of clauses.

Correspondence: Shuffle (library), cnfshuffle and `cnfgen ... -T shuffle` are
compared, exactly (variable count and ordered clause list), with the extracted
Coq model (coq/Shuffle.v) on
  * explicit arguments: valid ones (list / tuple / range, every fixed/given
    combination) and every kind of invalid one (exception class and message);
  * the random path: the draws the code makes (random.choice / random.shuffle)
    are recorded by wrapping the two functions of the `random` module -- in this
    process for the library, in a child process (harness/c09_child.py) for the
    command line tools -- and the output must equal `shuffle F witness`.
On a disagreement the harness looks for an input on which the property itself
fails: output different from an independent re-computation with the given
arguments, or no signed renaming + clause permutation relating input and
output (exhaustive for <= 6 variables), or different variable count / clause
count / width multiset / model count."""
import contextlib
import itertools
import json
import os
import random as _random
import subprocess
import tempfile
from collections import Counter

import lib
from lib import cmd, outcome, is_error, import_impl, Sym

META = dict(
    technique='Coq theorems (shuffle_is_signed_renaming, validate_spec, shuffle_placement, model_count_preserved, '
              'fixed_is_identity) + extracted-model differential check with recorded random draws as witness',
    category='proof',
    text='Machine-checked theorems state, for every CNF and every explicit or drawn flips / variable permutation / clause '
         'permutation, that the model of Shuffle accepts exactly the +-1 vectors and permutations of the right length, and '
         'that its output is the input renamed by one signed bijection of the variables and rearranged by the given clause '
         'permutation (hence same variable count, clause count, width multiset and number of models); the model is tied to '
         'the code by exact comparison on explicit valid and invalid arguments and, for the random path of the library, of '
         'cnfshuffle and of -T shuffle, by recording the draws of the random module and replaying them in the model.',
    note='Trusted: Coq kernel, extraction, OCaml driver, the harness and its wrappers of random.choice/random.shuffle (they '
         'call the original functions). The contract of the random module (shuffle permutes its argument, choice returns an '
         'element) is checked at run time on the recorded draws only. Float/str arguments are outside the documented types '
         'and only tallied.',
    design_ref='5/C09',
)
RULE = ('one case = one call of Shuffle / one run of a command line tool; non-trivial when the formula has a non-empty '
        'clause; distinct = distinct (stream, formula, arguments or seed) keys')
TRUSTED = ['harness/c09_child.py: wrapper of random.choice/random.shuffle in the child process',
           'Python reference re-computation and renaming search used only after a disagreement']

MSG = {'flips': 'polarity_flips is either', 'variables': 'variables_permutation is either',
       'clauses': 'clauses_permutation is either'}


# --------------------------------------------------------------------------
# independent reference / property search
# --------------------------------------------------------------------------
def reference_shuffle(N, F, flips, perm, cperm):
    """what the documentation says, for valid arguments ('fixed' or sequences)"""
    flips = [1] * N if flips == 'fixed' else list(flips)
    perm = list(range(1, N + 1)) if perm == 'fixed' else list(perm)
    cperm = list(range(len(F))) if cperm == 'fixed' else list(cperm)
    out = [None] * len(F)
    for i, c in enumerate(F):
        out[cperm[i]] = [(1 if l > 0 else -1) * flips[abs(l) - 1] * perm[abs(l) - 1] for l in c]
    return out


def model_count(N, F):
    if N > 16:
        return None
    full = (1 << (1 << N)) - 1
    T = [None]
    for i in range(N):
        t = ((1 << (1 << i)) - 1) << (1 << i)
        w = 1 << (i + 1)
        while w < (1 << N):
            t |= t << w
            w *= 2
        T.append(t)
    out = full
    for c in F:
        t = 0
        for l in c:
            t |= T[l] if l > 0 else (full & ~T[-l])
        out &= t
    return bin(out).count('1')


def invariants_fail(N, F, n_out, out):
    """the consequences named in the property; returns a description or None"""
    try:
        if n_out != N:
            return 'number of variables %r != %r' % (n_out, N)
        if len(out) != len(F):
            return 'number of clauses %d != %d' % (len(out), len(F))
        if sorted(len(c) for c in out) != sorted(len(c) for c in F):
            return 'multiset of clause widths differs'
        if any((not isinstance(l, int)) or l == 0 or abs(l) > N for c in out for l in c):
            return 'literal outside 1..N'
        a, b = model_count(N, F), model_count(N, out)
        if a is not None and a != b:
            return 'number of satisfying assignments %d != %d' % (b, a)
    except Exception as e:
        return 'malformed output: %r' % (e,)
    return None


def find_renaming(N, F, out, modes=('shuffle', 'shuffle', 'shuffle')):
    """a (flips, perm) such that out is F renamed -- up to clause order, or in the same order
    when the clause permutation is switched off; flips / perm restricted to the identity when
    switched off.  None if there is none; 'skipped' when the search space is too large."""
    import math
    size = (1 if modes[0] == 'fixed' else 2 ** N) * (1 if modes[1] == 'fixed' else math.factorial(N))
    if size > 50000:
        return 'skipped'
    ordered = modes[2] == 'fixed'
    target = [tuple(c) for c in out] if ordered else Counter(tuple(c) for c in out)
    perms = [tuple(range(1, N + 1))] if modes[1] == 'fixed' else itertools.permutations(range(1, N + 1))
    for perm in perms:
        for flips in ([(1,) * N] if modes[0] == 'fixed' else itertools.product([1, -1], repeat=N)):
            img = [tuple((1 if l > 0 else -1) * flips[abs(l) - 1] * perm[abs(l) - 1] for l in c) for c in F]
            if (img if ordered else Counter(img)) == target:
                return list(flips), list(perm)
    return None


# --------------------------------------------------------------------------
# inputs
# --------------------------------------------------------------------------
def random_cnf(rng, maxn=8, maxm=8, maxw=4):
    N = rng.randint(0, maxn)
    m = rng.randint(0, maxm)
    used = N if rng.random() < 0.6 else rng.randint(0, N)
    F = []
    for _ in range(m):
        w = rng.randint(0, maxw) if used else 0
        c = [rng.choice([1, -1]) * rng.randint(1, used) for _ in range(w)]
        if w >= 2 and rng.random() < 0.2:
            c[rng.randrange(w)] = -c[0] if rng.random() < 0.5 else c[0]
        F.append(c)
    return N, F


def valid_args(rng, N, M):
    fl = 'fixed' if rng.random() < 0.3 else [rng.choice([1, -1]) for _ in range(N)]
    pm = 'fixed' if rng.random() < 0.3 else rng.sample(range(1, N + 1), N)
    cp = 'fixed' if rng.random() < 0.3 else rng.sample(range(M), M)
    return fl, pm, cp


def container(rng, x, ctx, what):
    """the same sequence as list, tuple or (when it is one) range"""
    if x == 'fixed':
        ctx.tally(what + ' given as', "'fixed'")
        return x
    r = rng.random()
    if r < 0.3:
        ctx.tally(what + ' given as', 'tuple')
        return tuple(x)
    if r < 0.45 and len(x) >= 1 and all(x[i + 1] == x[i] + 1 for i in range(len(x) - 1)):
        ctx.tally(what + ' given as', 'range')
        return range(x[0], x[-1] + 1)
    ctx.tally(what + ' given as', 'list')
    return list(x)


def invalid_args(rng, N, M):
    """list of (kind, flips, perm, cperm); the model decides which error is expected"""
    out = []
    vf, vp, vc = [rng.choice([1, -1]) for _ in range(N)], rng.sample(range(1, N + 1), N), rng.sample(range(M), M)
    # flips
    out.append(('flips-too-long', vf + [1], vp, vc))
    if N >= 1:
        out.append(('flips-too-short', vf[:-1], vp, vc))
        for bad in (0, 2, -2, 3):
            f = list(vf)
            f[rng.randrange(N)] = bad
            out.append(('flips-entry-%d' % bad, f, vp, vc))
    # variable permutation
    out.append(('perm-too-long', vf, vp + [N + 1], vc))
    if N >= 1:
        out.append(('perm-too-short', vf, vp[:-1], vc))
        out.append(('perm-zero-based', vf, [x - 1 for x in vp], vc))
        p = list(vp)
        p[rng.randrange(N)] = N + 1
        out.append(('perm-out-of-range', vf, p, vc))
        p = list(vp)
        p[rng.randrange(N)] = -p[0] if N == 1 else -p[1]
        out.append(('perm-negative-entry', vf, p, vc))
    if N >= 2:
        p = list(vp)
        p[0] = p[1]
        out.append(('perm-duplicate', vf, p, vc))
    # clause permutation
    out.append(('cperm-too-long', vf, vp, vc + [M]))
    if M >= 1:
        out.append(('cperm-too-short', vf, vp, vc[:-1]))
        out.append(('cperm-one-based', vf, vp, [x + 1 for x in vc]))
        c = list(vc)
        c[rng.randrange(M)] = -1
        out.append(('cperm-negative-entry', vf, vp, c))
    if M >= 2:
        c = list(vc)
        c[0] = c[1]
        out.append(('cperm-duplicate', vf, vp, c))
    # two invalid arguments at once: the first one checked wins
    out.append(('flips-and-perm', vf + [1], vp + [N + 1], vc))
    out.append(('perm-and-cperm', vf, vp + [N + 1], vc + [M]))
    out.append(('flips-and-cperm', vf + [-1], 'fixed', vc + [M]))
    return out


def to_model(x):
    return Sym('fixed') if x == 'fixed' else [Sym('given'), [int(v) for v in x]]


def jsonable(x):
    return x if x == 'fixed' else list(x)


def build(CNF, N, F):
    G = CNF()
    G.update_variable_number(N)
    for c in F:
        G.add_clause(c)
    return G


def observe(thunk):
    r = outcome(thunk)
    if r[0] != 'ok':
        return r
    H = r[1]
    return ('ok', H.number_of_variables(), [list(c) for c in H])


def model_view(rep):
    if rep[0] == 'ok':
        return ('ok', rep[1], rep[2])
    return ('exc', 'ValueError', rep[1])


# --------------------------------------------------------------------------
# recording the draws
# --------------------------------------------------------------------------
@contextlib.contextmanager
def recorded_draws(draws):
    """wrap random.choice / random.shuffle (the functions shuffle.py calls through the
    module object); the wrappers call the originals and return their results unchanged"""
    ch, sh = _random.choice, _random.shuffle

    def choice(seq):
        r = ch(seq)
        draws.append(['choice', r])
        return r

    def shuffle(x, *a, **k):
        sh(x, *a, **k)
        draws.append(['shuffle', list(x)])
    _random.choice, _random.shuffle = choice, shuffle
    try:
        yield
    finally:
        _random.choice, _random.shuffle = ch, sh


def decode_witness(draws, N, M, modes, tail=False):
    """modes: three of 'fixed'/'shuffle'.  Returns (flips, perm, cperm) or None when the draws
    do not have the shape N x choice, shuffle, shuffle"""
    need = (N if modes[0] == 'shuffle' else 0) + (modes[1] == 'shuffle') + (modes[2] == 'shuffle')
    if tail:
        draws = draws[len(draws) - need:] if need else []
    if len(draws) != need:
        return None
    i = 0
    fl = pm = cp = 'fixed'
    if modes[0] == 'shuffle':
        if any(d[0] != 'choice' for d in draws[:N]):
            return None
        fl = [d[1] for d in draws[:N]]
        i = N
    if modes[1] == 'shuffle':
        if draws[i][0] != 'shuffle':
            return None
        pm = draws[i][1]
        i += 1
    if modes[2] == 'shuffle':
        if draws[i][0] != 'shuffle':
            return None
        cp = draws[i][1]
    return fl, pm, cp


# --------------------------------------------------------------------------
# judging
# --------------------------------------------------------------------------
def judge_explicit(ctx, descr, N, F, fl, pm, cp, got, rep):
    if is_error(rep):
        ctx.violation('correspondence', 'model error', dict(input=descr, model=rep), False, site='model-error', cls='explicit')
        return
    model = model_view(rep)
    if got[0] == 'ok' and model[0] == 'ok':
        if got[1] == model[1] and got[2] == model[2]:
            return
        ctx.disagreements_checked += 1
        ref = reference_shuffle(N, F, fl, pm, cp)
        if got[2] != ref or got[1] != N:
            ctx.violation('counterexample', 'explicit flips/permutations are not applied as given',
                          dict(input=descr, implementation=[got[1], got[2]], expected=[N, ref]), True,
                          site='Shuffle', cls='explicit-arguments')
        else:
            ctx.violation('correspondence', 'output differs from the model (Shuffle.v) but matches the documented placement',
                          dict(input=descr, implementation=[got[1], got[2]], model=[model[1], model[2]],
                               correspondence='Shuffle.v <-> shuffle.py:Shuffle'), False, site='Shuffle', cls='model-differs')
        return
    if got[0] == 'ok':
        ctx.disagreements_checked += 1
        ctx.violation('counterexample', 'an invalid %s argument is accepted' % model[2],
                      dict(input=descr, implementation=[got[1], got[2]], model=list(model)), True,
                      site='Shuffle', cls='invalid-accepted-' + model[2])
        return
    if model[0] == 'ok':
        ctx.disagreements_checked += 1
        ctx.violation('counterexample', 'Shuffle raised %s on valid arguments' % got[1],
                      dict(input=descr, implementation=list(got), model=[model[1], model[2]]), True,
                      site='Shuffle', cls='raises-' + got[1])
        return
    if got[1] != 'ValueError' or not got[2].startswith(MSG[model[2]]):
        ctx.disagreements_checked += 1
        ctx.violation('correspondence', 'invalid argument rejected with %s(%r); the model says ValueError about %s'
                      % (got[1], got[2][:60], model[2]), dict(input=descr, implementation=list(got), model=list(model)),
                      False, site='Shuffle', cls='error-class-or-message')


def judge_random(ctx, stream, descr, N, F, modes, draws, got, tail=False, site='Shuffle'):
    """got: ('ok', numvar, clauses) of a run whose draws were recorded"""
    wit = decode_witness(draws, N, len(F), modes, tail=tail)
    if wit is not None:
        rep = ctx.model.call(Sym('shuffle'), N, F, *[to_model(x) for x in wit])
        if not is_error(rep):
            model = model_view(rep)
            if model[0] == 'ok' and got[1] == model[1] and got[2] == model[2]:
                # the switches: a 'fixed' argument must really be the identity (checked by the model: ShFixed)
                return
    ctx.disagreements_checked += 1
    why = invariants_fail(N, F, got[1], got[2])
    ren = None if why else find_renaming(N, F, got[2])
    replay = dict(input=descr, draws=(draws or [])[:40], witness=wit, implementation=[got[1], got[2]])
    if why is not None or ren is None:
        ctx.violation('counterexample', 'the output is not a signed renaming + clause reordering of the input: %s'
                      % (why or 'no consistent flips/permutation exists'), replay, True, site=site, cls='not-a-shuffle')
        return
    # is there a renaming that respects the switched-off arguments?
    ren_sw = find_renaming(N, F, got[2], modes)
    if ren_sw is None:
        ctx.violation('counterexample', 'a switched-off argument (modes %r) was not left alone' % (modes,),
                      dict(replay, some_renaming=ren), True, site=site, cls='switch-ignored')
        return
    ctx.violation('correspondence', 'the output is a shuffle of the input but not the one given by the recorded draws '
                  '(draw protocol of Shuffle changed?); Shuffle.v no longer mirrors the code',
                  dict(replay, renaming=ren_sw, correspondence='Shuffle.v <-> shuffle.py:Shuffle (random path)'), False,
                  site=site, cls='witness-mismatch')


# --------------------------------------------------------------------------
# command line
# --------------------------------------------------------------------------
def parse_dimacs(text):
    n = None
    F = []
    cur = []
    for ln in text.split('\n'):
        ln = ln.strip()
        if not ln or ln[0] == 'c':
            continue
        if ln[0] == 'p':
            n = int(ln.split()[2])
            continue
        for tok in ln.split():
            v = int(tok)
            if v == 0:
                F.append(cur)
                cur = []
            else:
                cur.append(v)
    return n, F


def dimacs(N, F):
    return 'p cnf %d %d\n' % (N, len(F)) + ''.join(' '.join(str(l) for l in c + [0]) + '\n' for c in F)


def child(tool, argv, stdin=None):
    """run harness/c09_child.py; returns (rc, stdout, stderr, draws)"""
    fd, path = tempfile.mkstemp(prefix='c09draws')
    os.close(fd)
    env = dict(os.environ, PYTHONPATH=lib.REPO, PYTHONHASHSEED='0', C09_DRAWS=path)
    script = os.path.join(lib.ROOT, 'harness', 'c09_child.py')
    try:
        p = subprocess.run([lib.PY, '-W', 'ignore', script, tool] + [str(a) for a in argv], cwd=lib.REPO, env=env,
                           input=stdin.encode() if stdin is not None else None,
                           stdout=subprocess.PIPE, stderr=subprocess.PIPE, timeout=120)
        try:
            draws = json.load(open(path))
        except Exception:
            draws = None
        return p.returncode, p.stdout.decode(), p.stderr.decode(), draws
    finally:
        os.unlink(path)


SWITCHES = [(p, v, c) for p in (False, True) for v in (False, True) for c in (False, True)]


def switch_args(sw, long=False):
    names = ['--no-polarity-flips', '--no-variables-permutation', '--no-clauses-permutation'] if long else ['-p', '-v', '-c']
    return [n for n, on in zip(names, sw) if on]


def run_cli(ctx, quick):
    rng = ctx.rng
    # cnfshuffle
    nform = 2 if quick else 8
    for fi in range(nform):
        N, F = random_cnf(rng, maxn=6, maxm=7)
        if fi == 0:
            N, F = 4, [[1, -2], [], [3, 3], [-1, 2, 2]]     # empty clause, unused variable 4, repeated literal
        text = dimacs(N, F)
        fd, path = tempfile.mkstemp(prefix='c09in', suffix='.cnf')
        os.write(fd, text.encode())
        os.close(fd)
        try:
            for si, sw in enumerate(SWITCHES):
                seed = rng.randint(0, 10 ** 6)
                use_stdin = (si % 4 == 3)
                argv = ['-q', '-S', seed] + switch_args(sw, long=(si % 2 == 1)) + ([] if use_stdin else ['-i', path])
                rc, out, err, draws = child('cnfshuffle', argv, stdin=text if use_stdin else None)
                modes = ['fixed' if on else 'shuffle' for on in sw]
                descr = dict(tool='cnfshuffle', argv=[str(a) for a in argv], numvar=N, clauses=F)
                ctx.count('cli-cnfshuffle', (fi, str(argv)), any(len(c) for c in F), sample=descr)
                ctx.tally('cnfshuffle switches', ''.join(switch_args(sw)) or 'none')
                if rc != 0 or draws is None:
                    ctx.disagreements_checked += 1
                    ctx.violation('counterexample', 'cnfshuffle exits with %s on a valid input' % rc,
                                  dict(input=descr, stderr=err[-400:]), True, site='cnfshuffle', cls='exit-code')
                    continue
                n1, F1 = parse_dimacs(out)
                judge_random(ctx, 'cli-cnfshuffle', descr, N, F, modes, draws, ('ok', n1, F1), tail=True, site='cnfshuffle')
        finally:
            os.unlink(path)
    # cnfgen ... -T shuffle
    fams = [['php', 3, 2], ['op', 3]] if quick else [['php', 3, 2], ['op', 3], ['php', 4, 3], ['parity', 4]]
    for fam in fams:
        rc0, out0, err0, _ = child('cnfgen', ['-q'] + fam)
        N, F = parse_dimacs(out0)
        for si, sw in enumerate(SWITCHES):
            if quick and si % 2 == 1 and fam != fams[0]:
                continue
            seed = rng.randint(1, 10 ** 6)
            argv = ['-q', '--seed', seed] + fam + ['-T', 'shuffle'] + switch_args(sw, long=(si % 2 == 0))
            rc, out, err, draws = child('cnfgen', argv)
            modes = ['fixed' if on else 'shuffle' for on in sw]
            descr = dict(tool='cnfgen', argv=[str(a) for a in argv], numvar=N, clauses=F)
            ctx.count('cli-T-shuffle', str(argv), True, sample=descr)
            ctx.tally('-T shuffle switches', ''.join(switch_args(sw)) or 'none')
            if rc0 != 0 or rc != 0 or draws is None:
                ctx.disagreements_checked += 1
                ctx.violation('counterexample', 'cnfgen exits with %s on a valid command line' % rc,
                              dict(input=descr, stderr=err[-400:]), True, site='cnfgen -T shuffle', cls='exit-code')
                continue
            n1, F1 = parse_dimacs(out)
            judge_random(ctx, 'cli-T-shuffle', descr, N, F, modes, draws, ('ok', n1, F1), tail=True, site='cnfgen -T shuffle')


# --------------------------------------------------------------------------
def run(ctx):
    import_impl()
    from cnfgen.formula.cnf import CNF
    from cnfgen.transformations.shuffle import Shuffle
    import cnfgen
    quick = ctx.tier == 'quick'
    rng = ctx.rng

    # ---- stream 1: explicit valid arguments ----
    nform = 150 if quick else 1500
    formulas = [(0, []), (0, [[]]), (3, [[1], [], [1]]), (2, [[1, -1], [2, 2]])] + [random_cnf(rng) for _ in range(nform)]
    jobs = []
    for idx, (N, F) in enumerate(formulas):
        M = len(F)
        ctx.tally('formula variables', N)
        ctx.tally('formula clauses', M)
        G = build(CNF, N, F)
        for rep_i in range(2):
            fl, pm, cp = valid_args(rng, N, M)
            if idx % 10 == 0 and rep_i == 0:
                fl = pm = cp = 'fixed'
            a, b, c = container(rng, fl, ctx, 'flips'), container(rng, pm, ctx, 'variable permutation'), \
                container(rng, cp, ctx, 'clause permutation')
            descr = dict(numvar=N, clauses=F, polarity_flips=jsonable(fl), variables_permutation=jsonable(pm),
                         clauses_permutation=jsonable(cp))
            jobs.append(('explicit-valid', descr, N, F, fl, pm, cp,
                         (lambda G=G, a=a, b=b, c=c: Shuffle(G, a, b, c)), (idx, rep_i)))
        if idx % 3 == 0:
            for kind, fl, pm, cp in invalid_args(rng, N, M):
                ctx.tally('invalid argument kind', kind)
                descr = dict(kind=kind, numvar=N, clauses=F, polarity_flips=jsonable(fl), variables_permutation=jsonable(pm),
                             clauses_permutation=jsonable(cp))
                jobs.append(('explicit-invalid', descr, N, F, fl, pm, cp,
                             (lambda G=G, a=fl, b=pm, c=cp: Shuffle(G, a, b, c)), (idx, kind)))
    reqs = [cmd('shuffle', j[2], j[3], to_model(j[4]), to_model(j[5]), to_model(j[6])) for j in jobs]
    for (stream, descr, N, F, fl, pm, cp, thunk, key), rep in zip(jobs, ctx.model.batch(reqs)):
        ctx.count(stream, key, any(len(c) for c in F), sample=descr)
        got = observe(thunk)
        if stream == 'explicit-invalid' and not is_error(rep) and rep[0] == 'ok':
            ctx.note('generator produced a valid argument in the invalid stream: %s' % descr['kind'])
        judge_explicit(ctx, descr, N, F, fl, pm, cp, got, rep)

    # ---- stream 2: arguments outside the documented types (tallied, never an alarm) ----
    N, F = 3, [[1, -2], [3]]
    G = build(CNF, N, F)
    for name, args in [('float permutation', ('fixed', [1.0, 2.0, 3.0], 'fixed')), ('float flips', ([1.0, -1.0, 1.0], 'fixed', 'fixed')),
                       ('string flips', ('foo', 'fixed', 'fixed')), ('string permutation', ('fixed', 'abc', 'fixed')),
                       ('None flips', (None, 'fixed', 'fixed')), ('bool flips', ([True, True, True], 'fixed', 'fixed'))]:
        r = outcome(lambda: Shuffle(G, *args))
        ctx.tally('outside documented types: ' + name, 'accepted' if r[0] == 'ok' else r[1])

    # ---- stream 3: the random path of the library, draws recorded in process ----
    nrand = 60 if quick else 600
    for idx in range(nrand):
        N, F = random_cnf(rng) if idx >= 2 else [(0, [[]]), (4, [[1, -2], [], [3, 3], [-1, 2, 2]])][idx]
        G = build(CNF, N, F)
        for sw in (SWITCHES if idx % 4 == 0 else [rng.choice(SWITCHES)]):
            modes = ['fixed' if on else 'shuffle' for on in sw]
            seed = rng.randint(0, 10 ** 9)
            draws = []
            state = _random.getstate()
            _random.seed(seed)
            try:
                with recorded_draws(draws):
                    got = observe(lambda: Shuffle(G, *modes))
            finally:
                _random.setstate(state)
            descr = dict(numvar=N, clauses=F, modes=modes, seed=seed)
            ctx.count('random-library', (idx, str(modes), seed), any(len(c) for c in F), sample=descr)
            ctx.tally('random path switches (p,v,c off)', ''.join('pvc'[i] for i in range(3) if sw[i]) or 'none')
            if got[0] != 'ok':
                ctx.disagreements_checked += 1
                ctx.violation('counterexample', 'Shuffle raised %s on the random path' % got[1],
                              dict(input=descr, implementation=list(got)), True, site='Shuffle', cls='raises-' + got[1])
                continue
            judge_random(ctx, 'random-library', descr, N, F, modes, draws, got)
    # a medium formula through the random path
    for fam, args in [('PigeonholePrinciple', (6, 5)), ('OrderingPrinciple', (6,))]:
        G = getattr(cnfgen, fam)(*args)
        N, F = G.number_of_variables(), [list(c) for c in G]
        draws = []
        state = _random.getstate()
        _random.seed(rng.randint(0, 10 ** 9))
        try:
            with recorded_draws(draws):
                got = observe(lambda: Shuffle(G))
        finally:
            _random.setstate(state)
        descr = dict(formula='%s%r' % (fam, args), modes=['shuffle'] * 3)
        ctx.count('random-library', descr['formula'], True, sample=descr)
        if got[0] != 'ok':
            ctx.disagreements_checked += 1
            ctx.violation('counterexample', 'Shuffle raised %s on the random path' % got[1],
                          dict(input=descr, implementation=list(got)), True, site='Shuffle', cls='raises-' + got[1])
            continue
        judge_random(ctx, 'random-library', descr, N, F, ['shuffle'] * 3, draws, got)

    # ---- stream 4: command line tools, draws recorded in the child process ----
    run_cli(ctx, quick)
    drop_redundant(ctx)
    ctx.exhaustive = False


def drop_redundant(ctx):
    """a site for which a failing input was found needs no extra 'model differs' line"""
    bad = {v['site'] for v in ctx.violations if v['kind'] == 'counterexample'}
    ctx.violations = [v for v in ctx.violations if not (v['kind'] == 'correspondence' and v['site'] in bad)]


def replay(ctx, rp):
    import_impl()
    from cnfgen.formula.cnf import CNF
    from cnfgen.transformations.shuffle import Shuffle
    d = rp.get('input', {})
    if 'polarity_flips' not in d:
        return run(ctx)
    N, F = d['numvar'], d['clauses']
    fl, pm, cp = d['polarity_flips'], d['variables_permutation'], d['clauses_permutation']
    G = build(CNF, N, F)
    rep = ctx.model.call(Sym('shuffle'), N, F, to_model(fl), to_model(pm), to_model(cp))
    ctx.count('replay', 'replay', True, sample=d)
    judge_explicit(ctx, d, N, F, fl, pm, cp, observe(lambda: Shuffle(G, fl, pm, cp)), rep)
