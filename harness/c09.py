"""C09 -- shuffling is a signed renaming of variables plus a reordering of clauses.

Correspondence: Shuffle (library), cnfshuffle and `cnfgen ... -T shuffle` are
compared, exactly (variable count and ordered clause list), with the extracted
Coq model (coq/Shuffle.v) on
  * explicit arguments: valid ones (list / tuple / range, every fixed/given
    combination) and every kind of invalid one (exception class and message);
  * the random path: the draws the code makes (random.choice / random.shuffle)
    are recorded by wrapping the two functions of the `random` module -- in this
    process for the library, in a child process (harness/c09_child.py) for the
    command line tools -- and the output must equal `shuffle F witness`.
On a disagreement the harness looks for an input on which the property itself
fails: output different from an independent re-computation with the given
arguments, or no signed renaming + clause permutation relating input and
output (exhaustive for <= 6 variables), or different variable count / clause
count / width multiset / model count.

Streams added by the strengthening round (notes/LARGE_STREAMS.md), run FIRST as a corpus:
  thresholds-explicit   valid explicit flips / permutations for N, M in {255,256,257,258,300,1000} (list, tuple,
                        range, reversed range, every 'fixed' combination), applied exactly as given;
  thresholds-invalid    the same sizes with one defect at the first / 256th / last position, wrong lengths, and
                        near-miss multisets (x+{0,4,5} replaced by x+{1,2,6}: same sum and sum of squares);
  near-miss-invalid     N, M = 7..10 (thorough: ..12): EVERY multiset over 0..N+1 with the sum and the sum of squares
                        of 1..N, in several orders; one duplicate + one missing; one entry replaced by 0 / N+1;
  degenerate            0 variables with k empty clauses, formulas whose variables all come from their clauses (no
                        declared extra variable), through the library (explicit and random path), cnfshuffle, -T shuffle;
  thresholds-random     the random path (library, cnfshuffle, -T shuffle) with 256..1000 variables / clauses;
  history               one formula object shuffled, edited through its public API (clauses naming new variables,
                        raises by several units) and shuffled again; shuffles of shuffles; the source must not change."""
import contextlib
import itertools
import json
import os
import random as _random
import subprocess
import tempfile
from collections import Counter

import lib
from lib import cmd, outcome, is_error, import_impl, Sym

META = dict(
    technique='Coq theorems (shuffle_is_signed_renaming, validate_spec, shuffle_placement, model_count_preserved, '
              'fixed_is_identity; cnfshuffle_main: the whole tool over any stream of primitive draws, Fisher-Yates always a permutation) '
              '+ extracted-model differential check with recorded random draws as witness, byte for byte for the tool',
    category='proof',
    text='Machine-checked theorems state, for every CNF and every explicit or drawn flips / variable permutation / clause '
         'permutation, that the model of Shuffle accepts exactly the +-1 vectors and permutations of the right length, and '
         'that its output is the input renamed by one signed bijection of the variables and rearranged by the given clause '
         'permutation (hence same variable count, clause count, width multiset and number of models); the model is tied to '
         'the code by exact comparison on explicit valid and invalid arguments and, for the random path of the library, of '
         'cnfshuffle and of -T shuffle, by recording the draws of the random module and replaying them in the model; sizes '
         '255-1000, every near-miss non-permutation of 7-10 entries with the right sum and sum of squares, degenerate '
         'formulas and formula objects edited between two shuffles are part of every run. Prop_C09_chain.v composes the two '
         'whole-program models along the shell pipe `cnfgen <argv> | cnfshuffle <sargv>`: for every command line of the pipeline '
         'grammar, every cnfshuffle command line reading standard input and every stream of draws, what comes out reads back as '
         'a signed renaming and clause permutation of the family model (family + -T chain); the stream `pipe` feeds outputs of '
         'the real cnfgen (equal to the bytes of its model) to the real cnfshuffle and to its model.',
    note='Trusted: Coq kernel, extraction, OCaml driver, the harness and its wrappers of random.choice/random.shuffle (they '
         'call the original functions). The contract of the random module (shuffle permutes its argument, choice returns an '
         'element) is checked at run time on the recorded draws only. Float/str arguments are outside the documented types '
         'and only tallied.',
    design_ref='5/C09',
)
RULE = ('one case = one call of Shuffle / one run of a command line tool; non-trivial when the formula has a non-empty '
        'clause; distinct = distinct (stream, formula, arguments or seed) keys')
TRUSTED = ['harness/c09_child.py: wrapper of random.choice/random.shuffle in the child process', 'harness/c09_main_child.py: recorder subclass of random.Random (getrandbits results in call order)',
           'Python reference re-computation and renaming search used only after a disagreement']

MSG = {'flips': 'polarity_flips is either', 'variables': 'variables_permutation is either',
       'clauses': 'clauses_permutation is either'}


# --------------------------------------------------------------------------
# independent reference / property search
# --------------------------------------------------------------------------
def reference_shuffle(N, F, flips, perm, cperm):
    """what the documentation says, for valid arguments ('fixed' or sequences)"""
    flips = [1] * N if flips == 'fixed' else list(flips)
    perm = list(range(1, N + 1)) if perm == 'fixed' else list(perm)
    cperm = list(range(len(F))) if cperm == 'fixed' else list(cperm)
    out = [None] * len(F)
    for i, c in enumerate(F):
        out[cperm[i]] = [(1 if l > 0 else -1) * flips[abs(l) - 1] * perm[abs(l) - 1] for l in c]
    return out


def model_count(N, F):
    if N > 16:
        return None
    full = (1 << (1 << N)) - 1
    T = [None]
    for i in range(N):
        t = ((1 << (1 << i)) - 1) << (1 << i)
        w = 1 << (i + 1)
        while w < (1 << N):
            t |= t << w
            w *= 2
        T.append(t)
    out = full
    for c in F:
        t = 0
        for l in c:
            t |= T[l] if l > 0 else (full & ~T[-l])
        out &= t
    return bin(out).count('1')


def invariants_fail(N, F, n_out, out):
    """the consequences named in the property; returns a description or None"""
    try:
        if n_out != N:
            return 'number of variables %r != %r' % (n_out, N)
        if len(out) != len(F):
            return 'number of clauses %d != %d' % (len(out), len(F))
        if sorted(len(c) for c in out) != sorted(len(c) for c in F):
            return 'multiset of clause widths differs'
        if any((not isinstance(l, int)) or l == 0 or abs(l) > N for c in out for l in c):
            return 'literal outside 1..N'
        a, b = model_count(N, F), model_count(N, out)
        if a is not None and a != b:
            return 'number of satisfying assignments %d != %d' % (b, a)
    except Exception as e:
        return 'malformed output: %r' % (e,)
    return None


def find_renaming(N, F, out, modes=('shuffle', 'shuffle', 'shuffle')):
    """a (flips, perm) such that out is F renamed -- up to clause order, or in the same order
    when the clause permutation is switched off; flips / perm restricted to the identity when
    switched off.  None if there is none; 'skipped' when the search space is too large."""
    import math
    size = (1 if modes[0] == 'fixed' else 2 ** N) * (1 if modes[1] == 'fixed' else math.factorial(N))
    if size > 50000:
        return 'skipped'
    ordered = modes[2] == 'fixed'
    target = [tuple(c) for c in out] if ordered else Counter(tuple(c) for c in out)
    perms = [tuple(range(1, N + 1))] if modes[1] == 'fixed' else itertools.permutations(range(1, N + 1))
    for perm in perms:
        for flips in ([(1,) * N] if modes[0] == 'fixed' else itertools.product([1, -1], repeat=N)):
            img = [tuple((1 if l > 0 else -1) * flips[abs(l) - 1] * perm[abs(l) - 1] for l in c) for c in F]
            if (img if ordered else Counter(img)) == target:
                return list(flips), list(perm)
    return None


# --------------------------------------------------------------------------
# inputs
# --------------------------------------------------------------------------
def random_cnf(rng, maxn=8, maxm=8, maxw=4):
    N = rng.randint(0, maxn)
    m = rng.randint(0, maxm)
    used = N if rng.random() < 0.6 else rng.randint(0, N)
    F = []
    for _ in range(m):
        w = rng.randint(0, maxw) if used else 0
        c = [rng.choice([1, -1]) * rng.randint(1, used) for _ in range(w)]
        if w >= 2 and rng.random() < 0.2:
            c[rng.randrange(w)] = -c[0] if rng.random() < 0.5 else c[0]
        F.append(c)
    return N, F


def valid_args(rng, N, M):
    fl = 'fixed' if rng.random() < 0.3 else [rng.choice([1, -1]) for _ in range(N)]
    pm = 'fixed' if rng.random() < 0.3 else rng.sample(range(1, N + 1), N)
    cp = 'fixed' if rng.random() < 0.3 else rng.sample(range(M), M)
    return fl, pm, cp


def container(rng, x, ctx, what):
    """the same sequence as list, tuple or (when it is one) range"""
    if x == 'fixed':
        ctx.tally(what + ' given as', "'fixed'")
        return x
    r = rng.random()
    if r < 0.3:
        ctx.tally(what + ' given as', 'tuple')
        return tuple(x)
    if r < 0.45 and len(x) >= 1 and all(x[i + 1] == x[i] + 1 for i in range(len(x) - 1)):
        ctx.tally(what + ' given as', 'range')
        return range(x[0], x[-1] + 1)
    ctx.tally(what + ' given as', 'list')
    return list(x)


def invalid_args(rng, N, M):
    """list of (kind, flips, perm, cperm); the model decides which error is expected"""
    out = []
    vf, vp, vc = [rng.choice([1, -1]) for _ in range(N)], rng.sample(range(1, N + 1), N), rng.sample(range(M), M)
    # flips
    out.append(('flips-too-long', vf + [1], vp, vc))
    if N >= 1:
        out.append(('flips-too-short', vf[:-1], vp, vc))
        for bad in (0, 2, -2, 3):
            f = list(vf)
            f[rng.randrange(N)] = bad
            out.append(('flips-entry-%d' % bad, f, vp, vc))
    # variable permutation
    out.append(('perm-too-long', vf, vp + [N + 1], vc))
    if N >= 1:
        out.append(('perm-too-short', vf, vp[:-1], vc))
        out.append(('perm-zero-based', vf, [x - 1 for x in vp], vc))
        p = list(vp)
        p[rng.randrange(N)] = N + 1
        out.append(('perm-out-of-range', vf, p, vc))
        p = list(vp)
        p[rng.randrange(N)] = -p[0] if N == 1 else -p[1]
        out.append(('perm-negative-entry', vf, p, vc))
    if N >= 2:
        p = list(vp)
        p[0] = p[1]
        out.append(('perm-duplicate', vf, p, vc))
    # clause permutation
    out.append(('cperm-too-long', vf, vp, vc + [M]))
    if M >= 1:
        out.append(('cperm-too-short', vf, vp, vc[:-1]))
        out.append(('cperm-one-based', vf, vp, [x + 1 for x in vc]))
        c = list(vc)
        c[rng.randrange(M)] = -1
        out.append(('cperm-negative-entry', vf, vp, c))
    if M >= 2:
        c = list(vc)
        c[0] = c[1]
        out.append(('cperm-duplicate', vf, vp, c))
    # two invalid arguments at once: the first one checked wins
    out.append(('flips-and-perm', vf + [1], vp + [N + 1], vc))
    out.append(('perm-and-cperm', vf, vp + [N + 1], vc + [M]))
    out.append(('flips-and-cperm', vf + [-1], 'fixed', vc + [M]))
    return out


def to_model(x):
    return Sym('fixed') if x == 'fixed' else [Sym('given'), [int(v) for v in x]]


def jsonable(x):
    return x if x == 'fixed' else list(x)


def build(CNF, N, F):
    G = CNF()
    G.update_variable_number(N)
    for c in F:
        G.add_clause(c)
    return G


def observe(thunk):
    r = outcome(thunk)
    if r[0] != 'ok':
        return r
    H = r[1]
    return ('ok', H.number_of_variables(), [list(c) for c in H])


def model_view(rep):
    if rep[0] == 'ok':
        return ('ok', rep[1], rep[2])
    return ('exc', 'ValueError', rep[1])


# --------------------------------------------------------------------------
# recording the draws
# --------------------------------------------------------------------------
@contextlib.contextmanager
def recorded_draws(draws):
    """wrap random.choice / random.shuffle (the functions shuffle.py calls through the
    module object); the wrappers call the originals and return their results unchanged"""
    ch, sh = _random.choice, _random.shuffle

    def choice(seq):
        r = ch(seq)
        draws.append(['choice', r])
        return r

    def shuffle(x, *a, **k):
        sh(x, *a, **k)
        draws.append(['shuffle', list(x)])
    _random.choice, _random.shuffle = choice, shuffle
    try:
        yield
    finally:
        _random.choice, _random.shuffle = ch, sh


def decode_witness(draws, N, M, modes, tail=False):
    """modes: three of 'fixed'/'shuffle'.  Returns (flips, perm, cperm) or None when the draws
    do not have the shape N x choice, shuffle, shuffle"""
    need = (N if modes[0] == 'shuffle' else 0) + (modes[1] == 'shuffle') + (modes[2] == 'shuffle')
    if tail:
        draws = draws[len(draws) - need:] if need else []
    if len(draws) != need:
        return None
    i = 0
    fl = pm = cp = 'fixed'
    if modes[0] == 'shuffle':
        if any(d[0] != 'choice' for d in draws[:N]):
            return None
        fl = [d[1] for d in draws[:N]]
        i = N
    if modes[1] == 'shuffle':
        if draws[i][0] != 'shuffle':
            return None
        pm = draws[i][1]
        i += 1
    if modes[2] == 'shuffle':
        if draws[i][0] != 'shuffle':
            return None
        cp = draws[i][1]
    return fl, pm, cp


# --------------------------------------------------------------------------
# judging
# --------------------------------------------------------------------------
def judge_explicit(ctx, descr, N, F, fl, pm, cp, got, rep):
    if is_error(rep):
        ctx.violation('correspondence', 'model error', dict(input=descr, model=rep), False, site='model-error', cls='explicit')
        return
    model = model_view(rep)
    if got[0] == 'ok' and model[0] == 'ok':
        if got[1] == model[1] and got[2] == model[2]:
            return
        ctx.disagreements_checked += 1
        ref = reference_shuffle(N, F, fl, pm, cp)
        if got[2] != ref or got[1] != N:
            ctx.violation('counterexample', 'explicit flips/permutations are not applied as given',
                          dict(input=descr, implementation=[got[1], got[2]], expected=[N, ref]), True,
                          site='Shuffle', cls='explicit-arguments')
        else:
            ctx.violation('correspondence', 'output differs from the model (Shuffle.v) but matches the documented placement',
                          dict(input=descr, implementation=[got[1], got[2]], model=[model[1], model[2]],
                               correspondence='Shuffle.v <-> shuffle.py:Shuffle'), False, site='Shuffle', cls='model-differs')
        return
    if got[0] == 'ok':
        ctx.disagreements_checked += 1
        ctx.violation('counterexample', 'an invalid %s argument is accepted' % model[2],
                      dict(input=descr, implementation=[got[1], got[2]], model=list(model)), True,
                      site='Shuffle', cls='invalid-accepted-' + model[2])
        return
    if model[0] == 'ok':
        ctx.disagreements_checked += 1
        ctx.violation('counterexample', 'Shuffle raised %s on valid arguments' % got[1],
                      dict(input=descr, implementation=list(got), model=[model[1], model[2]]), True,
                      site='Shuffle', cls='raises-' + got[1])
        return
    if got[1] != 'ValueError' or not got[2].startswith(MSG[model[2]]):
        ctx.disagreements_checked += 1
        ctx.violation('correspondence', 'invalid argument rejected with %s(%r); the model says ValueError about %s'
                      % (got[1], got[2][:60], model[2]), dict(input=descr, implementation=list(got), model=list(model)),
                      False, site='Shuffle', cls='error-class-or-message')


def judge_random(ctx, stream, descr, N, F, modes, draws, got, tail=False, site='Shuffle'):
    """got: ('ok', numvar, clauses) of a run whose draws were recorded"""
    wit = decode_witness(draws, N, len(F), modes, tail=tail)
    if wit is not None:
        rep = ctx.model.call(Sym('shuffle'), N, F, *[to_model(x) for x in wit])
        if not is_error(rep):
            model = model_view(rep)
            if model[0] == 'ok' and got[1] == model[1] and got[2] == model[2]:
                # the switches: a 'fixed' argument must really be the identity (checked by the model: ShFixed)
                return
    ctx.disagreements_checked += 1
    why = invariants_fail(N, F, got[1], got[2])
    ren = None if why else find_renaming(N, F, got[2])
    replay = dict(input=descr, draws=(draws or [])[:40], witness=wit, implementation=[got[1], got[2]])
    if why is not None or ren is None:
        ctx.violation('counterexample', 'the output is not a signed renaming + clause reordering of the input: %s'
                      % (why or 'no consistent flips/permutation exists'), replay, True, site=site, cls='not-a-shuffle')
        return
    # is there a renaming that respects the switched-off arguments?
    ren_sw = find_renaming(N, F, got[2], modes)
    if ren_sw is None:
        ctx.violation('counterexample', 'a switched-off argument (modes %r) was not left alone' % (modes,),
                      dict(replay, some_renaming=ren), True, site=site, cls='switch-ignored')
        return
    ctx.violation('correspondence', 'the output is a shuffle of the input but not the one given by the recorded draws '
                  '(draw protocol of Shuffle changed?); Shuffle.v no longer mirrors the code',
                  dict(replay, renaming=ren_sw, correspondence='Shuffle.v <-> shuffle.py:Shuffle (random path)'), False,
                  site=site, cls='witness-mismatch')


# --------------------------------------------------------------------------
# thresholds / near-miss / degenerate / history streams (notes/LARGE_STREAMS.md)
# --------------------------------------------------------------------------
THRESHOLD_N = [255, 256, 257, 258, 300, 1000]


def fresh(xs):
    """equal values as DISTINCT int objects (CPython shares ints only up to 256)"""
    return [int(str(x)) for x in xs]


def big_cnf(rng, N, M):
    """M clauses over N variables; the literals favour the variables around 255..258 and N"""
    hot = [v for v in (1, 2, 254, 255, 256, 257, 258, N - 2, N - 1, N) if 1 <= v <= N]
    F = []
    for i in range(M):
        w = rng.choice([0, 1, 1, 2, 2, 3])
        if N == 0:
            w = 0
        c = [rng.choice([1, -1]) * (rng.choice(hot) if rng.random() < 0.5 else rng.randint(1, N)) for _ in range(w)]
        if w >= 2 and rng.random() < 0.15:
            c[1] = rng.choice([1, -1]) * abs(c[0])
        F.append(c)
    return F


def same_sum_and_squares(N, lo, hi):
    """all sorted tuples of N entries in lo..hi with the sum and the sum of squares of 1..N, except 1..N itself"""
    S = N * (N + 1) // 2
    Q = N * (N + 1) * (2 * N + 1) // 6
    out = []

    def rec(start, left, s, q, cur):
        if left == 0:
            if s == 0 and q == 0:
                out.append(tuple(cur))
            return
        for v in range(start, hi + 1):
            if v > 0 and (v * left > s or v * v * left > q):
                break
            cur.append(v)
            rec(v, left - 1, s - v, q - v * v, cur)
            cur.pop()
    rec(lo, N, S, Q, [])
    ident = tuple(range(1, N + 1))
    return [m for m in out if m != ident]


def orders(rng, ms, quick):
    """several arrangements of one multiset"""
    a = list(ms)
    out = [('sorted', list(a)), ('reversed', list(reversed(a)))]
    for _ in range(1 if quick else 3):
        b = list(a)
        rng.shuffle(b)
        out.append(('random-order', b))
    return out


def pte_near_miss(N, x):
    """1..N with x, x+4, x+5 replaced by x+1, x+2, x+6 (Prouhet-Tarry-Escott): same length, sum, sum of squares"""
    l = list(range(1, N + 1))
    for a, b in ((x, x + 1), (x + 4, x + 2), (x + 5, x + 6)):
        l[a - 1] = b
    return l


def large_jobs(ctx, quick, CNF, Shuffle):
    rng = ctx.rng
    jobs = []

    def add(stream, tag, G, N, F, fl, pm, cp, key, conts=('list', 'list', 'list')):
        def wrap(x, c):
            if x == 'fixed':
                return x
            if c == 'tuple':
                return tuple(fresh(x))
            if c == 'range':
                return range(x[0], x[-1] + 1)
            if c == 'range-reversed':
                return range(x[0], x[-1] - 1, -1)
            return fresh(x)
        a, b, c = wrap(fl, conts[0]), wrap(pm, conts[1]), wrap(cp, conts[2])
        for what, x, cn in (('flips', fl, conts[0]), ('variable permutation', pm, conts[1]), ('clause permutation', cp, conts[2])):
            ctx.tally(stream + ': ' + what + ' given as', "'fixed'" if x == 'fixed' else cn)
        ctx.tally(stream + ': case', tag)
        descr = dict(kind=tag, numvar=N, clauses=F, polarity_flips=jsonable(fl), variables_permutation=jsonable(pm),
                     clauses_permutation=jsonable(cp))
        jobs.append((stream, descr, N, F, fl, pm, cp, (lambda: Shuffle(G, a, b, c)), key))

    # ---- valid explicit arguments at the threshold sizes ----
    sizes = [(257, 256), (256, 300), (258, 257), (255, 17), (300, 258), (1000, 255), (257, 257), (256, 0), (1000, 1000)] if quick else \
        [(n, m) for n in THRESHOLD_N for m in (0, 17, 255, 256, 257, 258, 300, 1000) if (n + m) % 2 == 0 or m in (256, 257)]
    for si, (N, M) in enumerate(sizes):
        F = big_cnf(rng, N, M)
        G = build(CNF, N, F)
        ctx.tally('thresholds: formula variables', N)
        ctx.tally('thresholds: formula clauses', M)
        ident, cident = list(range(1, N + 1)), list(range(M))
        variants = [
            ('random', [rng.choice([1, -1]) for _ in range(N)], rng.sample(ident, N), rng.sample(cident, M), ('list', 'list', 'list')),
            ('random-as-tuples', [rng.choice([1, -1]) for _ in range(N)], rng.sample(ident, N), rng.sample(cident, M), ('tuple', 'tuple', 'tuple')),
            ('identity-as-range', [1] * N, ident, cident, ('list', 'range', 'range')),
            ('reversal-as-range', [-1] * N, ident[::-1], cident[::-1], ('tuple', 'range-reversed', 'range-reversed')),
            ('only-flips', [rng.choice([1, -1]) for _ in range(N)], 'fixed', 'fixed', ('list',) * 3),
            ('only-variables', 'fixed', rng.sample(ident, N), 'fixed', ('list',) * 3),
            ('only-clauses', 'fixed', 'fixed', rng.sample(cident, M), ('list',) * 3),
            ('swap-last-two', 'fixed', ident[:-2] + ident[-2:][::-1], cident[:-2] + cident[-2:][::-1], ('list',) * 3),
            ('all-fixed', 'fixed', 'fixed', 'fixed', ('list',) * 3),
        ]
        if M == 0:
            variants = [v for v in variants if v[0] not in ('reversal-as-range', 'identity-as-range')] + \
                [('identity-as-range', [1] * N, ident, 'fixed', ('list', 'range', 'list'))]
        for tag, fl, pm, cp, conts in variants:
            add('thresholds-explicit', tag, G, N, F, fl, pm, cp, ('thr', si, tag), conts)
        # ---- invalid arguments at the same sizes ----
        vf, vp, vc = [rng.choice([1, -1]) for _ in range(N)], rng.sample(ident, N), rng.sample(cident, M)
        bad = []
        for pos in sorted({0, 255, 256, 257, N - 1}):
            if pos < N:
                for e in (0, 2, -2):
                    f = list(vf)
                    f[pos] = e
                    bad.append(('flips-entry-%d-at-position-%d' % (e, pos), f, vp, vc))
                p = list(vp)
                p[pos] = p[pos - 1] if pos else p[1]
                bad.append(('perm-duplicate-at-position-%d' % pos, vf, p, vc))
                p = list(vp)
                p[pos] = N + 1 if vp[pos] != N else 0
                bad.append(('perm-entry-out-of-range-at-position-%d' % pos, vf, p, vc))
            if pos < M and M >= 2:
                c = list(vc)
                c[pos] = c[pos - 1] if pos else c[1]
                bad.append(('cperm-duplicate-at-position-%d' % pos, vf, vp, c))
                c = list(vc)
                c[pos] = M if vc[pos] != M - 1 else -1
                bad.append(('cperm-entry-out-of-range-at-position-%d' % pos, vf, vp, c))
        bad += [('flips-too-long', vf + [1], vp, vc), ('flips-too-short', vf[:-1], vp, vc),
                ('perm-too-long', vf, vp + [N + 1], vc), ('perm-too-short', vf, vp[:-1], vc),
                ('cperm-too-long', vf, vp, vc + [M]), ('perm-one-duplicate-one-missing', vf, [N - 1 if x == N else x for x in vp], vc),
                ('perm-zero-based', vf, [x - 1 for x in vp], vc)]
        if M >= 2:
            bad += [('cperm-too-short', vf, vp, vc[:-1]), ('cperm-one-based', vf, vp, [x + 1 for x in vc]),
                    ('cperm-one-duplicate-one-missing', vf, vp, [M - 2 if x == M - 1 else x for x in vc])]
        for x in (1, 250, 252, 256, N - 6):
            if x >= 1 and x + 6 <= N:
                l = pte_near_miss(N, x)
                rng.shuffle(l)
                bad.append(('perm-same-sum-and-squares-around-%d' % x, vf, l, vc))
            if x >= 1 and x + 6 <= M:
                l = [v - 1 for v in pte_near_miss(M, x)]
                rng.shuffle(l)
                bad.append(('cperm-same-sum-and-squares-around-%d' % x, vf, vp, l))
        for tag, fl, pm, cp in bad:
            add('thresholds-invalid', tag.split('-at-position')[0].split('-around')[0], G, N, F, fl, pm, cp, ('thr-bad', si, tag))

    # ---- near misses: every multiset with the sum and the sum of squares of 1..N ----
    for N in (range(6, 11) if quick else range(6, 13)):
        M = N
        F = [[rng.choice([1, -1]) * rng.randint(1, N) for _ in range(rng.randint(1, 3))] for _ in range(M)]
        G = build(CNF, N, F)
        vf, vp, vc = [rng.choice([1, -1]) for _ in range(N)], rng.sample(range(1, N + 1), N), rng.sample(range(M), M)
        sets = same_sum_and_squares(N, 0, N + 1)
        ctx.tally('near-miss: multisets with the sum and sum of squares of 1..N', '%d for N=%d' % (len(sets), N))
        for mi, ms in enumerate(sets):
            for oname, l in orders(rng, ms, quick):
                add('near-miss-invalid', 'variables: same sum and sum of squares', G, N, F, vf, l, vc, ('nm-v', N, mi, tuple(l)))
                add('near-miss-invalid', 'clauses: same sum and sum of squares', G, N, F, vf, vp, [x - 1 for x in l],
                    ('nm-c', N, mi, tuple(l)))
        for a in range(1, N + 1):
            for b in range(1, N + 1):
                if a != b and (not quick or (a + b) % 3 == 0):
                    l = [b if x == a else x for x in vp]        # a missing, b twice
                    add('near-miss-invalid', 'variables: one duplicate + one missing', G, N, F, vf, l, vc, ('nm-dup-v', N, a, b))
                    l = [b - 1 if x == a - 1 else x for x in vc]
                    add('near-miss-invalid', 'clauses: one duplicate + one missing', G, N, F, vf, vp, l, ('nm-dup-c', N, a, b))
        for pos in range(N):
            for e in (0, N + 1, -vp[pos]):
                l = list(vp)
                l[pos] = e
                add('near-miss-invalid', 'variables: one entry replaced by 0 / N+1 / its opposite', G, N, F, vf, l, vc, ('nm-rep-v', N, pos, e))
            for e in (-1, M):
                l = list(vc)
                l[pos] = e
                add('near-miss-invalid', 'clauses: one entry replaced by -1 / M', G, N, F, vf, vp, l, ('nm-rep-c', N, pos, e))

    # ---- degenerate formulas ----
    for k in (0, 1, 2, 3, 17):
        F = [[] for _ in range(k)]
        G = build(CNF, 0, F)
        cp = rng.sample(range(k), k)
        add('degenerate', '0 variables, k empty clauses', G, 0, F, [], [], cp, ('deg', k, 'explicit'))
        add('degenerate', '0 variables, k empty clauses', G, 0, F, [], [], cp, ('deg', k, 'tuples'), ('tuple', 'tuple', 'tuple'))
        add('degenerate', '0 variables, k empty clauses', G, 0, F, 'fixed', 'fixed', 'fixed', ('deg', k, 'fixed'))
        add('degenerate', '0 variables, k empty clauses', G, 0, F, 'fixed', [], 'fixed', ('deg', k, 'empty perm'))
        add('degenerate', '0 variables: invalid', G, 0, F, [1], [], cp, ('deg', k, 'flips too long'))
        add('degenerate', '0 variables: invalid', G, 0, F, [], [1], cp, ('deg', k, 'perm too long'))
        add('degenerate', '0 variables: invalid', G, 0, F, [], [], cp + [k], ('deg', k, 'cperm too long'))
        if k:
            add('degenerate', '0 variables: invalid', G, 0, F, [], [], [x + 1 for x in cp], ('deg', k, 'cperm one-based'))
    for i in range(6 if quick else 40):
        # every variable comes from a clause: no update_variable_number, no declared extra variable
        N = rng.randint(1, 6)
        F = [[rng.choice([1, -1]) * rng.randint(1, N) for _ in range(rng.randint(0, 3))] for _ in range(rng.randint(1, 5))] + [[N]]
        G = CNF()
        for c in F:
            G.add_clause(c)
        fl, pm, cp = valid_args(rng, N, len(F))
        add('degenerate', 'variables declared by clauses only', G, N, F, fl, pm, cp, ('deg-undeclared', i))
        G2 = CNF(F)
        add('degenerate', 'variables declared by clauses only', G2, N, F, fl, pm, cp, ('deg-undeclared-ctor', i))
    return jobs


def run_explicit(ctx, jobs):
    reqs = [cmd('shuffle', j[2], j[3], to_model(j[4]), to_model(j[5]), to_model(j[6])) for j in jobs]
    for (stream, descr, N, F, fl, pm, cp, thunk, key), rep in zip(jobs, ctx.model.batch(reqs)):
        ctx.count(stream, key, any(len(c) for c in F), sample=descr)
        got = observe(thunk)
        if 'invalid' in stream and not is_error(rep) and rep[0] == 'ok':
            ctx.note('generator produced a valid argument in the invalid stream: %s' % descr['kind'])
        judge_explicit(ctx, descr, N, F, fl, pm, cp, got, rep)


def random_library_case(ctx, stream, descr, Shuffle, G, N, F, modes, seed, key):
    draws = []
    state = _random.getstate()
    _random.seed(seed)
    try:
        with recorded_draws(draws):
            got = observe(lambda: Shuffle(G, *modes))
    finally:
        _random.setstate(state)
    ctx.count(stream, key, any(len(c) for c in F), sample=descr)
    if got[0] != 'ok':
        ctx.disagreements_checked += 1
        ctx.violation('counterexample', 'Shuffle raised %s on the random path' % got[1],
                      dict(input=descr, implementation=list(got)), True, site='Shuffle', cls='raises-' + got[1])
        return
    judge_random(ctx, stream, descr, N, F, modes, draws, got)


def large_random(ctx, quick, CNF, Shuffle):
    """the random path of the library on degenerate and large formulas"""
    rng = ctx.rng
    for k in (0, 1, 3):
        F = [[] for _ in range(k)]
        G = build(CNF, 0, F)
        for sw in (SWITCHES if not quick else [SWITCHES[0], SWITCHES[3], SWITCHES[7]]):
            modes = ['fixed' if on else 'shuffle' for on in sw]
            seed = rng.randint(0, 10 ** 9)
            ctx.tally('degenerate: random path', '0 variables, %d empty clauses' % k)
            random_library_case(ctx, 'degenerate', dict(numvar=0, clauses=F, modes=modes, seed=seed), Shuffle, G, 0, F, modes, seed,
                                ('deg-rand', k, str(modes)))
    for i, (N, M) in enumerate([(257, 258), (300, 256), (1000, 17)] if quick else
                               [(n, m) for n in THRESHOLD_N for m in (17, 256, 257, 1000)]):
        F = big_cnf(rng, N, M)
        G = build(CNF, N, F)
        for sw in ([SWITCHES[0], SWITCHES[(i % 7) + 1]] if quick else SWITCHES):
            modes = ['fixed' if on else 'shuffle' for on in sw]
            seed = rng.randint(0, 10 ** 9)
            ctx.tally('thresholds-random: variables x clauses', '%d x %d' % (N, M))
            random_library_case(ctx, 'thresholds-random', dict(numvar=N, clauses=F, modes=modes, seed=seed), Shuffle, G, N, F, modes,
                                seed, ('thr-rand', N, M, str(modes)))


def history_stream(ctx, quick, CNF, Shuffle):
    """one formula object shuffled, edited through its public API, shuffled again; shuffles of shuffles"""
    rng = ctx.rng
    jobs = []
    for hi in range(25 if quick else 250):
        G = CNF()
        steps = []
        if rng.random() < 0.5:
            n0 = rng.randint(0, 3)
            G.update_variable_number(n0)
            steps.append(['update_variable_number', n0])
        for ei in range(rng.randint(2, 5)):
            N0 = G.number_of_variables()
            edit = rng.choice(['clause-new-variables', 'clause-new-variables', 'clause-old', 'raise', 'new_variable', 'empty-clause'])
            if edit == 'clause-new-variables':
                c = [rng.choice([1, -1]) * (N0 + rng.randint(1, 4)) for _ in range(rng.randint(1, 2))]
                if N0 and rng.random() < 0.6:
                    c.append(rng.choice([1, -1]) * rng.randint(1, N0))
                G.add_clause(c)
                steps.append(['add_clause', c])
            elif edit == 'clause-old':
                c = [rng.choice([1, -1]) * rng.randint(1, N0) for _ in range(rng.randint(1, 3))] if N0 else []
                G.add_clause(c)
                steps.append(['add_clause', c])
            elif edit == 'raise':
                d = rng.randint(2, 5)
                G.update_variable_number(N0 + d)
                steps.append(['update_variable_number', N0 + d])
            elif edit == 'new_variable':
                G.new_variable('p')
                steps.append(['new_variable', 'p'])
            else:
                G.add_clause([])
                steps.append(['add_clause', []])
            ctx.tally('history: edit', edit)
            N, F = G.number_of_variables(), [list(c) for c in G]
            fl, pm, cp = valid_args(rng, N, len(F))
            r = outcome(Shuffle, G, fl, pm, cp)
            descr = dict(kind='history', numvar=N, clauses=F, polarity_flips=jsonable(fl), variables_permutation=jsonable(pm),
                         clauses_permutation=jsonable(cp), history=[list(x) for x in steps])
            if (G.number_of_variables(), [list(c) for c in G]) != (N, F):
                ctx.violation('counterexample', 'Shuffle changed the formula it was given',
                              dict(input=descr, after=[G.number_of_variables(), [list(c) for c in G]]), True,
                              site='Shuffle', cls='source-modified')
            jobs.append(('history', descr, N, F, fl, pm, cp, (lambda r=r: replay_outcome(r)), ('hist', hi, ei)))
            if r[0] == 'ok' and rng.random() < 0.5:
                H = r[1]
                N2, F2 = H.number_of_variables(), [list(c) for c in H]
                fl2, pm2, cp2 = valid_args(rng, N2, len(F2))
                r2 = outcome(Shuffle, H, fl2, pm2, cp2)
                descr2 = dict(kind='history: shuffle of a shuffle', numvar=N2, clauses=F2, polarity_flips=jsonable(fl2),
                              variables_permutation=jsonable(pm2), clauses_permutation=jsonable(cp2))
                ctx.tally('history: edit', 'shuffle of a shuffle')
                jobs.append(('history', descr2, N2, F2, fl2, pm2, cp2, (lambda r2=r2: replay_outcome(r2)), ('chain', hi, ei)))
    run_explicit(ctx, jobs)


def replay_outcome(r):
    """give back an outcome computed earlier (the source object has been edited since)"""
    if r[0] == 'ok':
        return r[1]
    e = type(r[1], (Exception,), {})(r[2])
    raise e


# --------------------------------------------------------------------------
# command line
# --------------------------------------------------------------------------
def parse_dimacs(text):
    n = None
    F = []
    cur = []
    for ln in text.split('\n'):
        ln = ln.strip()
        if not ln or ln[0] == 'c':
            continue
        if ln[0] == 'p':
            n = int(ln.split()[2])
            continue
        for tok in ln.split():
            v = int(tok)
            if v == 0:
                F.append(cur)
                cur = []
            else:
                cur.append(v)
    return n, F


def dimacs(N, F):
    return 'p cnf %d %d\n' % (N, len(F)) + ''.join(' '.join(str(l) for l in c + [0]) + '\n' for c in F)


def child(tool, argv, stdin=None):
    """run harness/c09_child.py; returns (rc, stdout, stderr, draws)"""
    fd, path = tempfile.mkstemp(prefix='c09draws')
    os.close(fd)
    env = dict(os.environ, PYTHONPATH=lib.REPO, PYTHONHASHSEED='0', C09_DRAWS=path)
    script = os.path.join(lib.ROOT, 'harness', 'c09_child.py')
    try:
        p = subprocess.run([lib.PY, '-W', 'ignore', script, tool] + [str(a) for a in argv], cwd=lib.REPO, env=env,
                           input=stdin.encode() if stdin is not None else None,
                           stdout=subprocess.PIPE, stderr=subprocess.PIPE, timeout=120)
        try:
            draws = json.load(open(path))
        except Exception:
            draws = None
        return p.returncode, p.stdout.decode(), p.stderr.decode(), draws
    finally:
        os.unlink(path)


SWITCHES = [(p, v, c) for p in (False, True) for v in (False, True) for c in (False, True)]


def switch_args(sw, long=False):
    names = ['--no-polarity-flips', '--no-variables-permutation', '--no-clauses-permutation'] if long else ['-p', '-v', '-c']
    return [n for n, on in zip(names, sw) if on]


def run_cli(ctx, quick):
    rng = ctx.rng
    # cnfshuffle: a corpus of degenerate and large inputs first, then random small ones
    corpus = [('0 variables, 0 clauses', 0, [], None), ('0 variables, 2 empty clauses', 0, [[], []], None),
              ('0 variables, 1 empty clause', 0, [[]], None),
              ('no declared extra variable', 3, [[1, -2], [3], [-3, 2]], None),
              ('declared extra variables only', 5, [], None),
              ('257 variables, 300 clauses', 257, big_cnf(rng, 257, 300), None),
              ('header without trailing newline', 2, [[1, -2]], 'p cnf 2 1\n1 -2 0')]
    if not quick:
        corpus += [('0 variables, 17 empty clauses', 0, [[] for _ in range(17)], None),
                   ('256 variables, 257 clauses', 256, big_cnf(rng, 256, 257), None),
                   ('1000 variables, 258 clauses', 1000, big_cnf(rng, 1000, 258), None),
                   ('300 variables, 1000 clauses', 300, big_cnf(rng, 300, 1000), None)]
    inputs = [(tag, N, F, text, ([SWITCHES[0], SWITCHES[5]] if tag.startswith('0 var') else [SWITCHES[(len(tag) % 7) + 1], SWITCHES[0]])
               if quick else SWITCHES) for tag, N, F, text in corpus]
    nform = 2 if quick else 8
    for fi in range(nform):
        N, F = random_cnf(rng, maxn=6, maxm=7)
        if fi == 0:
            N, F = 4, [[1, -2], [], [3, 3], [-1, 2, 2]]     # empty clause, unused variable 4, repeated literal
        inputs.append(('random', N, F, None, SWITCHES))
    for fi, (tag, N, F, text, switches) in enumerate(inputs):
        text = text if text is not None else dimacs(N, F)
        ctx.tally('cnfshuffle input', tag)
        fd, path = tempfile.mkstemp(prefix='c09in', suffix='.cnf')
        os.write(fd, text.encode())
        os.close(fd)
        try:
            for si, sw in enumerate(switches):
                seed = rng.randint(0, 10 ** 6)
                use_stdin = (si % 4 == 3) or (tag != 'random' and si == 1)
                argv = ['-q', '-S', seed] + switch_args(sw, long=(si % 2 == 1)) + ([] if use_stdin else ['-i', path])
                rc, out, err, draws = child('cnfshuffle', argv, stdin=text if use_stdin else None)
                modes = ['fixed' if on else 'shuffle' for on in sw]
                descr = dict(tool='cnfshuffle', argv=[str(a) for a in argv], numvar=N, clauses=F, input=tag)
                ctx.count('cli-cnfshuffle', (fi, str(argv)), any(len(c) for c in F), sample=descr)
                ctx.tally('cnfshuffle switches', ''.join(switch_args(sw)) or 'none')
                if rc != 0 or draws is None:
                    ctx.disagreements_checked += 1
                    ctx.violation('counterexample', 'cnfshuffle exits with %s on a valid input' % rc,
                                  dict(input=descr, stderr=err[-400:]), True, site='cnfshuffle', cls='exit-code')
                    continue
                n1, F1 = parse_dimacs(out)
                judge_random(ctx, 'cli-cnfshuffle', descr, N, F, modes, draws, ('ok', n1, F1), tail=True, site='cnfshuffle')
        finally:
            os.unlink(path)
    # cnfgen ... -T shuffle
    # degenerate ('or 0 0' = one empty clause and no variable) and large (php 17 16 = 272 variables) formulas first
    corpus = [['or', 0, 0], ['and', 0, 0], ['or', 2, 0], ['php', 17, 16]] + ([] if quick else [['and', 0, 3], ['php', 0, 0], ['op', 17], ['and', 200, 100]])
    fams = corpus + ([['php', 3, 2], ['op', 3]] if quick else [['php', 3, 2], ['op', 3], ['php', 4, 3], ['parity', 4]])
    for fam in fams:
        rc0, out0, err0, _ = child('cnfgen', ['-q'] + fam)
        N, F = parse_dimacs(out0)
        ctx.tally('-T shuffle formula', ' '.join(str(x) for x in fam))
        for si, sw in enumerate(SWITCHES):
            if quick and fam in corpus and si not in (0, 1 + (len(str(fam)) % 7)):
                continue
            if quick and si % 2 == 1 and fam != fams[len(corpus)] and fam not in corpus:
                continue
            seed = rng.randint(1, 10 ** 6)
            argv = ['-q', '--seed', seed] + fam + ['-T', 'shuffle'] + switch_args(sw, long=(si % 2 == 0))
            rc, out, err, draws = child('cnfgen', argv)
            modes = ['fixed' if on else 'shuffle' for on in sw]
            descr = dict(tool='cnfgen', argv=[str(a) for a in argv], numvar=N, clauses=F)
            ctx.count('cli-T-shuffle', str(argv), True, sample=descr)
            ctx.tally('-T shuffle switches', ''.join(switch_args(sw)) or 'none')
            if rc0 != 0 or rc != 0 or draws is None:
                ctx.disagreements_checked += 1
                ctx.violation('counterexample', 'cnfgen exits with %s on a valid command line' % rc,
                              dict(input=descr, stderr=err[-400:]), True, site='cnfgen -T shuffle', cls='exit-code')
                continue
            n1, F1 = parse_dimacs(out)
            judge_random(ctx, 'cli-T-shuffle', descr, N, F, modes, draws, ('ok', n1, F1), tail=True, site='cnfgen -T shuffle')


# --------------------------------------------------------------------------
def run(ctx):
    import_impl()
    from cnfgen.formula.cnf import CNF
    from cnfgen.transformations.shuffle import Shuffle
    import cnfgen
    quick = ctx.tier == 'quick'
    rng = ctx.rng

    # ---- stream 0: corpus of large / near-miss / degenerate inputs, edited formula objects ----
    run_explicit(ctx, large_jobs(ctx, quick, CNF, Shuffle))
    large_random(ctx, quick, CNF, Shuffle)
    history_stream(ctx, quick, CNF, Shuffle)

    # ---- stream 1: explicit valid arguments ----
    nform = 150 if quick else 1500
    formulas = [(0, []), (0, [[]]), (3, [[1], [], [1]]), (2, [[1, -1], [2, 2]])] + [random_cnf(rng) for _ in range(nform)]
    jobs = []
    for idx, (N, F) in enumerate(formulas):
        M = len(F)
        ctx.tally('formula variables', N)
        ctx.tally('formula clauses', M)
        G = build(CNF, N, F)
        for rep_i in range(2):
            fl, pm, cp = valid_args(rng, N, M)
            if idx % 10 == 0 and rep_i == 0:
                fl = pm = cp = 'fixed'
            a, b, c = container(rng, fl, ctx, 'flips'), container(rng, pm, ctx, 'variable permutation'), \
                container(rng, cp, ctx, 'clause permutation')
            descr = dict(numvar=N, clauses=F, polarity_flips=jsonable(fl), variables_permutation=jsonable(pm),
                         clauses_permutation=jsonable(cp))
            jobs.append(('explicit-valid', descr, N, F, fl, pm, cp,
                         (lambda G=G, a=a, b=b, c=c: Shuffle(G, a, b, c)), (idx, rep_i)))
        if idx % 3 == 0:
            for kind, fl, pm, cp in invalid_args(rng, N, M):
                ctx.tally('invalid argument kind', kind)
                descr = dict(kind=kind, numvar=N, clauses=F, polarity_flips=jsonable(fl), variables_permutation=jsonable(pm),
                             clauses_permutation=jsonable(cp))
                jobs.append(('explicit-invalid', descr, N, F, fl, pm, cp,
                             (lambda G=G, a=fl, b=pm, c=cp: Shuffle(G, a, b, c)), (idx, kind)))
    reqs = [cmd('shuffle', j[2], j[3], to_model(j[4]), to_model(j[5]), to_model(j[6])) for j in jobs]
    for (stream, descr, N, F, fl, pm, cp, thunk, key), rep in zip(jobs, ctx.model.batch(reqs)):
        ctx.count(stream, key, any(len(c) for c in F), sample=descr)
        got = observe(thunk)
        if stream == 'explicit-invalid' and not is_error(rep) and rep[0] == 'ok':
            ctx.note('generator produced a valid argument in the invalid stream: %s' % descr['kind'])
        judge_explicit(ctx, descr, N, F, fl, pm, cp, got, rep)

    # ---- stream 2: arguments outside the documented types (tallied, never an alarm) ----
    N, F = 3, [[1, -2], [3]]
    G = build(CNF, N, F)
    for name, args in [('float permutation', ('fixed', [1.0, 2.0, 3.0], 'fixed')), ('float flips', ([1.0, -1.0, 1.0], 'fixed', 'fixed')),
                       ('string flips', ('foo', 'fixed', 'fixed')), ('string permutation', ('fixed', 'abc', 'fixed')),
                       ('None flips', (None, 'fixed', 'fixed')), ('bool flips', ([True, True, True], 'fixed', 'fixed'))]:
        r = outcome(lambda: Shuffle(G, *args))
        ctx.tally('outside documented types: ' + name, 'accepted' if r[0] == 'ok' else r[1])

    # ---- stream 3: the random path of the library, draws recorded in process ----
    nrand = 60 if quick else 600
    for idx in range(nrand):
        N, F = random_cnf(rng) if idx >= 2 else [(0, [[]]), (4, [[1, -2], [], [3, 3], [-1, 2, 2]])][idx]
        G = build(CNF, N, F)
        for sw in (SWITCHES if idx % 4 == 0 else [rng.choice(SWITCHES)]):
            modes = ['fixed' if on else 'shuffle' for on in sw]
            seed = rng.randint(0, 10 ** 9)
            draws = []
            state = _random.getstate()
            _random.seed(seed)
            try:
                with recorded_draws(draws):
                    got = observe(lambda: Shuffle(G, *modes))
            finally:
                _random.setstate(state)
            descr = dict(numvar=N, clauses=F, modes=modes, seed=seed)
            ctx.count('random-library', (idx, str(modes), seed), any(len(c) for c in F), sample=descr)
            ctx.tally('random path switches (p,v,c off)', ''.join('pvc'[i] for i in range(3) if sw[i]) or 'none')
            if got[0] != 'ok':
                ctx.disagreements_checked += 1
                ctx.violation('counterexample', 'Shuffle raised %s on the random path' % got[1],
                              dict(input=descr, implementation=list(got)), True, site='Shuffle', cls='raises-' + got[1])
                continue
            judge_random(ctx, 'random-library', descr, N, F, modes, draws, got)
    # a medium formula through the random path
    for fam, args in [('PigeonholePrinciple', (6, 5)), ('OrderingPrinciple', (6,))]:
        G = getattr(cnfgen, fam)(*args)
        N, F = G.number_of_variables(), [list(c) for c in G]
        draws = []
        state = _random.getstate()
        _random.seed(rng.randint(0, 10 ** 9))
        try:
            with recorded_draws(draws):
                got = observe(lambda: Shuffle(G))
        finally:
            _random.setstate(state)
        descr = dict(formula='%s%r' % (fam, args), modes=['shuffle'] * 3)
        ctx.count('random-library', descr['formula'], True, sample=descr)
        if got[0] != 'ok':
            ctx.disagreements_checked += 1
            ctx.violation('counterexample', 'Shuffle raised %s on the random path' % got[1],
                          dict(input=descr, implementation=list(got)), True, site='Shuffle', cls='raises-' + got[1])
            continue
        judge_random(ctx, 'random-library', descr, N, F, ['shuffle'] * 3, draws, got)

    # ---- stream 4: command line tools, draws recorded in the child process ----
    run_cli(ctx, quick)
    import c09_main
    c09_main.run_shuffle_main(ctx)
    drop_redundant(ctx)
    ctx.exhaustive = False


def drop_redundant(ctx):
    """a site for which a failing input was found needs no extra 'model differs' line"""
    bad = {v['site'] for v in ctx.violations if v['kind'] == 'counterexample'}
    ctx.violations = [v for v in ctx.violations if not (v['kind'] == 'correspondence' and v['site'] in bad)]


def replay(ctx, rp):
    import_impl()
    from cnfgen.formula.cnf import CNF
    from cnfgen.transformations.shuffle import Shuffle
    d = rp.get('input', {})
    if 'polarity_flips' not in d:
        return run(ctx)
    N, F = d['numvar'], d['clauses']
    fl, pm, cp = d['polarity_flips'], d['variables_permutation'], d['clauses_permutation']
    G = build(CNF, N, F)
    rep = ctx.model.call(Sym('shuffle'), N, F, to_model(fl), to_model(pm), to_model(cp))
    ctx.count('replay', 'replay', True, sample=d)
    judge_explicit(ctx, d, N, F, fl, pm, cp, observe(lambda: Shuffle(G, fl, pm, cp)), rep)
