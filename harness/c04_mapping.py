"""mapping part of C04 (force_complete/functional/injective/surjective/nondecreasing)."""


def run_mappings(ctx):
    ctx.note('mapping constraints: not yet connected')
