"""mapping part of C04: force_complete / functional / injective / surjective / nondecreasing
for unary (new_mapping), sparse (new_sparse_mapping) and binary (new_binary_mapping) mappings.

The exact, ordered clause / constraint lists cnfgen produces (classes CNF and OPB) are
compared with the extracted model coq/Mapping.v (theorems in coq/Prop_C04_mapping.v).
Independently of the model, on instances with few variables the implementation's constraints
are evaluated on every assignment against the functional meaning (total / functional /
injective / surjective / non-decreasing relation; for binary mappings the value spelled by
the bits).

Large corpus (notes/LARGE_STREAMS.md), run first: new_mapping(n, m) with m in 128/129/130/300, sparse mappings over
bipartite graphs with a hub of degree 129/130 on either side whose edges were inserted in random order, binary
mappings into 255/256/257/1025 values, all created after 255..1000 anonymous variables.  The ordered output is
compared with the model; the functional meaning is evaluated on sampled assignments (total functions, near
misses, monotone functions, all-false / all-true) since these instances have too many variables to enumerate."""
import random

from lib import cmd, Sym, is_error, import_impl, lit_true, pb_sat, assignments

WHICH = ['complete', 'functional', 'surjective', 'injective', 'nondecreasing']


def mapping_cases(ctx):
    rng = ctx.rng
    quick = ctx.tier == 'quick'
    out = []
    top = 6
    for n in range(0, top + 1):
        for m in range(0, top + 1):
            if quick and n * m > 20 and (n + m) % 2:
                continue
            out.append(dict(kind='unary', n=n, m=m))
    for n in range(1, (4 if quick else 6) + 1):
        for m in [1, 2, 3, 4, 5, 6, 7, 8, 9] + ([] if quick else [12, 15, 16, 17]):
            if quick and n * max(1, (m - 1).bit_length()) > 9:
                continue
            out.append(dict(kind='binary', n=n, m=m))
    for _ in range(60 if quick else 600):
        L, R = rng.randint(0, 6), rng.randint(0, 6)
        dens = rng.choice([0.0, 0.25, 0.5, 0.75, 1.0])
        edges = sorted([u, v] for u in range(1, L + 1) for v in range(1, R + 1) if rng.random() < dens)
        out.append(dict(kind='sparse', L=L, R=R, edges=edges))
    return out


BIG_OFFSETS = [255, 256, 257, 258, 300, 1000]


def large_mapping_cases(rng, tier):
    quick = tier == 'quick'
    out = []
    for (n, m) in [(2, 128), (2, 129), (2, 130), (1, 300)] + ([] if quick else [(3, 129), (2, 300), (129, 2), (257, 1), (17, 16), (3, 257)]):
        out.append(dict(kind='unary', n=n, m=m, large=True))
    for k in range(2 if quick else 8):
        n = rng.choice([135, 150, 200, 300])
        D = rng.choice([129, 130])
        verts = list(range(1, n + 1))
        low, high = rng.choice([1, 2, 3]), rng.choice([n - 2, n - 1, n])
        hu, hv = (low, high) if k % 2 == 0 else (high, low)          # hubs at either end of the numbering, on either side
        edges = {(hu, w) for w in rng.sample(verts, D)} | {(w, hv) for w in rng.sample(verts, D)}
        target = len(edges) + rng.choice([20, 60])
        while len(edges) < target:
            edges.add((rng.choice(verts), rng.choice(verts)))
        order = [list(e) for e in edges]
        rng.shuffle(order)                  # the order in which the graph receives its edges
        out.append(dict(kind='sparse', L=n, R=n, edges=order, large=True))
    for (n, m) in [(2, 255), (2, 256), (2, 257), (3, 129), (3, 65)] + ([] if quick else [(17, 16), (17, 17), (1, 1025), (2, 1000), (5, 64), (5, 65)]):
        out.append(dict(kind='binary', n=n, m=m, large=True))
    return out


def sampled_failing(rng, which, mc, f, cname, constraints, off, nvar, samples=8):
    """large instances: the constraints against the functional meaning on sampled assignments"""
    try:
        return sampled_failing_(rng, which, mc, f, cname, constraints, off, nvar, samples)
    except Exception as e:  # noqa  (the mapping object itself fails on a legal index)
        return {'mapping-object-raises': repr(e)}


def sampled_failing_(rng, which, mc, f, cname, constraints, off, nvar, samples=8):
    if which == 'surjective' and mc['kind'] == 'binary':
        return None
    if len(constraints) > 60000:
        samples = 3
    ids = list(range(off + 1, nvar + 1))
    cands = [[], list(ids)]
    if mc['kind'] == 'binary':
        n, m, k = mc['n'], mc['m'], f.bits()
        vals = [[rng.randrange(2 ** k) for _ in range(n)], [rng.randrange(m) for _ in range(n)], sorted(rng.randrange(m) for _ in range(n)),
                sorted((rng.randrange(m) for _ in range(n)), reverse=True), [rng.randrange(m)] * n, [m - 1] * n, [min(m, 2 ** k - 1)] * n,
                [m - 1 - i for i in range(n)]]
        for vs in vals:
            cands.append([f(i, b) for i, v in enumerate(vs, start=1) for b in range(k) if (v >> b) & 1])
    else:
        dom = list(f.domain())
        fun = {u: rng.choice(list(f.range(u))) for u in dom if len(f.range(u))}
        base = [f(u, v) for u, v in fun.items()]
        cands.append(base)
        for _ in range(3):
            x = rng.choice(ids) if ids else None
            cands.append([y for y in base if y != x] + ([x] if x is not None and x not in base else []))
        mono, last = [], 0
        for u in dom:
            r = [v for v in f.range(u) if v >= last]
            if r:
                v = rng.choice(r[:3])
                mono.append(f(u, v))
                last = v
        cands.append(mono)
        inj, used = [], set()
        for u in dom:
            r = [v for v in f.range(u) if v not in used]
            if r:
                v = rng.choice(r)
                used.add(v)
                inj.append(f(u, v))
        cands.append(inj)
    for true_ids in cands[:samples + 2]:
        ts = set(true_ids)
        a = [None] + [False] * off + [(i in ts) for i in ids]
        try:
            want = meaning(which, mc, f, a)
        except Exception as e:  # noqa  (an identifier of the mapping outside the variables of the formula)
            return {'mapping-variable-outside-the-formula': repr(e), 'variables': nvar}
        if want is None:
            return None
        try:
            got = holds(cname, constraints, a)
        except Exception as e:  # noqa
            return {'malformed-output': repr(e)}
        if got != want:
            return {'assignment': sorted(ts), 'constraints_hold': got, 'meaning_holds': want}
    return None


def mapping_sx(mc):
    if mc['kind'] == 'unary':
        return [Sym('unary'), [list(range(1, mc['m'] + 1)) for _ in range(mc['n'])], mc['m']]
    if mc['kind'] == 'sparse':
        adj = [[] for _ in range(mc['L'])]
        for u, v in mc['edges']:
            adj[u - 1].append(v)
        return [Sym('unary'), [sorted(a) for a in adj], mc['R']]
    return [Sym('binary'), mc['n'], mc['m']]


def build_mapping(F, mc):
    from cnfgen.graphs import BipartiteGraph
    if mc['kind'] == 'unary':
        return F.new_mapping(mc['n'], mc['m'])
    if mc['kind'] == 'sparse':
        B = BipartiteGraph(mc['L'], mc['R'])
        for u, v in mc['edges']:
            B.add_edge(u, v)
        return F.new_sparse_mapping(B)
    return F.new_binary_mapping(mc['n'], mc['m'])


def meaning(which, mc, f, a):
    """the functional meaning of the constraint, read off the assignment a (indexed by variable id)"""
    if mc['kind'] == 'binary':
        n, m, k = mc['n'], mc['m'], f.bits()
        val = {i: sum((1 << b) for b in range(k) if a[f(i, b)]) for i in range(1, n + 1)}
        if which == 'complete':
            return all(val[i] < m for i in val)
        if which == 'functional':
            return True
        if which == 'injective':
            return all(not (val[i] == val[j] and val[i] < m) for i in val for j in val if i < j)
        if which == 'nondecreasing':
            return all(not (val[i] > val[j] and val[i] < m) for i in val for j in val if i < j)
        return None
    dom = list(f.domain())
    ran = list(f.range())
    R = {(i, j): a[f(i, j)] for i in dom for j in f.range(i)}
    if which == 'complete':
        return all(any(R[(i, j)] for j in f.range(i)) for i in dom)
    if which == 'functional':
        return all(sum(1 for j in f.range(i) if R[(i, j)]) <= 1 for i in dom)
    if which == 'surjective':
        return all(any(R[(i, j)] for i in f.domain(j)) for j in ran)
    if which == 'injective':
        return all(sum(1 for i in f.domain(j) if R[(i, j)]) <= 1 for j in ran)
    if which == 'nondecreasing':
        return all(not (R[(i1, j1)] and R[(i2, j2)] and j1 > j2)
                   for i1 in dom for i2 in dom if i1 < i2 for j1 in f.range(i1) for j2 in f.range(i2))
    return None


def holds(cname, constraints, a):
    if cname == 'CNF':
        return all(any(lit_true(a, l) for l in c) for c in constraints)
    return all(pb_sat(a, list(c)) for c in constraints)


def search_failing(which, mc, f, cname, constraints, off, nvar):
    """assignment on which the added constraints and the functional meaning differ"""
    if nvar - off > 11:
        return None
    for bits in range(1 << (nvar - off)):
        a = [None] + [False] * off + [bool((bits >> i) & 1) for i in range(nvar - off)]
        want = meaning(which, mc, f, a)
        if want is None:
            return None
        try:
            got = holds(cname, constraints, a)
        except Exception as e:  # noqa
            return {'malformed-output': repr(e)}
        if got != want:
            return {'assignment': [i for i in range(off + 1, nvar + 1) if a[i]], 'constraints_hold': got, 'meaning_holds': want}
    return None


def canon(cname, F):
    if cname == 'CNF':
        return [list(c) for c in F]
    return [[list(t) if isinstance(t, tuple) else t for t in c] for c in F]


def run_mappings(ctx):
    import_impl()
    from cnfgen.formula.cnf import CNF
    from cnfgen.formula.opb import OPB
    rng = ctx.rng
    lrng = random.Random('%d-c04-mapping-large' % ctx.seed)      # the large corpus has its own generator derived from the seed
    jobs = []
    big = large_mapping_cases(lrng, ctx.tier)
    for ci, mc in enumerate(big + mapping_cases(ctx)):
        ctx.tally('mapping kind' if not mc.get('large') else 'large: mapping kind', mc['kind'])
        for wi, which in enumerate(WHICH):
            for ki, (cname, C) in enumerate((('CNF', CNF), ('OPB', OPB))):
                if mc.get('large'):
                    if ctx.tier == 'quick' and (ci + wi + ki) % 2:
                        continue                                 # quick tier: each large mapping on alternating classes
                    if mc['kind'] == 'binary' and which == 'nondecreasing' and mc['m'] > (70 if ctx.tier == 'quick' else 260):
                        continue                                 # one clause per pair of values: the model needs seconds
                    off = lrng.choice(BIG_OFFSETS)
                    ctx.tally('large: anonymous variables before the mapping', off)
                    ctx.tally('large: mapping', '%s n=%s m=%s' % (mc['kind'], mc.get('n', mc.get('L')), mc.get('m', mc.get('R'))))
                    if 'edges' in mc:
                        ctx.tally('large: edges inserted in sorted order', mc['edges'] == sorted(mc['edges']))
                else:
                    off = rng.choice([0, 0, 3, rng.randint(0, 9)])
                descr = dict(cls=cname, mapping=mc, constraint=which, anonymous_before=off)
                F = C()
                F.update_variable_number(off)
                try:
                    f = build_mapping(F, mc)
                except Exception as e:  # noqa
                    ctx.violation('counterexample', 'mapping creation raised %s' % type(e).__name__, dict(input=descr, error=str(e)[:200]), True,
                                  site='mapping-' + mc['kind'], cls='creation-raises-' + type(e).__name__)
                    continue
                raised = None
                try:
                    getattr(F, 'force_%s_mapping' % which)(f)
                except ValueError:
                    raised = 'ValueError'
                except Exception as e:  # noqa
                    raised = type(e).__name__
                got = canon(cname, F)
                jobs.append((descr, mc, which, cname, off, f, F.number_of_variables(), got, raised,
                             cmd('mapping_constraints', mapping_sx(mc), off, which)))
    run_forbid(ctx, CNF)
    replies = ctx.model.batch([j[-1] for j in jobs])
    for (descr, mc, which, cname, off, f, nvar, got, raised, _), rep in zip(jobs, replies):
        key = (cname, str(mc), which, off)
        ctx.count(('mapping-large-' if mc.get('large') else 'mapping-') + cname, key, nvar > off, sample=descr)
        site = 'force_%s_mapping-%s' % (which, mc['kind'])
        if is_error(rep):
            ctx.violation('correspondence', 'model error', dict(input=descr, model=rep), False, site='model-error', cls=site)
            continue
        mraised, mcnf, mopb = rep
        want = mcnf if cname == 'CNF' else [[list(t) for t in c[0]] + [c[1], c[2]] for c in mopb]
        # the property itself on the implementation (independent of the model)
        bad = None
        if raised is None or (mc['kind'] == 'binary' and which == 'surjective'):
            if not (mc['kind'] == 'binary' and which == 'surjective'):
                bad = search_failing(which, mc, f, cname, got, off, nvar)
                if bad is None and mc.get('large'):
                    bad = sampled_failing(lrng, which, mc, f, cname, got, off, nvar)
        if raised not in (None, 'ValueError'):
            ctx.disagreements_checked += 1
            ctx.violation('counterexample', 'force_%s_mapping raised %s' % (which, raised), dict(input=descr, implementation=got), True,
                          site=site, cls='raises-' + raised)
            continue
        if bad is not None:
            ctx.disagreements_checked += 1
            ctx.violation('counterexample', 'the constraints added by force_%s_mapping do not mean "%s"' % (which, which),
                          dict(input=descr, witness=bad, implementation=got, model=want), True, site=site, cls='semantics')
            continue
        if got == want and (raised == 'ValueError') == bool(mraised):
            continue
        ctx.disagreements_checked += 1
        ctx.violation('correspondence', 'output of force_%s_mapping differs from the model (coq/Mapping.v); theorems C04_map_* no longer cover the code' % which,
                      dict(input=descr, implementation=dict(raised=raised, constraints=got), model=dict(raised=bool(mraised), constraints=want),
                           correspondence='Mapping.v <-> VariablesManager.force_%s_mapping' % which), False, site=site, cls='order-or-shape')


def run_forbid(ctx, CNF):
    """BinaryMappingVariables.forbid(i,j) for every pigeon and every j up to just beyond 2^bits:
    the clause (or ValueError) against the model, and directly against "falsified exactly by the bits spelling j" """
    rng = ctx.rng
    probes = []
    for n in (1, 2, 3):
        for m in (1, 2, 3, 4, 5, 6, 7, 8, 9, 13, 16, 17):
            off = rng.choice([0, 2, 5])
            F = CNF()
            F.update_variable_number(off)
            f = F.new_binary_mapping(n, m)
            k = f.bits()
            for i in range(1, n + 1):
                for j in range(0, 2 ** k + 2):
                    try:
                        got = ('ok', list(f.forbid(i, j)))
                    except ValueError:
                        got = ('ValueError',)
                    except Exception as e:  # noqa
                        got = ('exc', type(e).__name__)
                    probes.append((dict(n=n, m=m, i=i, j=j, anonymous_before=off), got, [f(i, b) for b in range(k)],
                                   cmd('forbid', off, n, m, i, j)))
    replies = ctx.model.batch([p[-1] for p in probes])
    for (descr, got, bitvars, _), rep in zip(probes, replies):
        ctx.count('forbid', (descr['n'], descr['m'], descr['i'], descr['j'], descr['anonymous_before']), True, sample=descr)
        want = ('ok', rep[1]) if isinstance(rep, list) else ('ValueError',)
        if got[0] == 'exc':
            ctx.violation('counterexample', 'forbid raised %s' % got[1], dict(input=descr), True, site='forbid', cls='raises-' + got[1])
            continue
        if got[0] == 'ok':
            # falsified exactly when bit b of pigeon i equals bit b of j
            j = descr['j']
            expect = sorted((-v if (j >> b) & 1 else v) for b, v in enumerate(bitvars))
            if sorted(got[1]) != expect:
                ctx.disagreements_checked += 1
                ctx.violation('counterexample', 'forbid(i,j) is not the clause falsified exactly by the bits spelling j',
                              dict(input=descr, implementation=got[1], expected_literals=expect), True, site='forbid', cls='semantics')
                continue
        if got != want:
            ctx.disagreements_checked += 1
            ctx.violation('correspondence', 'forbid differs from the model (coq/Mapping.v forbid; theorem C04_map_forbid)',
                          dict(input=descr, implementation=list(got), model=list(want)), False, site='forbid', cls='differs')
