"""C17 (pipeline part) -- the whole-program model `cnfgen_main : argv -> bytes` (coq/Pipeline.v) against the real tool.

`run_pipeline(ctx)` is called from harness/c17.py.  For every generated argument vector

    model   = extracted cnfgen_main (driver command `pipeline`)         POut text | PCliError | PCrash | POutside
    tool    = the real `cnfgen` run in a child process (fork server harness/pipeline_child.py; a sample also
              through clirun.run_cli, i.e. a freshly started interpreter)  exit status, stdout bytes, stderr
    library = the documented library call on the same numbers, then the transformation functions left to
              right, written with to_file(..., export_header=False)      (in this process)

When the model says POut the tool must exit 0 with exactly those bytes on stdout; when it says PCliError the tool
must exit 255 with empty stdout and a `c `-prefixed message, no traceback.  POutside = the model claims nothing
(the tool is not run).  On a disagreement the failing input of property C17 is searched for: the tool's output is
compared with the library's; if they differ (or one raises and the other does not, or the tool ends in a
traceback) the argv is a failing input of C17 itself (kind counterexample), otherwise the model no longer covers
the code (kind correspondence).

Streams: valid (every modelled sub-command, every option subset, 0-4 transformations, boundary numbers 0/1, decorated
integer tokens), thresholds (sizes 16/17, 64/65, 128/129, 256..258, arity 17, numbers >= 2^31 where the formula stays
small), malformed (missing/extra arguments, non-integers, unknown options, -T at odd places, conflicting options)."""
import io
import json
import os
import subprocess
import time

import clirun
import lib
from lib import cmd

CHILD = os.path.join(os.path.dirname(os.path.abspath(__file__)), 'pipeline_child.py')
WORKERS = 12


# --------------------------------------------------------------------------
# the real tool
# --------------------------------------------------------------------------
def _serve(argvs, tool='cnfgen', limit=60):
    """run every argv through one fork server; returns list of dict(rc,out,err,timeout)"""
    env = dict(os.environ)
    env['PYTHONHASHSEED'] = '0'
    env['PYTHONPATH'] = lib.REPO
    env[lib.GUARD] = '1'
    env.pop('PYTHONSTARTUP', None)
    text = ''.join(json.dumps(a) + '\n' for a in argvs)
    p = subprocess.run([lib.PY, '-W', 'ignore', CHILD, lib.REPO, tool, str(limit)], input=text.encode(), stdout=subprocess.PIPE,
                       stderr=subprocess.PIPE, cwd=lib.REPO, env=env, timeout=limit * max(1, len(argvs)) + 60)
    lines = [ln for ln in p.stdout.decode().split('\n') if ln]
    if len(lines) != len(argvs):
        raise RuntimeError('fork server answered %d of %d (stderr %s)' % (len(lines), len(argvs), p.stderr.decode()[-300:]))
    return [json.loads(ln) for ln in lines]


def run_real(argvs, workers=WORKERS):
    if not argvs:
        return []
    k = max(1, min(workers, len(argvs) // 8 or 1))
    shards = [argvs[i::k] for i in range(k)]
    res = clirun.parallel([(lambda s=s: _serve(s)) for s in shards], workers=k)
    out = [None] * len(argvs)
    for i, shard in enumerate(res):
        for j, r in enumerate(shard):
            out[i + j * k] = r
    return out


# --------------------------------------------------------------------------
# abstract commands -> argv and library call
# --------------------------------------------------------------------------
TRANS1 = ['xor', 'or', 'eq', 'neq', 'maj', 'one', 'lift']
TRANS2 = ['atleast', 'atmost', 'exact', 'anybut']
TRANS0 = ['none', 'flip', 'ite']


def library_formula(case, cnfgen, cap=True):
    """the documented library call for an abstract command; raises TooBig when a step would be too large"""
    from cnfgen.formula.cnf import CNF
    sub, a, fl = case['sub'], case['args'], set(case.get('flags', []))
    if case.get('graph'):
        F = library_graph_formula(case, cnfgen)
    elif sub == 'php':
        f, o = '--functional' in fl, '--onto' in fl
        if len(a) == 1:
            F = cnfgen.PigeonholePrinciple(a[0] + 1, a[0], functional=f, onto=o)
        else:
            F = cnfgen.PigeonholePrinciple(a[0], a[1], functional=f, onto=o)
    elif sub == 'bphp':
        F = cnfgen.BinaryPigeonholePrinciple(a[0], a[1])
    elif sub == 'rphp':
        F = cnfgen.RelativizedPigeonholePrinciple(a[0], a[1], a[2])
    elif sub == 'count':
        F = cnfgen.CountingPrinciple(a[0], a[1])
    elif sub == 'parity':
        F = cnfgen.CountingPrinciple(a[0], 2)
    elif sub == 'cliquecoloring':
        F = cnfgen.CliqueColoring(a[0], a[1], a[2])
    elif sub == 'op':
        total = bool(fl & {'--total', '-t'})
        smart = bool(fl & {'--smart', '-s'})
        plant = bool(fl & {'--plant', '-p'})
        kn = 2 if '--knuth2' in fl else 3 if '--knuth3' in fl else 0
        F = cnfgen.OrderingPrinciple(a[0], total, smart, plant, kn)
    elif sub == 'ram':
        F = cnfgen.RamseyNumber(a[0], a[1], a[2])
    elif sub == 'vdw':
        F = cnfgen.VanDerWaerden(a[0], *a[1:])
    elif sub == 'ptn':
        F = cnfgen.PythagoreanTriples(a[0])
    elif sub == 'cpls':
        F = cnfgen.CPLSFormula(a[0], a[1], a[2])
    elif sub in ('or', 'and'):
        F = CNF()
        x = F.new_block(a[0], label='x_{}')
        y = F.new_block(a[1], label='y_{}')
        if sub == 'or':
            F.add_clause(list(x) + [-v for v in y])
        else:
            F.add_clauses_from([[v] for v in x])
            F.add_clauses_from([[-v] for v in y])
    elif sub == 'true':
        F = CNF()
    elif sub == 'false':
        F = CNF()
        F.add_clause([])
    else:
        raise KeyError(sub)
    one = {'xor': cnfgen.XorSubstitution, 'or': cnfgen.OrSubstitution, 'eq': cnfgen.AllEqualSubstitution, 'neq': cnfgen.NotAllEqualSubstitution,
           'maj': cnfgen.MajoritySubstitution, 'one': cnfgen.ExactlyOneSubstitution, 'lift': cnfgen.FormulaLifting}
    two = {'exact': cnfgen.ExactlyKSubstitution, 'atleast': cnfgen.AtLeastKSubstitution, 'atmost': cnfgen.AtMostKSubstitution,
           'anybut': cnfgen.AnythingButKSubstitution}
    for name, ks in case.get('chain', []):
        if cap:
            check_size(F, name, ks)
        if name in one:
            F = one[name](F, ks[0])
        elif name in two:
            F = two[name](F, ks[0], ks[1])
        elif name == 'flip':
            F = cnfgen.FlipPolarity(F)
        elif name == 'ite':
            F = cnfgen.IfThenElseSubstitution(F)
        elif name == 'none':
            pass
        else:
            raise KeyError(name)
    if cap and (len(F) > 150000 or sum(len(c) for c in F) > 2500000):
        raise TooBig()
    return F


class TooBig(Exception):
    pass


def library_graph(g, cnfgen):
    """the graph object a deterministic graph argument names, built with the documented constructors"""
    from cnfgen import graphs
    kind, cons, nums = g
    if kind == 'simple':
        return cnfgen.Graph.complete_graph(nums[0]) if cons == 'complete' else cnfgen.Graph.empty_graph(nums[0])
    if kind == 'bipartite':
        if cons == 'complete':
            return graphs.CompleteBipartiteGraph(nums[0], nums[1])
        if cons == 'empty':
            return cnfgen.BipartiteGraph(nums[0], nums[1])
        return graphs.bipartite_shift(nums[0], nums[1], pattern=list(nums[2:]))
    return {'path': graphs.dag_path, 'tree': graphs.dag_complete_binary_tree, 'pyramid': graphs.dag_pyramid}[cons](nums[0])


def library_graph_formula(case, cnfgen):
    sub, a, fl = case['sub'], case['args'], set(case.get('flags', []))
    G = library_graph(case['graph'], cnfgen)
    if sub == 'kcolor':
        return cnfgen.GraphColoringFormula(G, a[0])
    if sub == 'ec':
        return cnfgen.EvenColoringFormula(G)
    if sub == 'tiling':
        return cnfgen.Tiling(G)
    if sub == 'matching':
        return cnfgen.PerfectMatchingPrinciple(G)
    if sub == 'kclique':
        return cnfgen.CliqueFormula(G, a[0], '--no-symmetry-breaking' not in fl)
    if sub == 'kcliquebin':
        return cnfgen.BinaryCliqueFormula(G, a[0])
    if sub == 'domset':
        return cnfgen.DominatingSet(G, a[0], alternative=bool(fl & {'--alternative', '-a'}))
    if sub == 'tseitin':
        n = G.number_of_vertices()
        charge = {'first': [1] + [0] * (n - 1), 'zero': [0] * n, 'one': [1] * n}[case['charge']]
        return cnfgen.TseitinFormula(G, charge)
    if sub == 'php':
        return cnfgen.GraphPigeonholePrinciple(G, functional='--functional' in fl, onto='--onto' in fl)
    if sub == 'subsetcard':
        return cnfgen.SubsetCardinalityFormula(G, bool(fl & {'--equal', '-e'}))
    if sub == 'op':
        kn = 2 if '--knuth2' in fl else 3 if '--knuth3' in fl else 0
        return cnfgen.GraphOrderingPrinciple(G, bool(fl & {'--total', '-t'}), bool(fl & {'--smart', '-s'}), bool(fl & {'--plant', '-p'}), kn)
    if sub == 'peb':
        return cnfgen.PebblingFormula(G)
    if sub == 'stone':
        return cnfgen.StoneFormula(G, a[0])
    raise KeyError(sub)


def check_size(F, name, ks):
    """refuse a transformation step whose result could be large: bound on the number of clauses the
    substitution produces (product over the literals of a clause of the gadget sizes)"""
    if all(len(c) == 0 for c in F):
        return                                   # no literal to substitute: the clause list does not grow
    if name in TRANS0 or not ks:
        g = 2 if name == 'ite' else 1
    else:
        k = ks[0]
        if k > 40:
            raise TooBig()
        g = {'xor': 2 ** max(0, k - 1), 'or': k, 'eq': max(k, 2), 'neq': max(k, 2), 'maj': _binom(k, k // 2), 'one': k * k + 1, 'lift': k}.get(name)
        if g is None:
            g = _binom(k, k // 2) * 2
    total = 0
    for c in F:
        total += g ** len(c) if len(c) < 40 else 10 ** 9
        if total > 140000:
            raise TooBig()
    if F.number_of_variables() * (ks[0] if ks else 3) > 200000:
        raise TooBig()


def _binom(n, k):
    from math import comb
    return comb(n, k) if 0 <= k <= n else 1


def library_text(F, fmt='dimacs'):
    buf = io.StringIO()
    F.to_file(buf, fileformat=fmt, export_header=False)
    return buf.getvalue()


def with_format(rng, cs):
    """insert an output format option among the options in front of the formula name"""
    argv = cs['argv']
    k = next((i for i, a in enumerate(argv) if not a.startswith('-')), len(argv))
    fmt = rng.choice(['opb', 'opb', 'dimacs'])
    i = rng.randint(0, k)
    cs['argv'] = argv[:i] + [rng.choice(['-of', '--output-format']), fmt] + argv[i:]
    cs['fmt'] = fmt
    return cs


DECOR = [lambda s: '+' + s, lambda s: ' ' + s, lambda s: s + ' ', lambda s: '0' + s, lambda s: '\t' + s + '\n', lambda s: '00' + s]


def tok(rng, z, plain=False):
    s = str(z)
    if plain or z < 0 or rng.random() > 0.12:
        return s
    return rng.choice(DECOR)(s)


def render(rng, case, quiet=None):
    """argv (sys.argv[1:]) of an abstract command"""
    q = quiet if quiet is not None else rng.choice([['-q'], ['-q'], ['--quiet'], ['-q', '-q'], ['--quiet', '-q']])
    args = [tok(rng, z, case.get('plain')) for z in case['args']]
    if case.get('charge'):
        args = [case['charge']] + args
    if case.get('graph'):
        args += [case['graph'][1]] + [tok(rng, z, case.get('plain')) for z in case['graph'][2]]
    flags = list(case.get('flags', []))
    rng.shuffle(flags)
    cut = rng.randint(0, len(flags))
    body = flags[:cut] + args + flags[cut:]            # options before and after the run of positional arguments
    argv = list(q) + [case['sub']] + body
    for name, ks in case.get('chain', []):
        argv += ['-T', name] + [tok(rng, k, case.get('plain')) for k in ks]
    return argv


PHP_FLAGS = [[], ['--functional'], ['--onto'], ['--functional', '--onto']]
OP_VARIANTS = [[], ['--total'], ['-t'], ['--smart'], ['-s'], ['--knuth2'], ['--knuth3']]
OP_PLANT = [[], [], ['--plant'], ['-p']]


def gen_base(rng, small=False):
    """one abstract formula command with small parameters (boundary values 0/1 frequent)"""
    def R(lo, hi):
        return rng.choice([lo, lo, lo + 1 if lo + 1 <= hi else lo, hi]) if rng.random() < 0.35 else rng.randint(lo, hi)
    sub = rng.choice(['php', 'php', 'bphp', 'rphp', 'count', 'parity', 'cliquecoloring', 'op', 'op', 'ram', 'vdw', 'ptn', 'cpls', 'and', 'or', 'true', 'false'])
    hi = 3 if small else 5
    if sub == 'php':
        shape = rng.choice([1, 2, 2, 3])
        m, n = R(0, hi), R(0, hi)
        a = [n] if shape == 1 else [m, n] if shape == 2 else [m, n, n]
        return dict(sub=sub, args=a, flags=rng.choice(PHP_FLAGS) + (['--onto'] if rng.random() < 0.05 else []))
    if sub == 'bphp':
        return dict(sub=sub, args=[R(1, hi), R(1, hi + 2)])
    if sub == 'rphp':
        return dict(sub=sub, args=[R(0, 3), R(0, 3), R(0, 3)])
    if sub == 'count':
        return dict(sub=sub, args=[R(0, hi + 1), R(1, 3)])
    if sub == 'parity':
        return dict(sub=sub, args=[R(0, hi + 1)])
    if sub == 'cliquecoloring':
        return dict(sub=sub, args=[R(0, 4), R(1, 3), R(1, 3)])
    if sub == 'op':
        return dict(sub=sub, args=[R(0, hi)], flags=rng.choice(OP_VARIANTS) + rng.choice(OP_PLANT))
    if sub == 'ram':
        return dict(sub=sub, args=[R(1, 3), R(1, 3), R(0, 5)])
    if sub == 'vdw':
        return dict(sub=sub, args=[R(0, 7)] + [R(1, 3) for _ in range(rng.choice([2, 2, 3, 4]))])
    if sub == 'ptn':
        return dict(sub=sub, args=[R(0, 10 if small else 30)])
    if sub == 'cpls':
        return dict(sub=sub, args=[R(1, 2 if small else 3), rng.choice([1, 2] if small else [1, 2, 4]), rng.choice([1, 2] if small else [1, 2, 4])])
    if sub in ('and', 'or'):
        return dict(sub=sub, args=[R(0, hi), R(0, hi)])
    return dict(sub=sub, args=[])


def gen_graph(rng, kind, small=False):
    hi = 4 if small else 6
    if kind == 'simple':
        return ('simple', rng.choice(['complete', 'complete', 'empty']), [rng.choice([1, 1, 2, 3, rng.randint(1, hi)])])
    if kind == 'bipartite':
        L, R = rng.randint(1, 4), rng.randint(1, 4)
        c = rng.choice(['complete', 'empty', 'shift', 'shift'])
        if c == 'shift':
            pat = sorted(rng.sample(range(0, R + 1), rng.randint(0, min(3, R + 1))))
            if rng.random() < 0.3:
                rng.shuffle(pat)
            return ('bipartite', c, [L, R] + pat)
        return ('bipartite', c, [L, R])
    c = rng.choice(['path', 'tree', 'pyramid'])
    return ('dag', c, [rng.choice([0, 1, 2, 3]) if c != 'path' else rng.randint(0, 5)])


def gen_graph_base(rng, small=False):
    """one abstract formula command with a deterministic graph argument"""
    sub = rng.choice(['kcolor', 'ec', 'tiling', 'matching', 'kclique', 'kcliquebin', 'domset', 'tseitin', 'tseitin', 'php', 'subsetcard', 'op', 'peb', 'stone'])
    if sub == 'kcolor':
        return dict(sub=sub, args=[rng.randint(1, 3)], graph=gen_graph(rng, 'simple', small))
    if sub in ('ec', 'tiling', 'matching'):
        return dict(sub=sub, args=[], graph=gen_graph(rng, 'simple', small))
    if sub == 'kclique':
        return dict(sub=sub, args=[rng.randint(0, 3)], graph=gen_graph(rng, 'simple', small), flags=rng.choice([[], ['--no-symmetry-breaking']]))
    if sub == 'kcliquebin':
        return dict(sub=sub, args=[rng.randint(0, 3)], graph=gen_graph(rng, 'simple', small))
    if sub == 'domset':
        return dict(sub=sub, args=[rng.randint(1, 3)], graph=gen_graph(rng, 'simple', small), flags=rng.choice([[], ['--alternative'], ['-a']]))
    if sub == 'tseitin':
        return dict(sub=sub, args=[], charge=rng.choice(['first', 'zero', 'one']), graph=gen_graph(rng, 'simple', small))
    if sub == 'php':
        return dict(sub=sub, args=[], graph=gen_graph(rng, 'bipartite', small), flags=rng.choice(PHP_FLAGS))
    if sub == 'subsetcard':
        return dict(sub=sub, args=[], graph=gen_graph(rng, 'bipartite', small), flags=rng.choice([[], ['-e'], ['--equal']]))
    if sub == 'op':
        return dict(sub=sub, args=[], graph=gen_graph(rng, 'simple', small), flags=rng.choice(OP_VARIANTS) + rng.choice(OP_PLANT))
    if sub == 'peb':
        return dict(sub=sub, args=[], graph=gen_graph(rng, 'dag', small))
    return dict(sub=sub, args=[rng.randint(1, 3)], graph=gen_graph(rng, 'dag', small))


def gen_chain(rng, maxlen=4):
    n = rng.choice([0, 0, 1, 1, 1, 2, 2, 3, 4][:5 + maxlen])
    ch = []
    for _ in range(n):
        t = rng.choice(TRANS0 + TRANS1 + TRANS1 + TRANS2)
        if t in TRANS0:
            ch.append((t, []))
        elif t in TRANS1:
            ch.append((t, [rng.choice([1, 1, 2, 2, 3])]))
        else:
            k = rng.choice([1, 2, 2, 3])
            ch.append((t, [k, rng.choice([1, 1, k, k + 1, rng.randint(1, k + 1)])]))
    return ch


BIG = [2 ** 31, 2 ** 31 + 1, 2 ** 32, 2 ** 32 + 1, 2 ** 63, 2 ** 64 + 1]
SIZES = [16, 17, 64, 65, 128, 129, 256, 257, 258]


def gen_thresholds(rng, tier):
    """abstract commands behind size thresholds; every one stays cheap for the tool and for the model"""
    out = []
    quick = tier == 'quick'
    sizes = SIZES if not quick else [16, 17] + rng.sample(SIZES[2:], 3)
    for n in sizes:
        out.append(dict(sub='and', args=[n, rng.choice([0, 1])]))
        out.append(dict(sub='and', args=[0, n]))
        out.append(dict(sub='or', args=[n, n - 1]))
        out.append(dict(sub='php', args=[n, 1], flags=rng.choice(PHP_FLAGS)))
        out.append(dict(sub='php', args=[1, n], flags=rng.choice(PHP_FLAGS)))
        out.append(dict(sub='bphp', args=[rng.choice([1, 2]), n]))
        out.append(dict(sub='rphp', args=[1, n, 1]))
        out.append(dict(sub='count', args=[n, 1]))
        out.append(dict(sub='ptn', args=[n]))
        out.append(dict(sub='vdw', args=[n, rng.choice([2, 3]), 3]))
        out.append(dict(sub='ram', args=[2, 2, n] if n <= 129 else [1, 2, n // 2]))
        if n <= 65:
            out.append(dict(sub='cliquecoloring', args=[n, 1, 1]))     # the model's table lookups are quadratic
            out.append(dict(sub='php', args=[n, 2], flags=rng.choice(PHP_FLAGS)))
            out.append(dict(sub='vdw', args=[n, 2, 2, 2]))
        if n <= 17:
            out.append(dict(sub='op', args=[n], flags=rng.choice(OP_VARIANTS) + rng.choice(OP_PLANT)))
            out.append(dict(sub='parity', args=[n]))
            out.append(dict(sub='count', args=[n, 2]))
            out.append(dict(sub='ram', args=[3, 3, n]))
            out.append(dict(sub='php', args=[n], flags=rng.choice(PHP_FLAGS)))
            out.append(dict(sub='cpls', args=[2, n & ~1 if n & (n - 1) else n, 2]))
        elif not quick and n <= 65:
            out.append(dict(sub='op', args=[n], flags=['--smart'] + rng.choice(OP_PLANT)))
    # graph arguments behind the same thresholds
    for n in sizes:
        out.append(dict(sub='kcolor', args=[2], graph=('simple', 'empty', [n])))
        out.append(dict(sub='tiling', args=[], graph=('simple', 'empty', [n])))
        out.append(dict(sub='tseitin', args=[], charge=rng.choice(['first', 'zero', 'one']), graph=('simple', 'empty', [n])))
        out.append(dict(sub='peb', args=[], graph=('dag', 'path', [n])))
        out.append(dict(sub='stone', args=[1], graph=('dag', 'path', [min(n, 65)])))
        out.append(dict(sub='php', args=[], graph=('bipartite', 'shift', [n, n + 1, 0, 1]), flags=rng.choice(PHP_FLAGS)))
        out.append(dict(sub='subsetcard', args=[], graph=('bipartite', 'shift', [n, n, 0, 1, 2]), flags=rng.choice([[], ['-e']])))
        out.append(dict(sub='php', args=[], graph=('bipartite', 'empty', [n, 1]), flags=rng.choice(PHP_FLAGS)))
        if n <= 65:
            out.append(dict(sub='kcolor', args=[2], graph=('simple', 'complete', [n])))
            out.append(dict(sub='kclique', args=[2], graph=('simple', 'complete', [n]), flags=rng.choice([[], ['--no-symmetry-breaking']])))
            out.append(dict(sub='kcliquebin', args=[2], graph=('simple', 'empty', [n])))
            out.append(dict(sub='domset', args=[1], graph=('simple', 'empty', [n]), flags=rng.choice([[], ['-a']])))
        if n <= 17:
            out.append(dict(sub='matching', args=[], graph=('simple', 'complete', [n])))
            out.append(dict(sub='tiling', args=[], graph=('simple', 'complete', [n])))
            out.append(dict(sub='op', args=[], graph=('simple', 'complete', [n]), flags=rng.choice(OP_VARIANTS)))
            out.append(dict(sub='peb', args=[], graph=('dag', 'pyramid', [n])))
            out.append(dict(sub='php', args=[], graph=('bipartite', 'complete', [n, n - 1]), flags=rng.choice(PHP_FLAGS)))
            out.append(dict(sub='domset', args=[2], graph=('simple', 'complete', [n])))
    out.append(dict(sub='peb', args=[], graph=('dag', 'tree', [4])))
    out.append(dict(sub='peb', args=[], graph=('dag', 'tree', [7 if not quick else 5])))
    out.append(dict(sub='tseitin', args=[], charge='first', graph=('simple', 'complete', [7])))
    out.append(dict(sub='ec', args=[], graph=('simple', 'complete', [7])))
    # arity 17 (and 16) of every transformation, on tiny formulas
    for k in (16, 17):
        for t in TRANS1:
            # the substitution of a clause is a product over its literals: ONE unit clause for the exponential gadgets
            # (xor of arity 17: 65536 clauses of 17 literals for that single literal)
            if t == 'xor':
                if quick and k == 16:
                    continue
                base = dict(sub='and', args=[1, 0]) if quick or rng.random() < 0.5 else dict(sub='and', args=[0, 1])
            elif t == 'maj':
                base = dict(sub='and', args=[1, 1])
            else:
                base = rng.choice([dict(sub='and', args=[1, 1]), dict(sub='or', args=[1, 1]), dict(sub='php', args=[2, 1])])
            out.append(dict(base, chain=[(t, [k])]))
        for t in TRANS2:
            for c in (rng.sample([1, 2, k - 1, k, k + 1], 2) if quick else rng.sample([1, 2, 8, 9, k - 1, k, k + 1], 5)):
                out.append(dict(sub='and', args=[1, 1], chain=[(t, [k, c])]))
        out.append(dict(sub='or', args=[k, 0], chain=[('flip', [])]))
        out.append(dict(sub='and', args=[k, 1], chain=[('ite', [])]))
        out.append(dict(sub='or', args=[k, 1], chain=[('lift', [1])]))
    # long clauses through a chain: 17+ literals after or-substitution, then another substitution
    out.append(dict(sub='or', args=[9, 9], chain=[('or', [2]), ('flip', [])]))
    out.append(dict(sub='and', args=[3, 3], chain=[('or', [6]), ('or', [3])]))
    out.append(dict(sub='or', args=[2, 2], chain=[('or', [5]), ('xor', [1]), ('neq', [2])] if not quick else [('or', [5]), ('xor', [1])]))
    # numbers >= 2^31 where the formula stays small
    for b in (BIG if not quick else rng.sample(BIG, 3)):
        out.append(dict(sub='vdw', args=[5, b, 2], plain=True))
        out.append(dict(sub='vdw', args=[3, b, b + 1, 2], plain=True))
        out.append(dict(sub='true', args=[], chain=[(rng.choice(TRANS1), [b])], plain=True))
        out.append(dict(sub='false', args=[], chain=[(rng.choice(['xor', 'or', 'eq', 'maj', 'one']), [b])], plain=True))
        out.append(dict(sub='and', args=[0, 0], chain=[(rng.choice(TRANS2), [b, b + rng.choice([-1, 0, 1])])], plain=True))
        out.append(dict(sub='true', args=[], chain=[('lift', [b]), ('xor', [b + 1])], plain=True))
    return out


BAD_INTS = ['1' * 4301, '', 'x', '2.0', '1e1', '0x2', '2_', '_2', '1__0', 'two', '+', '+-2', '2,', 'inf', 'nan', '.5', '1_0.0', '-', '2 3']
NEG_INTS = ['-1', '-2', '-0', '-17', '0', '00']
UNKNOWN_OPTS = ['--zzz', '-x', '--functionality', '--Total', '-Q', '--no-such-option', '--q-', '-z']
ODD_OPTS = ['-h', '--help', '--functional', '--onto', '--total', '--smart', '-t', '-s', '--plant', '--knuth2', '--verbose', '-v', '-q', '--quiet',
            '--func', '--tot', '-ts', '--functional=1', '--', '--seed', '-o', '-V', '--varnames', '-of', '-l']


CONSTRUCTIONS = ['complete', 'empty', 'shift', 'path', 'tree', 'pyramid', 'grid', 'torus']


def gen_malformed(rng, case):
    """one mutation of the argv of a small valid command; returns (argv, kind)"""
    argv = render(rng, dict(case, plain=rng.random() < 0.8), quiet=['-q'])
    kind = rng.choice(['drop', 'extra', 'badint', 'negint', 'unknown', 'oddopt', 'T-insert', 'T-end', 'T-double', 'T-begin', 'badname', 'badtrans',
                       'conflict', 'no-formula', 'mid-flag', 'swap', 'dup', 'empty-token', 'graph-word', 'graph-word', 'graph-tail'])
    body = [i for i in range(len(argv)) if i >= 1]
    if kind == 'drop' and len(argv) > 1:
        del argv[rng.choice(body)]
    elif kind == 'extra':
        argv.insert(rng.randint(2, len(argv)), rng.choice(['1', '2', '0', '3', 'x']))
    elif kind == 'badint':
        ints = [i for i in body if argv[i].lstrip('+- \t0').isdigit() or argv[i] in ('0', '00')]
        if ints:
            argv[rng.choice(ints)] = rng.choice(BAD_INTS)
        else:
            argv.append(rng.choice(BAD_INTS))
    elif kind == 'negint':
        ints = [i for i in body if argv[i].strip().lstrip('+0').isdigit() or argv[i] == '0']
        if ints:
            argv[rng.choice(ints)] = rng.choice(NEG_INTS)
        else:
            argv.append(rng.choice(NEG_INTS))
    elif kind == 'unknown':
        argv.insert(rng.randint(1, len(argv)), rng.choice(UNKNOWN_OPTS))
    elif kind == 'oddopt':
        argv.insert(rng.randint(0, len(argv)), rng.choice(ODD_OPTS))
    elif kind == 'T-insert':
        argv.insert(rng.randint(0, len(argv)), '-T')
    elif kind == 'T-end':
        argv.append('-T')
    elif kind == 'T-double':
        i = rng.randint(1, len(argv))
        argv[i:i] = ['-T', '-T']
    elif kind == 'T-begin':
        argv = ['-T'] + argv
    elif kind == 'badname':
        argv[1] = rng.choice(['', 'PHP', 'ph', 'phpp', 'xor', '3', 'none', 'cnfgen', 'Op'])
    elif kind == 'badtrans':
        argv += ['-T', rng.choice(['', 'XOR', 'xo', 'php', '2', 'and', 'Flip'])] + rng.choice([[], ['2']])
    elif kind == 'conflict':
        argv = argv[:2] + rng.sample(['--total', '--smart', '--knuth2', '--knuth3', '-t', '-s', '--plant'], 2) + argv[2:]
        if rng.random() < 0.5:
            argv[1] = 'op'
    elif kind == 'no-formula':
        argv = rng.choice([[], ['-q'], ['-v'], ['-q', '-v'], ['-v', '-q'], ['-q', '-T', 'xor', '2'], ['--quiet', '--verbose'], ['-T'], ['-q', '-T']])
    elif kind == 'mid-flag':
        j = rng.randint(2, len(argv))
        argv.insert(j, rng.choice(['--functional', '--onto', '--total', '-p', '--plant', '--smart']))
    elif kind == 'swap' and len(argv) > 2:
        i, j = rng.sample(range(1, len(argv)), 2)
        argv[i], argv[j] = argv[j], argv[i]
    elif kind == 'dup' and len(argv) > 1:
        i = rng.choice(body)
        argv.insert(i, argv[i])
    elif kind == 'graph-word':
        words = [i for i in body if argv[i] in CONSTRUCTIONS]
        if words:
            argv[rng.choice(words)] = rng.choice(CONSTRUCTIONS + ['clique', 'Complete', 'gnp', 'kthlist', 'simple', 'bipartite', 'dag', 'first', 'save'])
        else:
            argv.insert(rng.randint(2, len(argv)), rng.choice(CONSTRUCTIONS))
    elif kind == 'graph-tail':
        words = [i for i in body if argv[i] in CONSTRUCTIONS]
        tail = rng.choice([['foo', '1'], ['plantclique'], ['addedges', 'x'], ['save'], ['simple'], ['complete', '2'], ['-1'], ['1', '2', '3'], ['0']])
        j = len(argv) if not words or '-T' not in argv else argv.index('-T')
        argv[j:j] = tail
    elif kind == 'empty-token':
        argv.insert(rng.randint(1, len(argv)), '')
    return argv, kind


# --------------------------------------------------------------------------
# the run
# --------------------------------------------------------------------------
def site_of(argv):
    """<sub-command>[+T]: deterministic classification of an argv"""
    sub = next((a for i, a in enumerate(argv) if not a.startswith('-') and not (i and argv[i - 1] in ('-of', '--output-format'))), '-')
    known = {'php', 'bphp', 'rphp', 'count', 'parity', 'cliquecoloring', 'op', 'ram', 'vdw', 'ptn', 'cpls', 'and', 'or', 'true', 'false',
             'kcolor', 'ec', 'tiling', 'matching', 'kclique', 'kcliquebin', 'domset', 'tseitin', 'subsetcard', 'peb', 'stone'}
    return 'pipeline:' + (sub if sub in known else 'other')


def cls_of(argv, stream, kind=None):
    if stream == 'malformed':
        return 'malformed:' + str(kind)
    opts = sorted(set(a for a in argv if a.startswith('--') or (a.startswith('-') and len(a) == 2 and a[1].isalpha() and a != '-T')) - {'-q', '--quiet'})
    trans = [argv[i + 1] for i in range(len(argv) - 1) if argv[i] == '-T']
    return (','.join(opts) or 'plain') + ('|T:' + ','.join(sorted(set(trans))) if trans else '')


def _model_chunk(ctx, name, extra, argvs, limit):
    """answers for a list of argv; a request the driver does not answer within the limit gets the reply ['slow']"""
    try:
        return ctx.model.batch([cmd(name, *(list(extra) + [a])) for a in argvs], timeout=limit)
    except subprocess.TimeoutExpired:
        if len(argvs) == 1:
            return [[lib.Sym('slow')]]
        h = len(argvs) // 2
        sub = max(8, limit // 3)
        return _model_chunk(ctx, name, extra, argvs[:h], sub) + _model_chunk(ctx, name, extra, argvs[h:], sub)


def model_replies(ctx, argvs, name='pipeline', chunk=120, workers=8, extra=(), limit=45):
    """the driver's answers, in order; the requests are spread over several driver processes"""
    t0 = time.time()
    chunks = [argvs[i:i + chunk] for i in range(0, len(argvs), chunk)]
    res = clirun.parallel([(lambda c=c: _model_chunk(ctx, name, extra, c, limit)) for c in chunks], workers=workers)
    reps = [r for part in res for r in part]
    return reps, time.time() - t0


def tool_agrees(m, r):
    """does the run of the real tool agree with the model's verdict?"""
    if r is None or r.get('timeout'):
        return False
    if m[0] == 'out':
        return r['rc'] == 0 and r['out'] == m[1]
    if m[0] == 'clierror':
        return r['rc'] == 255 and r['out'] == '' and 'Traceback' not in r['err'] and r['err'][:2] in ('c ', '* ')
    return False


def run_pipeline(ctx):
    cnfgen = lib.import_impl()
    # a generator of its own, derived from the seed of the run: the stream is the same whether it is run alone
    # (tools/run_pipeline_stream.py) or after the other streams of C17
    import random
    rng = random.Random(ctx.seed * 1000003 + 17)
    quick = ctx.tier == 'quick'
    t_start = time.time()
    cases = []          # dict(stream, argv, case|None, kind)
    # ---- valid stream
    n_valid = 260 if quick else 3400
    for _ in range(n_valid):
        c = gen_base(rng)
        c['chain'] = gen_chain(rng)
        cases.append(dict(stream='valid', case=c, argv=render(rng, c)))
    for _ in range(160 if quick else 2100):
        c = gen_graph_base(rng)
        c['chain'] = gen_chain(rng, maxlen=2)
        cases.append(dict(stream='valid-graph', case=c, argv=render(rng, c)))
    # every option subset of php and op, exhaustively, with and without a transformation
    for fl in PHP_FLAGS:
        for a in ([2], [3, 2], [2, 3, 3], [0, 0], [1, 0], [0, 1]):
            for ch in ([], [('xor', [2])]):
                c = dict(sub='php', args=a, flags=fl, chain=ch)
                cases.append(dict(stream='valid', case=c, argv=render(rng, c)))
    for v in OP_VARIANTS:
        for p in ([], ['--plant'], ['-p']):
            for n in (0, 1, 3, 4):
                c = dict(sub='op', args=[n], flags=v + p, chain=[])
                cases.append(dict(stream='valid', case=c, argv=render(rng, c)))
    # ---- thresholds
    for c in gen_thresholds(rng, ctx.tier):
        c.setdefault('chain', [])
        cases.append(dict(stream='thresholds', case=c, argv=render(rng, c)))
    # ---- malformed
    n_mal = 380 if quick else 5200
    for i in range(n_mal):
        c = gen_base(rng, small=True) if i % 3 else gen_graph_base(rng, small=True)
        c['chain'] = gen_chain(rng, maxlen=2)
        argv, kind = gen_malformed(rng, c)
        cases.append(dict(stream='malformed', case=None, argv=argv, kind=kind))
    # without -q: the comment header is part of the bytes (sub-commands with a graph argument are outside then)
    for i in range(90 if quick else 1100):
        c = gen_base(rng, small=True) if i % 8 else gen_graph_base(rng, small=True)
        c['chain'] = gen_chain(rng, maxlen=3)
        cases.append(dict(stream='verbose', case=c, argv=render(rng, c, quiet=rng.choice([[], [], ['-v'], ['--verbose'], ['-v', '--verbose']])), verbose=True))
    for t in TRANS0 + TRANS1:
        c = dict(sub='and', args=[1, 1], chain=[(t, [] if t in TRANS0 else [1])] * 12)       # more than ten numbered entries
        cases.append(dict(stream='verbose', case=c, argv=render(rng, c, quiet=[]), verbose=True))
    for b in rng.sample(BIG, 2):
        c = dict(sub='vdw', args=[3, b, 2], plain=True, chain=[])
        cases.append(dict(stream='verbose', case=c, argv=render(rng, c, quiet=[]), verbose=True))
    for cs in cases:
        if cs['case'] is not None and rng.random() < 0.2:
            with_format(rng, cs)
    # ---- the library side first: it tells which cases are too large
    keep = []
    for cs in cases:
        if cs['case'] is not None:
            try:
                F = library_formula(cs['case'], cnfgen)
                cs['lib'] = ('ok', library_text(F, cs.get('fmt', 'dimacs')), F.number_of_variables(), len(F),
                             [('* ' if cs.get('fmt') == 'opb' else 'c ') + '%s: %s' % kv for kv in F.header.items()])
            except TooBig:
                ctx.tally('pipeline skipped', 'predicted too large')
                continue
            except ValueError as e:
                cs['lib'] = ('ValueError', str(e)[:120])
            except Exception as e:  # noqa
                cs['lib'] = ('exc', type(e).__name__ + ': ' + str(e)[:120])
        keep.append(cs)
    cases = keep
    t_lib = time.time() - t_start

    # ---- the model
    from cnfgen.info import info
    version = str(info['version'])
    reps, t_model = model_replies(ctx, [cs['argv'] for cs in cases], name='pipeline_env', extra=[version])
    for cs, m in zip(cases, reps):
        cs['model'] = m
        if lib.is_error(m):
            raise lib.ModelError('driver error on %r: %r' % (cs['argv'], m))
    # ---- the tool, on the cases the model makes a claim about
    claimed = [cs for cs in cases if cs['model'][0] in ('out', 'clierror', 'crash')]
    t0 = time.time()
    reals = run_real([cs['argv'] for cs in claimed])
    t_real = time.time() - t0
    for cs, r in zip(claimed, reals):
        cs['real'] = r
    ctx.note('pipeline: %d argv (%d claimed by the model); library %.1fs, model %.1fs, tool %.1fs' % (len(cases), len(claimed), t_lib, t_model, t_real))

    for cs in cases:
        argv, m, stream = cs['argv'], cs['model'], cs['stream']
        ctx.tally('pipeline stream', stream)
        ctx.tally('pipeline model verdict', str(m[0]))
        ctx.tally('pipeline sub-command', site_of(argv)[9:])
        ctx.tally('pipeline chain length', sum(1 for a in argv if a == '-T'))
        if stream == 'malformed':
            ctx.tally('pipeline malformed kind', cs['kind'])
        if m[0] == 'slow':
            ctx.tally('pipeline skipped', 'model slower than the limit')
            ctx.note('pipeline: the extracted model did not answer within the limit on %r' % (argv,))
            continue
        if m[0] == 'outside':
            ctx.count('pipeline-' + stream, tuple(argv), nontrivial=False)
            if cs['case'] is not None and not (cs.get('verbose') and cs['case'].get('graph')):
                # a command produced by the valid grammar must be inside the model's grammar
                ctx.violation('correspondence', 'the pipeline model places a command of its own grammar outside it', dict(input=dict(argv=argv), theorem='pipeline_total'),
                              False, site=site_of(argv), cls='grammar')
            continue
        r = cs['real']
        nontrivial = m[0] == 'out' and m[1].count('\n') > 1
        ctx.count('pipeline-' + stream, tuple(argv), nontrivial=nontrivial or stream == 'malformed',
                  sample=dict(argv=argv, model=m[0], bytes=len(m[1]) if m[0] == 'out' else 0, rc=r['rc']))
        site, cl = site_of(argv), cls_of(argv, stream, cs.get('kind'))
        traceback = 'Traceback' in (r['err'] or '')
        lib_res = cs.get('lib')
        ok = tool_agrees(m, r)
        # three-way: the library call as well
        body = r['out']
        head_ok = True
        if cs.get('verbose') and r['rc'] == 0:
            lines = r['out'].split('\n')
            if cs.get('fmt') == 'opb':
                mark, first, lines = '*', lines[:1], lines[1:]          # the line with the counts also starts with '*'
            else:
                mark, first = 'c', []
            comments = [ln for ln in lines if ln.startswith(mark)]
            body = '\n'.join(first + [ln for ln in lines if not ln.startswith(mark)])
            # and / or / true / false have no library generator (the helper builds the formula and its description itself)
            if lib_res is not None and lib_res[0] == 'ok' and not any('\n' in x or '\t' in x for x in argv) and cs['case']['sub'] not in ('and', 'or', 'true', 'false'):
                head_ok = (comments[:-2] == lib_res[4] and comments[-1:] == [mark]
                           and comments[-2:-1] == [mark + ' command line: cnfgen ' + ' '.join(argv)])
        if ok and lib_res is not None:
            if m[0] == 'out' and lib_res[0] == 'ok' and (lib_res[1] != body or not head_ok):
                ok = False
            if m[0] == 'out' and lib_res[0] != 'ok':
                ok = False
            if m[0] == 'clierror' and lib_res[0] == 'ok' and stream != 'malformed':
                ok = False
        if ok:
            continue
        ctx.disagreements_checked += 1
        replay = dict(input=dict(tool='cnfgen', argv=argv), model=m[0], model_text=(m[1][:300] if m[0] == 'out' else None),
                      tool_rc=r['rc'], tool_stdout=r['out'][:300], tool_stderr=r['err'][-400:], library=lib_res[:2] if lib_res else None,
                      theorem='pipeline_roundtrip / pipeline_split (coq/Prop_C17_pipeline.v)')
        if r.get('timeout'):
            ctx.violation('correspondence', 'the tool did not finish within the time limit on an input the model calls small', replay, False, site=site, cls='timeout')
        elif traceback:
            ctx.violation('counterexample', 'cnfgen ends in a Python traceback (%s)' % r['err'].strip().split('\n')[-1][:120], replay, True, site=site, cls=cl)
        elif lib_res is not None and lib_res[0] == 'ok' and r['rc'] == 0 and body != lib_res[1]:
            ctx.violation('counterexample', 'the command line writes a formula that differs from the documented library call on the same numbers', replay, True, site=site, cls=cl)
        elif lib_res is not None and lib_res[0] == 'ok' and r['rc'] == 0 and not head_ok:
            ctx.violation('counterexample', 'the comment header written by the command line is not the header of the library formula followed by the command line', replay, True,
                          site=site, cls='header|' + cl)
        elif lib_res is not None and lib_res[0] == 'ok' and r['rc'] != 0:
            ctx.violation('counterexample', 'the command line is rejected although the documented library call on the same numbers succeeds', replay, True, site=site, cls=cl)
        elif lib_res is not None and lib_res[0] == 'ValueError' and r['rc'] == 0:
            ctx.violation('counterexample', 'the command line writes a formula although the documented library call raises ValueError', replay, True, site=site, cls=cl)
        elif lib_res is not None and lib_res[0] == 'exc':
            ctx.violation('counterexample', 'the documented library call raises %s' % lib_res[1], replay, True, site=site, cls=cl)
        elif m[0] == 'clierror' and r['rc'] == 255 and r['out'] == '' and r['err'][:2] not in ('c ', '* '):
            ctx.violation('counterexample', 'command line error without the comment prefix of the output format', replay, True, site=site, cls=cl)
        else:
            ctx.violation('correspondence', 'the pipeline model (coq/Pipeline.v) and the tool disagree (model %s, tool exit %s)' % (m[0], r['rc']), replay, False, site=site, cls=cl)

    # ---- the fork server equals a freshly started interpreter; fast rendering equals the reference rendering
    sample = [cs for cs in claimed if len(cs['real']['out']) < 20000]
    rng.shuffle(sample)
    sample = sample[:24 if quick else 200]
    fresh = clirun.parallel([(lambda a=cs['argv']: clirun.run_cli('cnfgen', a)) for cs in sample])
    for cs, f in zip(sample, fresh):
        ctx.count('pipeline-fresh-process', tuple(cs['argv']), nontrivial=True)
        r = cs['real']
        if f['rc'] != r['rc'] or f['out'].decode('latin-1') != r['out']:
            ctx.violation('correspondence', 'fork server and fresh process differ', dict(input=dict(argv=cs['argv']), fresh_rc=f['rc'], fork_rc=r['rc']), False,
                          site='pipeline:harness', cls='fork-server')
    small = [cs for cs in claimed if cs['model'][0] == 'out' and not cs.get('verbose') and len(cs['model'][1]) < 4000 and not any(t in cs['argv'] for t in ('16', '17'))]
    rng.shuffle(small)
    small = small[:60 if quick else 600]
    ref, _ = model_replies(ctx, [cs['argv'] for cs in small], name='pipeline_ref')
    for cs, m2 in zip(small, ref):
        ctx.count('pipeline-reference-rendering', tuple(cs['argv']), nontrivial=True)
        if m2 != cs['model']:
            ctx.violation('correspondence', 'cnfgen_main_fast differs from cnfgen_main (theorem pipeline_fast_eq)', dict(input=dict(argv=cs['argv'])), False,
                          site='pipeline:harness', cls='fast-rendering')
    ctx.note('pipeline stream total %.1fs' % (time.time() - t_start))
