"""C15 -- graph constructions on the command line deliver the structure they name.

Correspondence between cnfgen/graphs.py (in-house samplers and fixed graphs), cnfgen/clitools/graph_build.py
(obtain_* / modify_*), cnfgen/clitools/graph_args.py (make_graph_from_spec) and the extracted Coq model coq/GraphGen.v.

How randomness is tied: random.randint / random.sample / random.random / random.shuffle (attributes of the `random`
module, which graphs.py and graph_build.py call) are replaced by wrappers that call the real functions of a
random.Random instance seeded from ctx.rng and RECORD every draw (for sample: the positions of the chosen elements in
list(population)).  The recorded draws are replayed in the model as its oracle stream and the resulting graph is
compared exactly (orders and list(G.edges()) against io_edges); the model must also have read the whole stream.
A `bias` makes the wrappers repeat earlier answers (still inside the contract of the random module) so that the
rejection / retry / fallback branches of the samplers are exercised.

Streams
  sampler     direct calls of every in-house sampler / fixed graph / modification with arguments at and just outside
              the legal range, recorded draws replayed in the model of the current code (demanded) and of the code as found
  scripted    hand-written draw sequences (collision runs) for the retry loops
  cli         graph specifications through the REAL parser: every construction x options (plantclique, plantbiclique,
              addedges, splitedges, save); in-house parts replayed in the model stage by stage; networkx generators are an
              external oracle whose result is only CHECKED for the promised structure (label: check, not proof)
  guard       argument tuples at and around the boundaries: ValueError verdict of obtain_* against the model guard
  malformed   non-integer tokens, wrong arity, unknown / repeated options, missing save information: ValueError expected
Run first, as a corpus (notes/LARGE_STREAMS.md):
  huge        more than 65536 / 131072 vertices or edges (direct calls and command line specifications with 'save' in every
              in-house format): the model replays draws in quadratic time, so only the promised structure is checked
  thresholds  sizes, degrees, edge counts, option arguments at 15..1025 and at the sparse / dense switches; model demanded
  shapes      CompleteBipartiteGraph under every option and 'save', vertices of large degree, one-vertex sides, complete and
              empty results, repeated / wrapping shift offsets
  history     one graph object taken through a random sequence of options and API edits; each option judged on the state it found
"""
import collections.abc
import itertools
import os
import random
import tempfile

from lib import cmd, import_impl, Sym, is_error

META = dict(
    technique='Coq theorems on a model of the in-house samplers as functions of an oracle stream of recorded random draws '
              '(exact edge counts, regularity, closed forms and acyclicity of pyramid/tree/path, planted cliques, addedges/'
              'splitedges accounting, guard => precondition) + extracted-model replay of the recorded draws of the real run; '
              'run-time structure checks for the networkx generators',
    category='proof',
    text='Machine-checked theorems state for EVERY stream of draws that respects the contract of random.randint/sample that the '
         'in-house constructions return the promised structure whenever they return; the model follows the current code, the five '
         'repaired defects are kept as _as_found_refuted witnesses on the model of the code as found. '
         'The model is tied to the code by recording every draw of the real run and replaying it in the extracted model, comparing '
         'graphs exactly. networkx generators (gnp, gnm, gnd, grid, torus, complete multipartite) are an unmodelled oracle: their '
         'results are only checked at run time (a check, not a proof).',
    note='Trusted: Coq kernel, extraction, OCaml driver, the harness (recording wrappers, structure checks), networkx, CPython random '
         '(contract only). Graph objects abstracted to (orders, sorted edge list); names not modelled.',
    design_ref='5/C15',
)
RULE = ('one case = one call of a sampler / one graph specification with one recorded draw sequence; non-trivial when the graph has '
        'a vertex or the call is refused; distinct = distinct (stream, call, arguments, draws) keys')
TRUSTED = ['networkx 3.x generators (oracle: gnp, gnm, gnd, grid, torus, complete multipartite); their results are CHECKED at run time only',
           'recording wrappers around random.randint/sample/random/shuffle; the float comparison random() < p is done by the harness',
           'graph objects abstracted to (orders, sorted edge list): internals are property C16']


# --------------------------------------------------------------------------
# recording / scripted replacements of the random module
# --------------------------------------------------------------------------
class ScriptExhausted(Exception):
    pass


class Rec:
    """Replacement of random.randint/sample/random/shuffle.  Real functions of a private Random(seed); every draw is
    appended to self.draws as an int (randint value / sample position) or ('f', float)."""

    def __init__(self, seed, bias=0.0, script=None, limit=6000):
        self.rnd = random.Random(seed)
        self.seed = seed
        self.bias = bias
        self.script = list(script) if script is not None else None
        self.draws = []
        self.marks = {}
        self.ints = []          # history of integer answers, for the bias
        self.limit = limit
        self.unmodelled = []

    def _next(self):
        if not self.script:
            raise ScriptExhausted()
        return self.script.pop(0)

    def _biased(self):
        return self.bias > 0 and len(self.draws) < self.limit and self.ints and self.rnd.random() < self.bias

    def randint(self, a, b):
        if self.script is not None:
            z = self._next()
        else:
            z = self.rnd.randint(a, b)          # ValueError on an empty range, as the real one
            if self._biased():
                c = [x for x in self.ints[-12:] if a <= x <= b]
                if c:
                    z = self.rnd.choice(c)
        self.draws.append(z)
        self.ints.append(z)
        return z

    def sample(self, population, k, **kw):
        if not isinstance(population, collections.abc.Sequence):
            return self.rnd.sample(population, k)   # TypeError of the real function
        n = len(population)
        if self.script is not None:
            if not (0 <= k <= n):
                return self.rnd.sample(range(n), k)
            pos = [self._next() for _ in range(k)]
        else:
            pos = self.rnd.sample(range(n), k)      # ValueError when k < 0 or k > n
            if self.bias > 0:
                for i in range(len(pos)):
                    if self._biased():
                        c = [x for x in self.ints[-12:] if 0 <= x < n and x not in pos]
                        if c:
                            pos[i] = self.rnd.choice(c)
        self.draws.extend(pos)
        self.ints.extend(pos)
        return [population[i] for i in pos]

    def random(self):
        x = self._next() if self.script is not None else self.rnd.random()
        if self.script is None and self.bias > 0 and self.rnd.random() < self.bias:
            x = self.rnd.choice([0.0, 0.999999])
        self.draws.append(('f', x))
        return x

    def shuffle(self, x):
        self.unmodelled.append('shuffle')
        self.rnd.shuffle(x)

    def mark(self, name):
        self.marks[name] = len(self.draws)


def with_random(rec, f):
    """run f() with the random module patched; the global generator (used by networkx) is seeded too"""
    saved = (random.randint, random.sample, random.random, random.shuffle)
    random.seed(rec.seed)
    random.randint, random.sample, random.random, random.shuffle = rec.randint, rec.sample, rec.random, rec.shuffle
    try:
        try:
            return ('ok', f())
        except ScriptExhausted:
            return ('exc', 'ScriptExhausted', '')
        except RecursionError as e:
            return ('exc', 'RecursionError', str(e)[:100])
        except Exception as e:  # noqa
            return ('exc', type(e).__name__, str(e)[:160])
    finally:
        random.randint, random.sample, random.random, random.shuffle = saved


def int_stream(draws, cmp=None, p=None):
    """draws -> model stream; floats become the outcome of the comparison with p"""
    out = []
    for d in draws:
        if isinstance(d, tuple):
            if cmp is None:
                return None
            out.append(1 if (d[1] < p if cmp == '<' else d[1] <= p) else 0)
        else:
            out.append(d)
    return out


# --------------------------------------------------------------------------
# canonical form of graphs (names are not compared)
# --------------------------------------------------------------------------
def canon(g):
    if g.is_bipartite():
        return ['bipartite', g.left_order(), g.right_order(), [list(e) for e in g.edges()]]
    if g.is_directed():
        return ['directed', g.number_of_vertices(), 0, [list(e) for e in g.edges()]]
    return ['simple', g.number_of_vertices(), 0, [list(e) for e in g.edges()]]


def sx_graph(cg):
    return [Sym(cg[0]), cg[1], cg[2], cg[3]]


def consistent_object(g, cg):
    """the graph object answers number_of_edges / has_edge as its edge list says"""
    if g.number_of_edges() != len(cg[3]):
        return False
    return all(g.has_edge(u, v) for u, v in cg[3])


def mod_outcome(rep):
    """reply of a gg_* command -> ('ok', canon, rest-or-extra) | ('exc', class) | ('badoracle',) | ('nofuel',) | ('error', msg)"""
    if is_error(rep):
        return ('error', rep[1])
    if rep[0] == 'ok':
        body = rep[1]
        if body and isinstance(body[0], Sym):            # bare graph
            g, rest = body, []
        else:
            g, rest = body[0], body[1]
        return ('ok', [str(g[0]), g[1], g[2], [list(e) for e in g[3]]], list(rest))
    if rep[0] == 'raise':
        return ('exc', rep[1])
    return (str(rep[0]),)


def agrees(got, mod):
    """implementation outcome ('ok', canon) | ('exc', cls, msg) against a model outcome; the model must have read all draws"""
    if got[0] == 'ok':
        return mod[0] == 'ok' and mod[1] == got[1] and mod[2] == []
    return mod[0] == 'exc' and mod[1] == got[1]


# --------------------------------------------------------------------------
# structure checks (the PROPERTY, on the implementation's result alone); each returns None or a description
# --------------------------------------------------------------------------
def degs(cg):
    left, right = {}, {}
    for u, v in cg[3]:
        left[u] = left.get(u, 0) + 1
        right[v] = right.get(v, 0) + 1
    return left, right


def simple_degrees(cg):
    d = {v: 0 for v in range(1, cg[1] + 1)}
    for u, v in cg[3]:
        d[u] += 1
        d[v] += 1
    return d


def wellformed(cg):
    k, n, r, es = cg
    if sorted(map(tuple, es)) != [tuple(e) for e in es] or len(set(map(tuple, es))) != len(es):
        return 'edge list not strictly sorted'
    for u, v in es:
        if k == 'simple' and not (1 <= u < v <= n):
            return 'edge (%d,%d) outside a simple graph of order %d' % (u, v, n)
        if k == 'directed' and not (1 <= u <= n and 1 <= v <= n):
            return 'edge outside the graph'
        if k == 'bipartite' and not (1 <= u <= n and 1 <= v <= r):
            return 'edge outside the graph'
    return None


def chk_orders(cg, kind, n, r=0):
    if cg[0] != kind or cg[1] != n or cg[2] != r:
        return 'orders are (%s,%d,%d), expected (%s,%d,%d)' % (cg[0], cg[1], cg[2], kind, n, r)
    return wellformed(cg)


def chk_m_edges(cg, L, R, m):
    return chk_orders(cg, 'bipartite', L, R) or (None if len(cg[3]) == m else '%d edges, not %d' % (len(cg[3]), m))


def chk_left_regular(cg, L, R, d):
    e = chk_orders(cg, 'bipartite', L, R)
    if e:
        return e
    left, _ = degs(cg)
    bad = [u for u in range(1, L + 1) if left.get(u, 0) != d]
    return 'left vertex %d has degree %d, not %d' % (bad[0], left.get(bad[0], 0), d) if bad else None


def chk_regular(cg, L, R, d):
    e = chk_left_regular(cg, L, R, d)
    if e:
        return e
    _, right = degs(cg)
    rd = L * d // R
    bad = [v for v in range(1, R + 1) if right.get(v, 0) != rd]
    return 'right vertex %d has degree %d, not %d' % (bad[0], right.get(bad[0], 0), rd) if bad else None


def chk_shift(cg, N, M, pat):
    e = chk_orders(cg, 'bipartite', N, M)
    if e:
        return e
    exp = sorted({(u, 1 + (u - 1 + o) % M) for u in range(1, N + 1) for o in pat})
    return None if [tuple(x) for x in cg[3]] == exp else 'edges are not u ~ 1 + (u-1+offset) mod M'


def chk_complete_bip(cg, L, R):
    return chk_orders(cg, 'bipartite', L, R) or (None if len(cg[3]) == L * R else 'not complete')


def chk_complete(cg, n):
    return chk_orders(cg, 'simple', n) or (None if len(cg[3]) == n * (n - 1) // 2 else 'not complete')


def chk_empty(cg, kind, n, r=0):
    return chk_orders(cg, kind, n, r) or (None if not cg[3] else 'not empty')


def is_dag(cg):
    return all(u < v for u, v in cg[3])


def chk_path(cg, L):
    e = chk_orders(cg, 'directed', L + 1)
    if e:
        return e
    return None if [tuple(x) for x in cg[3]] == [(i, i + 1) for i in range(1, L + 1)] else 'not the path 1 -> 2 -> ... -> L+1'


def chk_tree(cg, h):
    e = chk_orders(cg, 'directed', 2 ** (h + 1) - 1)
    if e:
        return e
    # independent layout: layer j (from the leaves) has 2^(h-j) vertices
    start, s = [], 1
    for j in range(h + 1):
        start.append(s)
        s += 2 ** (h - j)
    exp = sorted((start[j] + 2 * p + b, start[j + 1] + p) for j in range(h) for p in range(2 ** (h - j - 1)) for b in (0, 1))
    if [tuple(x) for x in cg[3]] != exp:
        return 'not the complete binary tree numbered from the leaves'
    if len(exp) != 2 ** (h + 1) - 2 or not is_dag(cg):
        return 'tree: wrong edge count or cyclic'
    return None


def chk_pyramid(cg, h):
    e = chk_orders(cg, 'directed', (h + 1) * (h + 2) // 2)
    if e:
        return e
    start, s = [], 1
    for j in range(h + 1):
        start.append(s)
        s += h + 1 - j
    exp = sorted((start[j] + p + b, start[j + 1] + p) for j in range(h) for p in range(h - j) for b in (0, 1))
    if [tuple(x) for x in cg[3]] != exp:
        return 'not the pyramid numbered from the bottom layer'
    if len(exp) != h * (h + 1) or not is_dag(cg):
        return 'pyramid: wrong edge count or cyclic'
    return None


def chk_plant(before, after, chosen):
    """chosen: list of pairs that must be edges afterwards"""
    if after[:3] != before[:3]:
        return 'orders changed'
    ea = set(map(tuple, after[3]))
    if not set(map(tuple, before[3])) <= ea:
        return 'an edge was removed'
    missing = [p for p in chosen if p not in ea]
    if missing:
        return 'pair %r of the sampled set is not an edge' % (missing[0],)
    if len(ea) > len(before[3]) + len(set(chosen)):
        return 'edges outside the planted set were added'
    return wellformed(after)


def chk_addedges(before, after, k):
    if after[:3] != before[:3]:
        return 'orders changed'
    if not set(map(tuple, before[3])) <= set(map(tuple, after[3])):
        return 'an edge was removed'
    if len(after[3]) != len(before[3]) + k:
        return '%d new edges, not %d' % (len(after[3]) - len(before[3]), k)
    return wellformed(after)


def chk_split(before, after, k):
    if after[0] != 'simple' or after[1] != before[1] + k:
        return '%d new vertices, not %d' % (after[1] - before[1], k)
    if len(after[3]) != len(before[3]) + k:
        return '%d more edges, not %d' % (len(after[3]) - len(before[3]), k)
    e = wellformed(after)
    if e:
        return e
    n0 = before[1]
    old = set(map(tuple, before[3]))
    new = set(map(tuple, after[3]))
    nb = {}
    for u, v in new:
        if v > n0:
            nb.setdefault(v, []).append(u)
            if u > n0:
                return 'two new vertices are adjacent'
    gone = set()
    for x in range(n0 + 1, n0 + k + 1):
        if len(nb.get(x, [])) != 2:
            return 'new vertex %d does not have degree 2' % x
        e2 = tuple(sorted(nb[x]))
        if e2 not in old or e2 in new or e2 in gone:
            return 'new vertex %d does not subdivide an edge of the graph' % x
        gone.add(e2)
    if {e for e in new if e[1] <= n0} != old - gone:
        return 'edges other than the subdivided ones changed'
    return None


# --------------------------------------------------------------------------
# one case: run the implementation under a recorder, judge the property, queue the model requests
# --------------------------------------------------------------------------
class Case:
    def __init__(self, stream, name, args, call, variants, prop=None, reachable=True, site=None,
                 compare=None, cmp=None, p=None, extra=None, alt_cmp=None, old_cls=None):
        self.stream, self.name, self.args = stream, name, args
        self.call = call              # () -> canon or tuple starting with canon
        self.variants = variants      # draws(list of int) -> list of model requests: the model of the CURRENT code first (it is
                                      # demanded), then the model of the code as found (only to recognise a lost repair)
        self.prop = prop              # canon -> None | description   (structure promised for the returned graph)
        self.reachable = reachable    # the arguments pass the command line guard: any exception but ValueError is a failing input
        self.site = site or name
        self.compare = compare or agrees
        self.cmp, self.p, self.alt_cmp = cmp, p, alt_cmp   # cmp: the comparison of the current code; alt_cmp: of the code as found
        self.old_cls = old_cls        # class of the repaired finding the as-found variant stands for
        self.extra = extra or {}
        self.prop_draws = None        # (canon, recorded integer draws) -> None | description
        self.nomodel = False          # large instance: the model is quadratic in the number of edges; the structure check alone is run


class Runner:
    def __init__(self, ctx):
        self.ctx = ctx
        self.pending = []

    def run(self, case, seed=None, bias=0.0, script=None):
        ctx = self.ctx
        seed = ctx.rng.getrandbits(48) if seed is None else seed
        rec = Rec(seed, bias=bias, script=script, limit=6000 if not case.nomodel else 0)
        res = with_random(rec, case.call)
        if res[0] == 'ok':
            val = res[1]
            got = ('ok',) + (tuple(val) if isinstance(val, tuple) else (val,))
        else:
            got = res
        inp = dict(call=case.name, args=case.args, seed=seed, bias=bias,
                   draws=[d if not isinstance(d, tuple) else ['f', d[1]] for d in (rec.draws if len(rec.draws) <= 4000 else rec.draws[:200])])
        if len(rec.draws) > 4000:
            inp['number_of_draws'] = len(rec.draws)       # replay by seed and bias: the recorder is deterministic
        inp.update({k: (v if not (isinstance(v, list) and len(str(v)) > 20000) else str(v)[:2000] + ' ...') for k, v in case.extra.items()})
        key = (case.name, str(case.args), str(rec.draws[:60]), len(rec.draws))
        nontrivial = got[0] != 'ok' or got[1][1] + got[1][2] > 0
        ctx.count(case.stream, key, nontrivial, sample=dict(call=case.name, args=case.args, draws=len(rec.draws),
                                                            outcome=got[1] if got[0] == 'exc' else 'graph'))
        ctx.tally(case.stream + ' outcome', '%s:%s' % (case.name, got[1] if got[0] == 'exc' else 'graph'))
        ctx.tally(case.stream + ' draws', '0' if not rec.draws else ('1-9' if len(rec.draws) < 10 else ('10-99' if len(rec.draws) < 100 else '>=100')))
        flagged = False
        if got[0] == 'exc' and got[1] in ('ScriptExhausted',):
            return got, rec
        # 1. the property on the implementation alone
        if got[0] == 'exc' and got[1] != 'ValueError' and case.reachable:
            ctx.disagreements_checked += 1
            flagged = True
            ctx.violation('counterexample', '%s%r raised %s (%s): an internal failure, not a refusal with an error message' %
                          (case.name, tuple(case.args), got[1], got[2][:80]),
                          dict(input=inp, implementation=list(got)), True, site=case.site, cls='raises-' + got[1])
        if got[0] == 'ok' and (case.prop is not None or case.prop_draws is not None):
            why = case.prop(*got[1:]) if case.prop is not None else case.prop_draws(got[1], [d for d in rec.draws if not isinstance(d, tuple)])
            if why:
                ctx.disagreements_checked += 1
                flagged = True
                w, cls = why if isinstance(why, tuple) else (why, 'structure')
                shown = [list(x) if isinstance(x, (list, tuple)) else x for x in got]
                if len(str(shown)) > 20000:
                    shown = [str(x)[:3000] + ' ...' for x in shown]
                ctx.violation('counterexample', '%s%r returned a graph without the promised structure: %s' % (case.name, tuple(case.args), w),
                              dict(input=inp, implementation=shown), True, site=case.site, cls=cls)
        # 2. queue the replay of the draws in the model
        if case.nomodel:
            ctx.tally(case.stream + ' checked', 'structure check only (large instance)')
            return got, rec
        if rec.unmodelled:
            ctx.violation('correspondence', 'the implementation used random.%s, which the model does not know' % rec.unmodelled[0],
                          dict(input=inp), False, site=case.site, cls='unmodelled-draw')
            return got, rec
        stream = int_stream(rec.draws, case.cmp, case.p)
        if stream is None:
            ctx.violation('correspondence', 'float draws in a sampler the model reads integers for', dict(input=inp), False,
                          site=case.site, cls='unmodelled-draw')
            return got, rec
        reqs = case.variants(stream)
        if case.alt_cmp is not None:
            reqs = reqs + case.variants(int_stream(rec.draws, case.alt_cmp, case.p))
        self.pending.append((case, inp, got, reqs, flagged))
        return got, rec

    def flush(self):
        ctx = self.ctx
        reqs = [r for (_c, _i, _g, vs, _f) in self.pending for r in vs]
        reps = ctx.model.batch(reqs) if reqs else []
        k = 0
        for (case, inp, got, vs, flagged) in self.pending:
            mods = [mod_outcome(r) for r in reps[k:k + len(vs)]]
            k += len(vs)
            hit = [i for i, m in enumerate(mods) if case.compare(got, m)]
            if len(mods) > 1 and mods[0] != mods[1]:
                ctx.tally('cases on which the repairs matter', case.name)
            if 0 in hit:
                ctx.tally('model variant agreed', case.name + (':current' if len(vs) > 1 else ':only'))
                continue
            ctx.disagreements_checked += 1
            if hit:
                # the implementation sides with the model of the code AS FOUND against the model of the current code: a repair is lost
                ctx.violation('counterexample' if flagged else 'correspondence',
                              '%s%r behaves as the code did before its repair (%s): replaying the recorded draws, the model of the code as found '
                              'agrees and the model of the current code does not' % (case.name, tuple(case.args), case.old_cls),
                              dict(input=inp, implementation=[list(x) if isinstance(x, (list, tuple)) else x for x in got],
                                   model=[list(m) for m in mods], correspondence='GraphGen.v <-> ' + case.name), flagged,
                              site=case.site, cls=case.old_cls or 'as-found-behaviour')
                continue
            ctx.violation('correspondence', 'replaying the recorded draws of %s%r in the model (GraphGen.v) gives another result; '
                          'the C15 theorems no longer cover the code' % (case.name, tuple(case.args)),
                          dict(input=inp, implementation=[list(x) if isinstance(x, (list, tuple)) else x for x in got],
                               model=[list(m) for m in mods], correspondence='GraphGen.v <-> ' + case.name), False,
                          site=case.site, cls='model-differs')
        self.pending = []


# --------------------------------------------------------------------------
# the in-house samplers, fixed graphs and modifications as cases
# --------------------------------------------------------------------------
def build_graph(G, cg):
    if cg[0] == 'bipartite':
        g = G.BipartiteGraph(cg[1], cg[2])
    elif cg[0] == 'simple':
        g = G.Graph(cg[1])
    else:
        g = G.DirectedGraph(cg[1])
    for u, v in cg[3]:
        g.add_edge(u, v)
    return g


def case_m_edges(G, L, R, m, stream='sampler'):
    dense = L > 0 and R > 0 and m > L * R // 3
    return Case(stream, 'bipartite_random_m_edges', [L, R, m], lambda: canon(G.bipartite_random_m_edges(L, R, m)),
                lambda s: [cmd('gg_m_edges', True, L, R, m, s), cmd('gg_m_edges', False, L, R, m, s)],
                prop=lambda cg: chk_m_edges(cg, L, R, m), reachable=(L > 0 and R > 0 and 0 <= m <= L * R),
                site='glrm-dense' if dense else 'glrm-sparse', old_cls='raises-TypeError')


def case_left_regular(G, l, r, d, stream='sampler'):
    return Case(stream, 'bipartite_random_left_regular', [l, r, d], lambda: canon(G.bipartite_random_left_regular(l, r, d)),
                lambda s: [cmd('gg_left_regular', l, r, d, s)],
                prop=lambda cg: chk_left_regular(cg, l, r, min(r, d)), reachable=(l > 0 and r > 0 and 0 <= d <= r), site='glrd')


def prop_regular(l, r, d):
    def f(cg):
        why = chk_regular(cg, l, r, d)
        if why and chk_orders(cg, 'bipartite', l, r) is None and len(cg[3]) < l * d:
            return (why + ' (%d edges instead of %d: a position was skipped after its retries ran out)' % (len(cg[3]), l * d),
                    'position-skipped-not-regular')
        return why
    return f


def case_regular(G, l, r, d, stream='sampler'):
    ok = l > 0 and r > 0 and 0 <= d <= r and (d * l) % r == 0
    def compare(got, mod):
        # d > r (not reachable from the command line): no such graph exists, the function restarts for ever
        if got[0] == 'exc' and got[1] == 'RecursionError':
            return mod[0] in ('nofuel', 'badoracle') and d > r
        return agrees(got, mod)
    return Case(stream, 'bipartite_random_regular', [l, r, d], lambda: canon(G.bipartite_random_regular(l, r, d)),
                lambda s: [cmd('gg_random_regular', True, 1200, l, r, d, s), cmd('gg_random_regular', False, 1200, l, r, d, s)],
                prop=prop_regular(l, r, d), reachable=ok, site='regular', compare=compare, old_cls='position-skipped-not-regular')


def case_shift(G, N, M, pat, stream='sampler'):
    def call():
        p = list(pat)
        g = G.bipartite_shift(N, M, p)
        return (canon(g), p)

    def prop(cg, after):
        why = chk_shift(cg, N, M, pat)
        if why:
            return why
        if after != list(pat):
            return ('the caller\'s pattern %r was changed to %r' % (list(pat), after), 'sorts-caller-pattern')
        return None

    def compare(got, mod):
        if got[0] == 'ok':
            return mod[0] == 'ok' and mod[1] == got[1] and mod[2] == got[2]
        return mod[0] == 'exc' and mod[1] == got[1]
    return Case(stream, 'bipartite_shift', [N, M, list(pat)], call,
                lambda s: [cmd('gg_shift', False, N, M, list(pat)), cmd('gg_shift', True, N, M, list(pat))],
                prop=prop, reachable=(N > 0 and M > 0), site='bipartite_shift', compare=compare, old_cls='sorts-caller-pattern')


def case_fixed(G, which, args, stream='sampler'):
    f = {'complete-bipartite': (lambda: G.CompleteBipartiteGraph(*args), lambda cg: chk_complete_bip(cg, *args), all(a >= 0 for a in args)),
         'empty-bipartite': (lambda: G.BipartiteGraph(*args), lambda cg: chk_empty(cg, 'bipartite', *args), all(a >= 0 for a in args)),
         'complete-simple': (lambda: G.Graph.complete_graph(*args), lambda cg: chk_complete(cg, *args), args[0] >= 0),
         'empty-simple': (lambda: G.Graph.empty_graph(*args), lambda cg: chk_empty(cg, 'simple', *args), args[0] >= 0),
         'dag-pyramid': (lambda: G.dag_pyramid(*args), lambda cg: chk_pyramid(cg, *args), args[0] >= 0),
         'dag-tree': (lambda: G.dag_complete_binary_tree(*args), lambda cg: chk_tree(cg, *args), args[0] >= 0),
         'dag-path': (lambda: G.dag_path(*args), lambda cg: chk_path(cg, *args), args[0] >= 0)}[which]

    def call():
        g = f[0]()
        cg = canon(g)
        if not consistent_object(g, cg) or (cg[0] == 'directed' and g.is_dag() != is_dag(cg)):
            raise AssertionError('graph object inconsistent with its edge list')
        return cg
    return Case(stream, which, list(args), call, lambda s: [cmd('gg_' + which.replace('-', '_'), *args)], prop=f[1], reachable=f[2], site=which)


def case_bip_random(G, L, R, p, stream='sampler'):
    pok = 0 <= p <= 1

    def prop(cg):
        e = chk_orders(cg, 'bipartite', L, R)
        if e:
            return e
        if p == 0 and cg[3]:
            return ('p = 0 but there are edges (random() returned 0.0 and the test is `<= p` again)', 'p0-nonempty')
        if p == 1 and len(cg[3]) != L * R:
            return 'p = 1 but the graph is not complete'
        return None
    return Case(stream, 'bipartite_random', [L, R, p], lambda: canon(G.bipartite_random(L, R, p)),
                lambda s: [cmd('gg_bip_random', L, R, pok, s)], prop=prop, reachable=(L > 0 and R > 0 and pok), site='glrp', cmp='<', p=p,
                alt_cmp='<=', old_cls='p0-nonempty')


def prop_tnp(t, n, p):
    def prop(cg):
        e = chk_orders(cg, 'simple', t * n)
        if e:
            return e
        if any((u - 1) // n == (v - 1) // n for u, v in cg[3]):
            return 'an edge inside a block'
        if p == 1 and len(cg[3]) != n * n * t * (t - 1) // 2:
            return 'p = 1 but not complete multipartite'
        if p == 0 and cg[3]:
            return 'p = 0 but there are edges'
        return None
    return prop


def case_tnp(B, t, n, p, stream='sampler'):
    return Case(stream, 'multipartite_tnp', [t, n, p], lambda: canon(B.multipartite_tnp(t, n, p)),
                lambda s: [cmd('gg_tnp', t, n, s)], prop=prop_tnp(t, n, p), reachable=(t > 0 and n > 0 and 0 <= p <= 1), site='gnp-multipartite', cmp='<', p=p)


def opt(x):
    return None if x is None else [Sym('some'), list(x)]


def case_modify(G, B, what, cg, args, stream='sampler'):
    """what: plantclique | plantbiclique | addedges | splitedges ; args: integer arguments of the option"""
    toks = [str(a) for a in args]

    def call():
        g = build_graph(G, cg)
        g.name = 'G'
        if what == 'plantclique':
            B.modify_simple_graph_plantclique({'plantclique': toks}, g)
        elif what == 'plantbiclique':
            B.modify_bipartite_graph_plantbiclique({'plantbiclique': toks}, g)
        elif what == 'addedges':
            B.modify_graph_addedges({'addedges': toks}, g)
        else:
            B.modify_graph_splitedges({'splitedges': toks}, g)
        after = canon(g)
        if not consistent_object(g, after):
            raise AssertionError('graph object inconsistent with its edge list')
        return after

    def variants(s):
        o = dict(plant=None, add=None, split=None)
        o[{'plantclique': 'plant', 'plantbiclique': 'plant', 'addedges': 'add', 'splitedges': 'split'}[what]] = list(args)
        return [cmd('gg_modify', opt(o['plant']), opt(o['add']), opt(o['split']), sx_graph(cg), s)]
    c = Case(stream, what, [cg[1], cg[2], len(cg[3])] + list(args), call, variants, site=what,
             reachable=(what != 'splitedges' or cg[0] == 'simple'), extra=dict(graph=cg, option=what, option_args=list(args)))
    c.prop_draws = lambda after, draws: judge_modify(what, cg, after, list(args), draws)
    return c


def judge_modify(what, before, after, args, draws):
    """structure promised by one option, given the draws it consumed (positions of random.sample)"""
    if what == 'plantclique':
        k = args[0]
        if k > before[1]:
            return 'a clique of %d vertices was requested in a graph of %d vertices and the request was not refused' % (k, before[1])
        cl = [p + 1 for p in draws[:k]]
        return chk_plant(before, after, [(min(a, b), max(a, b)) for a, b in itertools.combinations(cl, 2)])
    if what == 'plantbiclique':
        a, b = args
        if a > before[1] or b > before[2]:
            return 'a biclique larger than the graph was requested and the request was not refused'
        lf = [p + 1 for p in draws[:a]]
        rt = [p + 1 for p in draws[a:a + b]]
        return chk_plant(before, after, [(u, v) for u in lf for v in rt])
    if what == 'addedges':
        return chk_addedges(before, after, args[0])
    return chk_split(before, after, args[0])


def random_base(rng, kind, maxn=7):
    if kind == 'bipartite':
        L, R = rng.randint(1, 5), rng.randint(1, 5)
        p = rng.choice([0.0, 0.2, 0.5, 0.8, 1.0])
        return ['bipartite', L, R, [[u, v] for u in range(1, L + 1) for v in range(1, R + 1) if rng.random() < p]]
    n = rng.randint(1, maxn)
    p = rng.choice([0.0, 0.2, 0.5, 0.8, 1.0])
    return ['simple', n, 0, [[u, v] for u in range(1, n + 1) for v in range(u + 1, n + 1) if rng.random() < p]]


BIASES = [0.0, 0.0, 0.5, 0.9, 1.0]


def run_samplers(ctx, R, G, B, quick):
    rng = ctx.rng
    reps = 2 if quick else 30
    # ---- bipartite_random_m_edges: every m from -1 to L*R+1 on small sides, the sparse/dense switch on larger ones
    for L in range(0, 5):
        for Rr in range(0, 5):
            for m in range(-1, L * Rr + 2):
                for _ in range(1 if quick else 12):
                    ctx.tally('m_edges regime', 'refused' if not (L > 0 and Rr > 0 and 0 <= m <= L * Rr) else ('dense' if m > L * Rr // 3 else 'sparse'))
                    R.run(case_m_edges(G, L, Rr, m), bias=rng.choice(BIASES))
    for (L, Rr) in [(6, 7), (9, 5), (3, 20), (12, 12)] + ([] if quick else [(25, 17), (40, 3), (30, 30)]):
        t = L * Rr // 3
        for m in [0, 1, t - 1, t, t + 1, L * Rr - 1, L * Rr, L * Rr + 1]:
            for _ in range(reps):
                ctx.tally('m_edges regime', 'refused' if m > L * Rr else ('dense' if m > t else 'sparse'))
                R.run(case_m_edges(G, L, Rr, m), bias=rng.choice(BIASES))
    R.flush()
    # ---- bipartite_random_left_regular
    for l in [-1, 0, 1, 2, 5]:
        for r in [-1, 0, 1, 3, 6]:
            for d in sorted({-1, 0, 1, r - 1, r, r + 1}):
                for _ in range(1 if quick else 3):
                    R.run(case_left_regular(G, l, r, d), bias=rng.choice([0, 0.5]))
    for _ in range(20 if quick else 2000):
        l, r = rng.randint(1, 12), rng.randint(1, 12)
        R.run(case_left_regular(G, l, r, rng.choice([0, 1, r // 2, r - 1, r])), bias=rng.choice([0, 0.5]))
    R.flush()
    # ---- bipartite_random_regular, collisions provoked by the bias
    for l in [-1, 0, 1, 2, 3, 4, 6]:
        for r in [-1, 0, 1, 2, 3, 4, 6]:
            for d in sorted({-1, 0, 1, 2, 3, r, r + 1}):
                if l * d > 40:
                    continue
                for _ in range(1 if quick else 12):
                    b = rng.choice(BIASES + [0.97])
                    ctx.tally('regular divisibility', 'refused' if (l < 0 or r <= 0 or d < 0) else ('r divides l*d' if (l * d) % r == 0 else 'r does not divide l*d'))
                    R.run(case_regular(G, l, r, d), bias=b)
    for _ in range(30 if quick else 3000):
        r = rng.randint(1, 8)
        d = rng.randint(0, r)
        l = r * rng.randint(1, 3) if rng.random() < 0.5 else rng.randint(1, 10)
        if (l * d) % r:
            l = l * r
        if l * d > 120:
            continue
        R.run(case_regular(G, l, r, d), bias=rng.choice(BIASES + [0.97, 0.97]))
    R.flush()
    # ---- bipartite_shift (the caller's list is observed after the call)
    pats = [[], [0], [1], [3, 1], [1, 3], [0, 3], [2, 2], [5, 0, 2], [-1], [7], [4, 0], [1, 2, 3, 4]]
    for N in [-1, 0, 1, 2, 4, 7]:
        for M in [-1, 0, 1, 3, 4]:
            for pat in pats:
                ctx.tally('shift pattern', 'sorted' if pat == sorted(pat) else 'unsorted')
                R.run(case_shift(G, N, M, pat))
    for _ in range(20 if quick else 1500):
        M = rng.randint(1, 9)
        pat = [rng.randint(0, M) for _ in range(rng.randint(0, 4))]
        R.run(case_shift(G, rng.randint(1, 9), M, pat))
    R.flush()
    # ---- fixed graphs
    for a in range(-1, 6):
        for b in range(-1, 6):
            R.run(case_fixed(G, 'complete-bipartite', (a, b)))
            R.run(case_fixed(G, 'empty-bipartite', (a, b)))
    for n in list(range(-1, 9)) + [12, 20]:
        R.run(case_fixed(G, 'complete-simple', (n,)))
        R.run(case_fixed(G, 'empty-simple', (n,)))
    for h in range(-1, 7 if quick else 9):
        R.run(case_fixed(G, 'dag-tree', (h,)))
    for h in list(range(-1, 9)) + ([] if quick else [12, 20]):
        R.run(case_fixed(G, 'dag-pyramid', (h,)))
    for h in list(range(-1, 9)) + [15, 40]:
        R.run(case_fixed(G, 'dag-path', (h,)))
    R.flush()
    # ---- independent edges
    for (L, Rr) in [(0, 1), (1, 0), (1, 1), (2, 3), (4, 4)]:
        for p in [-0.5, 0.0, 0.3, 0.5, 1.0, 1.5]:
            R.run(case_bip_random(G, L, Rr, p), bias=rng.choice([0, 0.3]))
    for (t, n) in [(1, 3), (2, 1), (2, 2), (3, 2), (4, 3)]:
        for p in [0.0, 0.4, 1.0]:
            R.run(case_tnp(B, t, n, p), bias=rng.choice([0, 0.3]))
    R.flush()
    # ---- options on given graphs: every k from -1 to one past the limit
    nb = 25 if quick else 2500
    for i in range(nb):
        cg = random_base(rng, 'simple')
        n, m = cg[1], len(cg[3])
        miss = n * (n - 1) // 2 - m
        k = rng.choice([-1, 0, 1, n - 1, n, n + 1])
        ctx.tally('plantclique k', 'k<0' if k < 0 else ('k>n' if k > n else ('k=n' if k == n else 'inside')))
        R.run(case_modify(G, B, 'plantclique', cg, [k]), bias=rng.choice([0, 0.5]))
        k = rng.choice([-1, 0, 1, 2, miss // 2, miss - 1, miss, miss + 1])
        ctx.tally('addedges k (simple)', 'k<0' if k < 0 else ('k>missing' if k > miss else ('k=missing' if k == miss else 'inside')))
        R.run(case_modify(G, B, 'addedges', cg, [k]), bias=rng.choice(BIASES))
        k = rng.choice([-1, 0, 1, 2, m // 2, m - 1, m, m + 1])
        ctx.tally('splitedges k', 'k<0' if k < 0 else ('k>edges' if k > m else ('k=edges' if k == m else 'inside')))
        R.run(case_modify(G, B, 'splitedges', cg, [k]), bias=rng.choice([0, 0.5]))
        cb = random_base(rng, 'bipartite')
        L, Rr, m = cb[1], cb[2], len(cb[3])
        miss = L * Rr - m
        a, b = rng.choice([-1, 0, 1, L, L + 1]), rng.choice([0, 1, Rr, Rr + 1])
        R.run(case_modify(G, B, 'plantbiclique', cb, [a, b]), bias=rng.choice([0, 0.5]))
        k = rng.choice([-1, 0, 1, 2, miss // 2, miss - 1, miss, miss + 1])
        ctx.tally('addedges k (bipartite)', 'k<0' if k < 0 else ('k>missing' if k > miss else ('k=missing' if k == miss else 'inside')))
        R.run(case_modify(G, B, 'addedges', cb, [k]), bias=rng.choice(BIASES))
    # wrong arity of the option
    cg = ['simple', 4, 0, [[1, 2]]]
    for what, args in [('plantclique', []), ('plantclique', [1, 2]), ('addedges', []), ('addedges', [1, 1]), ('splitedges', []), ('splitedges', [1, 1])]:
        R.run(case_modify(G, B, what, cg, args))
    cb = ['bipartite', 2, 2, [[1, 2]]]
    for args in [[], [1], [1, 1, 1]]:
        R.run(case_modify(G, B, 'plantbiclique', cb, args))
    # split_random_edges is refused on a bipartite graph (TypeError; the option is not offered for bipartite graphs)
    R.run(case_modify(G, B, 'splitedges', cb, [1]))
    R.flush()


def run_scripted(ctx, R, G, B):
    """hand-written draw sequences: long collision runs the generator would not produce by chance"""
    # regular 2 2 2: position 1 exhausts its 12 retries on the present edge (1,1) although (2,2) is free
    R.run(case_regular(G, 2, 2, 2, 'scripted'), script=[0, 0] + [2, 2] * 12 + [2, 3, 3, 3])
    # the same start, then a dead end at the last position: restart from scratch
    R.run(case_regular(G, 2, 2, 2, 'scripted'), script=[0, 0] + [2, 2] * 12 + [2, 2, 3, 3] + [3, 3] * 12 + [0, 0, 1, 1, 2, 3, 3, 3])
    # sparse m_edges: the same pair again and again
    R.run(case_m_edges(G, 3, 3, 2, 'scripted'), script=[1, 1] + [1, 1] * 30 + [3, 2])
    R.run(case_m_edges(G, 1, 4, 1, 'scripted'), script=[1, 4])
    # addedges: 10*m collisions, then the fallback sample of the available edges
    c = case_modify(G, B, 'addedges', ['simple', 4, 0, [[1, 2]]], [2])
    c.stream = 'scripted'
    R.run(c, script=[0, 1] * 20 + [4, 0])
    c = case_modify(G, B, 'addedges', ['bipartite', 2, 3, [[1, 1], [2, 3]]], [1])
    c.stream = 'scripted'
    R.run(c, script=[0, 0, 1, 2] * 5 + [3])
    c = case_modify(G, B, 'addedges', ['simple', 4, 0, [[1, 2]]], [2])
    c.stream = 'scripted'
    R.run(c, script=[0, 1] * 3 + [1, 0, 3, 2, 2, 3, 0, 2])
    R.flush()


# --------------------------------------------------------------------------
# command line specifications through the real parser
# --------------------------------------------------------------------------
GUARD_NAME = {('simple', 'gnd'): 'gnd', ('simple', 'gnp'): 'gnp', ('simple', 'gnm'): 'gnm', ('simple', 'complete'): 'complete-simple',
              ('simple', 'empty'): 'empty-simple', ('simple', 'grid'): 'grid', ('simple', 'torus'): 'torus',
              ('bipartite', 'glrp'): 'glrp', ('bipartite', 'glrm'): 'glrm', ('bipartite', 'glrd'): 'glrd', ('bipartite', 'regular'): 'regular',
              ('bipartite', 'shift'): 'shift', ('bipartite', 'complete'): 'complete-bipartite', ('bipartite', 'empty'): 'empty-bipartite',
              ('dag', 'path'): 'path', ('dag', 'tree'): 'tree', ('dag', 'pyramid'): 'pyramid',
              ('digraph', 'path'): 'path', ('digraph', 'tree'): 'tree', ('digraph', 'pyramid'): 'pyramid'}
INHOUSE = {'glrm', 'glrd', 'regular', 'shift', 'complete-bipartite', 'empty-bipartite', 'empty-simple', 'path', 'tree', 'pyramid'}
OPTION_FUNCS = [('modify_simple_graph_plantclique', 'plantclique'), ('modify_bipartite_graph_plantbiclique', 'plantbiclique'),
                ('modify_graph_addedges', 'addedges'), ('modify_graph_splitedges', 'splitedges')]


class Instrument:
    """snapshots of the graph after the construction and after every option, with the number of draws made so far"""

    def __init__(self, A, rec, stages):
        self.A, self.rec, self.stages, self.saved = A, rec, stages, []

    def snap(self, label, g):
        self.stages.append((label, canon(g), len(self.rec.draws), consistent_object(g, canon(g))))
        return g

    def __enter__(self):
        A = self.A
        for ty, d in A.constructions.items():
            for name, f in list(d.items()):
                self.saved.append((d, name, f))
                d[name] = (lambda f: lambda parsed: self.snap('base', f(parsed)))(f)
        for attr, label in OPTION_FUNCS:
            f = getattr(A, attr)
            self.saved.append((None, attr, f))
            setattr(A, attr, (lambda f, label: lambda parsed, g: self.snap(label, f(parsed, g)))(f, label))
        return self

    def __exit__(self, *exc):
        for d, name, f in self.saved:
            if d is None:
                setattr(self.A, name, f)
            else:
                d[name] = f
        return False


def to_ints(toks):
    try:
        return [int(t) for t in toks]
    except (ValueError, TypeError):
        return None


def to_float(t):
    try:
        return float(t)
    except ValueError:
        return None


def expected_grid(dims, periodic):
    nodes = list(itertools.product(*[range(d) for d in dims]))
    edges = set()
    for t in nodes:
        for k, d in enumerate(dims):
            if t[k] + 1 < d:
                edges.add((t, t[:k] + (t[k] + 1,) + t[k + 1:]))
            elif periodic and d >= 3:
                edges.add((t[:k] + (0,) + t[k + 1:], t))
    return nodes, edges


def chk_grid(cg, dims, periodic):
    import networkx
    if not dims:
        return None if (cg[1] == 1 and not cg[3]) else ('no dimension given: a graph with %d vertices is returned' % cg[1], 'no-dimension')
    nodes, edges = expected_grid(dims, periodic)
    e = chk_orders(cg, 'simple', len(nodes))
    if e:
        return e
    if len(cg[3]) != len(edges):
        return '%d edges, a %s of dimensions %r has %d' % (len(cg[3]), 'torus' if periodic else 'grid', dims, len(edges))
    H = networkx.Graph()
    H.add_nodes_from(nodes)
    H.add_edges_from(edges)
    K = networkx.Graph()
    K.add_nodes_from(range(1, cg[1] + 1))
    K.add_edges_from(map(tuple, cg[3]))
    if sorted(d for _, d in H.degree()) != sorted(d for _, d in K.degree()):
        return 'degree sequence differs from the %s of dimensions %r' % ('torus' if periodic else 'grid', dims)
    if len(nodes) <= 30 and not networkx.is_isomorphic(H, K):
        return 'not isomorphic to the %s of dimensions %r' % ('torus' if periodic else 'grid', dims)
    return None


def check_base(ty, cons, a, cg):
    """CHECK (not proof) that the graph returned by a construction has the structure its name promises.
    a: converted arguments (ints; p as float)."""
    if ty == 'simple':
        if cons == 'gnp':
            n, p = a[0], a[1]
            t = a[2] if len(a) == 3 else 1
            if t != 1:
                return prop_tnp(t, n, p)(cg)
            e = chk_orders(cg, 'simple', n)
            if e:
                return e
            if p == 0 and cg[3]:
                return 'p = 0 but there are edges'
            if p == 1 and len(cg[3]) != n * (n - 1) // 2:
                return 'p = 1 but not complete'
            return None
        if cons == 'gnm':
            return chk_orders(cg, 'simple', a[0]) or (None if len(cg[3]) == a[1] else '%d edges, not %d' % (len(cg[3]), a[1]))
        if cons == 'gnd':
            e = chk_orders(cg, 'simple', a[0])
            if e:
                return e
            bad = [v for v, d in simple_degrees(cg).items() if d != a[1]]
            return 'vertex %d does not have degree %d' % (bad[0], a[1]) if bad else None
        if cons in ('grid', 'torus'):
            return chk_grid(cg, a, cons == 'torus')
        if cons == 'complete':
            if len(a) == 1:
                return chk_complete(cg, a[0])
            n, b = a
            e = chk_orders(cg, 'simple', n * b)
            if e:
                return e
            if any((u - 1) // n == (v - 1) // n for u, v in cg[3]) or len(cg[3]) != n * n * b * (b - 1) // 2:
                return 'not the complete multipartite graph with %d blocks of %d consecutive vertices' % (b, n)
            return None
        if cons == 'empty':
            return chk_empty(cg, 'simple', a[0])
    elif ty in ('dag', 'digraph'):
        return {'path': chk_path, 'tree': chk_tree, 'pyramid': chk_pyramid}[cons](cg, a[0])
    else:
        if cons == 'glrp':
            e = chk_orders(cg, 'bipartite', a[0], a[1])
            if e:
                return e
            if a[2] == 0 and cg[3]:
                return ('p = 0 but there are edges', 'p0-nonempty')
            if a[2] == 1 and len(cg[3]) != a[0] * a[1]:
                return 'p = 1 but not complete'
            return None
        if cons == 'glrm':
            return chk_m_edges(cg, *a)
        if cons == 'glrd':
            return chk_left_regular(cg, *a)
        if cons == 'regular':
            return prop_regular(*a)(cg)
        if cons == 'shift':
            return chk_shift(cg, a[0], a[1], a[2:])
        if cons == 'complete':
            return chk_complete_bip(cg, *a)
        if cons == 'empty':
            return chk_empty(cg, 'bipartite', *a)
    return 'no check for %s/%s' % (ty, cons)


class CliRunner:
    def __init__(self, ctx, G, A, tmp):
        self.ctx, self.G, self.A, self.tmp = ctx, G, A, tmp
        self.pending = []     # (inp, label, got, requests, compare)
        self.nsave = 0
        self.nomodel = False

    def viol(self, kind, what, inp, found, site, cls, **more):
        self.ctx.disagreements_checked += 1
        d = dict(input=inp)
        d.update(more)
        self.ctx.violation(kind, what, d, found, site=site, cls=cls)

    def queue(self, inp, label, got, reqs, compare=agrees, old=None):
        """reqs[0]: the model of the CURRENT code (demanded); reqs[1:]: the model of the code as found; old = (site, class) of the
        repaired finding it stands for"""
        if self.nomodel:
            return            # large instance: the model is quadratic in the number of edges; structure checks only
        self.pending.append((inp, label, got, reqs, compare, old))

    def run(self, ty, tokens, seed=None, bias=0.0, stream='cli', script=None, nomodel=False):
        ctx, A, G = self.ctx, self.A, self.G
        self.nomodel = nomodel
        seed = ctx.rng.getrandbits(48) if seed is None else seed
        rec = Rec(seed, bias=bias, script=script, limit=0 if nomodel else 6000)
        stages = []
        with Instrument(A, rec, stages):
            res = with_random(rec, lambda: A.make_graph_from_spec(ty, list(tokens)))
        draws = [d if not isinstance(d, tuple) else ['f', d[1]] for d in (rec.draws if len(rec.draws) <= 4000 else rec.draws[:200])]
        inp = dict(graph_type=ty, spec=list(tokens), seed=seed, bias=bias, draws=draws)
        if len(rec.draws) > 4000:
            inp['number_of_draws'] = len(rec.draws)
        ctx.count(stream, (ty, tuple(tokens), str(draws[:40]), len(draws)), True,
                  sample=dict(graph_type=ty, spec=' '.join(tokens), outcome=res[1] if res[0] == 'exc' else 'graph'))
        try:
            parsed = A.parse_graph_argument(ty, list(tokens))
        except Exception as e:  # noqa
            parsed = None
            perr = type(e).__name__
        cons = parsed['construction'] if parsed else None
        ctx.tally(stream + ' construction', '%s/%s' % (ty, cons))
        ctx.tally(stream + ' outcome', res[1] if res[0] == 'exc' else 'graph')
        # ---------- refusals and failures
        if res[0] == 'exc' and res[1] not in ('ValueError', 'FileNotFoundError'):
            site, cls = (cons or 'parse'), 'raises-' + res[1]
            if parsed is None:
                site = 'parse'
            elif cons == 'glrm' and res[1] == 'TypeError':
                site = 'glrm-dense'
            elif stages:
                site = [lab for (_a, lab) in OPTION_FUNCS if lab in parsed and lab not in [s[0] for s in stages]][:1]
                site = site[0] if site else 'save'
            self.viol('counterexample', 'the graph specification %r (%s) ends in %s (%s), not in a graph or a refusal with an error message' %
                      (' '.join(tokens), ty, res[1], res[2][:80]), inp, True, site, cls, implementation=list(res))
        if parsed is None:
            return res
        args_t = parsed['args'] or []
        gname = GUARD_NAME.get((ty, cons))
        if gname is None:
            return res
        # converted arguments, as obtain_* converts them
        p_ok, pval, ints, conv = True, None, None, None
        if gname == 'gnp':
            if len(args_t) in (2, 3):
                pval = to_float(args_t[1])
                ints = to_ints([args_t[0]] + args_t[2:])
                p_ok = pval is not None and 0 <= pval <= 1
                conv = None if (ints is None or pval is None) else [ints[0], pval] + ints[1:]
            else:
                ints, p_ok = [], False
        elif gname == 'glrp':
            if len(args_t) == 3:
                pval = to_float(args_t[2])
                ints = to_ints(args_t[:2])
                p_ok = pval is not None and 0 <= pval <= 1
                conv = None if (ints is None or pval is None) else ints + [pval]
            else:
                ints, p_ok = [], False
        else:
            ints = to_ints(args_t)
            conv = ints
        base_failed = (res[0] == 'exc' and not stages)
        ibase = stages[0][2] if stages else len(rec.draws)
        if ints is None:
            ctx.tally(stream + ' arguments', 'non-integer token')
            if not (res[0] == 'exc' and res[1] == 'ValueError'):
                self.viol('counterexample', 'a non-integer numeric token in %r is not refused with ValueError' % ' '.join(tokens), inp, True,
                          gname, 'non-integer-accepted', implementation=list(res[:2]))
            return res
        ctx.tally(stream + ' arguments', 'integers')
        # ---------- guard verdict against the model
        verdict = 'refused' if (base_failed and res[1] == 'ValueError') else 'passed'
        expected_late_refusal = (gname == 'torus' and all(d > 0 for d in ints) and 1 in ints)
        if not expected_late_refusal:
            names = {'gnd': ['gnd', 'gnd-as-found'], 'grid': ['grid', 'grid-as-found'], 'torus': ['torus', 'grid-as-found']}.get(gname, [gname])
            old = {'gnd': ('gnd', 'raises-NetworkXError'), 'grid': ('grid-torus', 'no-dimension'), 'torus': ('grid-torus', 'no-dimension')}.get(gname)
            self.queue(inp, 'guard', verdict, [cmd('gg_guard', n, ints, p_ok) for n in names],
                       lambda got, rep: (rep is True and got == 'passed') or (rep is False and got == 'refused'), old=old)
        # ---------- the construction itself
        if stages:
            base = stages[0][1]
            if not all(s[3] for s in stages):
                self.viol('counterexample', 'graph object inconsistent with its own edge list', inp, True, gname, 'object-inconsistent')
            why = check_base(ty, cons, conv, base)
            if why:
                w, cls = why if isinstance(why, tuple) else (why, 'structure')
                self.viol('counterexample', 'CHECK: %r (%s) returned a graph without the promised structure: %s' % (' '.join(tokens), ty, w),
                          inp, True, 'grid-torus' if gname in ('grid', 'torus') else gname, cls,
                          base_graph=base if len(base[3]) <= 2000 else base[:3] + ['%d edges' % len(base[3])])
        bits_stream = None
        if gname in INHOUSE or (gname == 'complete-simple' and len(ints) == 1):
            st = int_stream(rec.draws[:ibase])
            if st is not None:
                got = ('ok', stages[0][1]) if stages else res
                self.queue(inp, 'construction', got, [cmd('gg_obtain', gname, ints, fl, 1200, st) for fl in
                                                      ((True, False) if gname in ('glrm', 'regular') else (True,))],
                           old={'glrm': ('glrm-dense', 'raises-TypeError'), 'regular': ('regular', 'position-skipped-not-regular')}.get(gname))
        elif gname == 'gnp' and len(ints) == 2 and ints[1] != 1 and p_ok and ints[0] > 0 and ints[1] > 0 and stages:
            bits_stream = int_stream(rec.draws[:ibase], '<', pval)
            self.queue(inp, 'construction', ('ok', stages[0][1]), [cmd('gg_tnp', ints[1], ints[0], bits_stream)])
        elif gname == 'glrp' and p_ok and stages:
            self.queue(inp, 'construction', ('ok', stages[0][1]),
                       [cmd('gg_bip_random', ints[0], ints[1], True, int_stream(rec.draws[:ibase], c, pval)) for c in ('<', '<=')],
                       old=('glrp', 'p0-nonempty'))
        if not stages:
            return res
        # ---------- options, stage by stage on the implementation, as a whole in the model
        optargs = {}
        nonint_opt = False
        for _a, lab in OPTION_FUNCS:
            if lab in parsed:
                optargs[lab] = to_ints(parsed[lab])
                nonint_opt = nonint_opt or optargs[lab] is None
        prev = stages[0]
        for stg in stages[1:]:
            lab = stg[0]
            if optargs.get(lab) is not None:
                seg = [d for d in rec.draws[prev[2]:stg[2]] if not isinstance(d, tuple)]
                why = judge_modify(lab, prev[1], stg[1], optargs[lab], seg)
                if why:
                    self.viol('counterexample', 'option %s %r of %r did not do what it names: %s' % (lab, optargs[lab], ' '.join(tokens), why),
                              inp, True, lab, 'structure', before=prev[1] if len(prev[1][3]) <= 2000 else prev[1][:3] + ['%d edges' % len(prev[1][3])],
                              after=stg[1] if len(stg[1][3]) <= 2000 else stg[1][:3] + ['%d edges' % len(stg[1][3])])
            prev = stg
        if nonint_opt:
            if not (res[0] == 'exc' and res[1] == 'ValueError'):
                self.viol('counterexample', 'a non-integer option argument in %r is not refused with ValueError' % ' '.join(tokens), inp, True,
                          'option', 'non-integer-accepted')
            return res
        if res[0] == 'ok':
            final = canon(res[1])
            if final != stages[-1][1]:
                self.viol('counterexample', 'the returned graph is not the graph after the last option', inp, True, 'obtain_graph', 'graph-changed')
            got = ('ok', final)
        else:
            got = res
        if got[0] == 'ok' or got[1] == 'ValueError':
            plant = optargs.get('plantclique', optargs.get('plantbiclique'))
            st = int_stream(rec.draws[ibase:])
            if st is not None and not (got[0] == 'exc' and 'save' in parsed and len(stages) == 1 + len(optargs)):
                self.queue(inp, 'options', got, [cmd('gg_modify', opt(plant), opt(optargs.get('addedges')), opt(optargs.get('splitedges')),
                                                     sx_graph(stages[0][1]), st)])
        # ---------- save
        if res[0] == 'ok' and 'save' in parsed:
            fmt, path = parsed['save']
            if fmt == 'autodetect':
                fmt = os.path.splitext(path)[1][1:]
            self.nsave += 1
            ctx.tally('save format', '%s/%s' % (ty, fmt))
            try:
                back = ('ok', canon(G.readGraph(path, ty, fmt)))
            except Exception as e:  # noqa
                back = ('exc', type(e).__name__, str(e)[:100])
            if back[0] != 'ok' or back[1] != final:
                self.viol('counterexample', "'save' did not store the graph that is returned (file re-read with readGraph)", inp, True,
                          'save', 'graph-differs', saved=open(path).read()[:2000] if os.path.exists(path) else None, read_back=list(back))
        return res

    def flush(self):
        ctx = self.ctx
        reqs = [r for (_i, _l, _g, rs, _c, _o) in self.pending for r in rs]
        reps = ctx.model.batch(reqs) if reqs else []
        k = 0
        for (inp, label, got, rs, compare, old) in self.pending:
            mine = reps[k:k + len(rs)]
            k += len(rs)
            if label == 'guard':
                hits = [compare(got, r) for r in mine]
                shown = [r if isinstance(r, bool) else str(r) for r in mine]
            else:
                mods = [mod_outcome(r) for r in mine]
                hits = [compare(got, m) for m in mods]
                shown = [list(m) for m in mods]
            if hits[0]:
                continue          # the model of the current code is demanded
            ctx.disagreements_checked += 1
            if any(hits[1:]) and old is not None:
                ctx.violation('correspondence', 'command line %r: the %s is the one of the code before its repair (%s/%s), not the one of the current code'
                              % (' '.join(inp['spec']), label, old[0], old[1]),
                              dict(input=inp, implementation=got if isinstance(got, str) else [list(x) if isinstance(x, (list, tuple)) else x for x in got],
                                   model=shown, correspondence='GraphGen.v <-> graph_build.py/' + label), False, site=old[0], cls=old[1])
                continue
            ctx.violation('correspondence', 'command line %r: the %s differs from the model (GraphGen.v); the C15 theorems no longer cover the code'
                          % (' '.join(inp['spec']), {'guard': 'ValueError verdict of the argument guard', 'construction': 'constructed graph',
                                                     'options': 'graph after the options'}[label]),
                          dict(input=inp, implementation=got if isinstance(got, str) else [list(x) if isinstance(x, (list, tuple)) else x for x in got],
                               model=shown, correspondence='GraphGen.v <-> graph_build.py/' + label), False,
                          site='cli-' + label, cls='model-differs')
        self.pending = []


def base_specs(rng, quick):
    """(graph type, tokens of the construction, number of vertices or None) at and around the legal ranges"""
    out = []

    def add(ty, *toks):
        out.append((ty, [str(t) for t in toks]))
    # simple
    for n in [0, 1, 2, 5, 9]:
        for p in ['0', '0.3', '.5', '1', '1.0', '-0.1', '1.5']:
            add('simple', 'gnp', n, p)
            for t in [0, 1, 2, 3]:
                if n <= 5:
                    add('simple', 'gnp', n, p, t)
    for n in [0, 1, 2, 4, 7, 11]:
        mx = n * (n - 1) // 2
        for m in sorted({-1, 0, 1, mx // 2, mx - 1, mx, mx + 1}):
            add('simple', 'gnm', n, m)
    for n in range(0, 10):
        for d in range(-1, n + 2):
            add('simple', 'gnd', n, d)
    add('simple', 'gnd', 20, 3)
    add('simple', 'gnd', 12, 12)
    for dims in [[], [1], [2], [3], [7], [4, 3], [2, 2], [3, 3, 2], [1, 3], [5, 1], [0, 2], [-1], [2, 2, 2, 2], [2, 3, 4], [6, 6], [3, 1, 3]]:
        add('simple', 'grid', *dims)
        add('simple', 'torus', *dims)
    for n in range(-1, 7):
        add('simple', 'complete', n)
        add('simple', 'empty', n)
        for b in range(-1, 5):
            if n <= 4:
                add('simple', 'complete', n, b)
    add('simple', 'complete')
    add('simple', 'complete', 2, 2, 2)
    add('simple', 'empty')
    add('simple', 'empty', 2, 2)
    add('simple', 'gnp', 3)
    add('simple', 'gnp', 3, .5, 2, 2)
    add('simple', 'gnm', 3)
    add('simple', 'gnm', 3, 1, 1)
    add('simple', 'gnd', 3)
    add('simple', 'gnd', 4, 2, 1)
    # dags
    for ty in ('dag', 'digraph'):
        for c in ('path', 'tree', 'pyramid'):
            for h in [-1, 0, 1, 2, 3, 5]:
                add(ty, c, h)
            add(ty, c)
            add(ty, c, 2, 2)
    # bipartite
    for L in [0, 1, 3, 5]:
        for Rr in [0, 1, 2, 4]:
            for p in ['0', '.4', '1', '1.2']:
                add('bipartite', 'glrp', L, Rr, p)
            add('bipartite', 'complete', L, Rr)
            add('bipartite', 'empty', L, Rr)
    for L in [0, 1, 2, 3, 6]:
        for Rr in [0, 1, 2, 3, 7]:
            t = L * Rr // 3
            for m in sorted({-1, 0, 1, t, t + 1, L * Rr - 1, L * Rr, L * Rr + 1}):
                add('bipartite', 'glrm', L, Rr, m)
            for d in sorted({-1, 0, 1, Rr - 1, Rr, Rr + 1}):
                add('bipartite', 'glrd', L, Rr, d)
                if L * max(d, 0) <= 40:
                    add('bipartite', 'regular', L, Rr, d)
    for (L, Rr, d) in [(4, 2, 1), (3, 2, 1), (2, 4, 2), (6, 4, 2), (6, 9, 3), (8, 8, 3), (9, 6, 4), (5, 5, 5), (10, 4, 2)]:
        add('bipartite', 'regular', L, Rr, d)
    for L in [0, 1, 3, 6]:
        for M in [0, 1, 3, 5]:
            for pat in [[], [0], [1], [3, 1], [0, M], [2, 2], [M + 1], [-1], [1, 2, 3]]:
                add('bipartite', 'shift', L, M, *pat)
    add('bipartite', 'shift')
    add('bipartite', 'shift', 3)
    for c in ('glrp', 'glrm', 'glrd', 'regular', 'complete', 'empty'):
        add('bipartite', c)
        add('bipartite', c, 3)
        add('bipartite', c, 3, 3, 1, 1)
    return out


def order_of(ty, toks):
    """rough number of vertices of a valid specification (to choose option arguments near the limits)"""
    try:
        a = [int(float(t)) for t in toks[1:]]
        c = toks[0]
        if ty == 'simple':
            return {'gnp': lambda: a[0] * (a[2] if len(a) > 2 else 1), 'gnm': lambda: a[0], 'gnd': lambda: a[0], 'empty': lambda: a[0],
                    'complete': lambda: a[0] * (a[1] if len(a) > 1 else 1)}.get(c, lambda: 12)()
        if ty == 'bipartite':
            return (a[0], a[1])
        return {'path': a[0] + 1, 'tree': 2 ** (a[0] + 1) - 1, 'pyramid': (a[0] + 1) * (a[0] + 2) // 2}[c]
    except Exception:  # noqa
        pass
    return 12


def with_options(rng, ty, toks, tmp, counter, force_save=False):
    """append a random combination of the options of the graph type, in random order"""
    n = order_of(ty, toks)
    opts = []
    if ty == 'simple':
        n = n if isinstance(n, int) else 6
        if rng.random() < 0.5:
            opts.append(['plantclique', str(rng.choice([0, 1, 2, 3, n - 1, n, n + 1]))])
        if rng.random() < 0.5:
            opts.append(['addedges', str(rng.choice([0, 1, 2, 5, n, n * n]))])
        if rng.random() < 0.5:
            opts.append(['splitedges', str(rng.choice([0, 1, 2, 3, n, 3 * n]))])
    elif ty == 'bipartite':
        L, Rr = n if isinstance(n, tuple) else (3, 3)
        if rng.random() < 0.5:
            opts.append(['plantbiclique', str(rng.choice([0, 1, L, L + 1])), str(rng.choice([0, 1, Rr, Rr + 1]))])
        if rng.random() < 0.6:
            opts.append(['addedges', str(rng.choice([0, 1, 2, L, L * Rr, L * Rr + 1]))])
    if force_save or rng.random() < 0.3:
        fmts = {'simple': ['kthlist', 'dimacs', 'gml'], 'dag': ['kthlist', 'dimacs', 'gml'], 'digraph': ['kthlist', 'dimacs', 'gml'],
                'bipartite': ['kthlist', 'matrix', 'gml']}[ty]
        small = (n if isinstance(n, int) else sum(n)) < 7     # dot: ten or more vertices are renumbered when read back (C14, D9)
        if small and rng.random() < 0.15 and not any(o[0] == 'splitedges' for o in opts):
            fmts = ['dot']
        fmt = rng.choice(fmts)
        counter[0] += 1
        path = os.path.join(tmp, 'g%d.%s' % (counter[0], fmt))
        opts.append(['save', fmt, path] if rng.random() < 0.5 else ['save', path])
    rng.shuffle(opts)
    return toks + [t for o in opts for t in o]


MALFORMED = [
    ('simple', ['gnm', '3', '1.5']), ('simple', ['gnm', '3', '1e0']), ('simple', ['gnm', '3', 'nan']), ('simple', ['gnm', 'inf', '1']),
    ('simple', ['gnm', '1e3', '1']), ('simple', ['gnp', '3', 'nan']), ('simple', ['gnp', '3', 'inf']), ('simple', ['gnp', '3.0', '.5']),
    ('simple', ['gnp', '3', '.5', '2.0']), ('simple', ['gnd', '4', '2.0']), ('simple', ['gnd', '4.5', '2']), ('simple', ['grid', '3', '2.5']),
    ('simple', ['torus', '3', '1e1']), ('simple', ['complete', '3.0']), ('simple', ['complete', '3', '2.0']), ('simple', ['empty', '1e1']),
    ('simple', ['gnm', '3', '1', 'plantclique', '1.0']), ('simple', ['gnm', '3', '1', 'plantclique', 'nan']), ('simple', ['gnm', '3', '1', 'addedges', '1.5']),
    ('simple', ['gnm', '3', '1', 'splitedges', '1e0']), ('simple', ['gnm', '3', '1', 'plantclique']), ('simple', ['gnm', '3', '1', 'plantclique', '1', '2']),
    ('simple', ['gnm', '3', '1', 'addedges']), ('simple', ['gnm', '3', '1', 'addedges', '1', '1']), ('simple', ['gnm', '3', '1', 'splitedges']),
    ('simple', ['gnm', '3', '1', 'splitedges', '1', '1']), ('simple', ['gnm', '3', '1', 'addedges', '-1']), ('simple', ['gnm', '3', '1', 'splitedges', '-1']),
    ('simple', ['gnm', '3', '1', 'plantclique', '-1']),
    ('simple', ['gnm', '3', '1', 'save']), ('simple', ['gnm', '3', '1', 'save', 'kthlist']), ('simple', ['gnm', '3', '1', 'save', 'x.unknownext']),
    ('simple', ['gnm', '3', '1', 'save', 'matrix', 'x.matrix']), ('simple', ['gnm', '3', '1', 'addedges', '1', 'addedges', '1']),
    ('simple', ['gnm', '3', '1', 'gnm', '3', '1']), ('simple', ['gnm', '3', '1', 'simple']), ('simple', ['gnm', '3', '1', '-x']),
    ('simple', ['gnm', '3', '1', 'plantbiclique', '1', '1']), ('simple', []), ('simple', ['glrm', '3', '3', '1']), ('simple', ['path', '3']),
    ('simple', ['matrix', 'x.matrix']), ('simple', ['kthlist']),
    ('dag', ['tree', '2', 'addedges', '1']), ('dag', ['tree', '2.0']), ('dag', ['pyramid', 'nan']), ('dag', ['path', '1e1']), ('dag', ['gnp', '3', '.5']),
    ('digraph', ['tree', '2', 'plantclique', '1']), ('digraph', ['path', '2', 'splitedges', '1']),
    ('bipartite', ['glrm', '3', '3', '1.5']), ('bipartite', ['glrm', '3.0', '3', '1']), ('bipartite', ['glrd', '3', '3', '1e0']),
    ('bipartite', ['regular', '3', '3', 'nan']), ('bipartite', ['shift', '3', '3', '1.5']), ('bipartite', ['shift', '3.0', '3']),
    ('bipartite', ['complete', '2', '2.0']), ('bipartite', ['empty', '2.0', '2']), ('bipartite', ['glrp', '3', '3', 'x']),
    ('bipartite', ['glrm', '3', '3', '1', 'splitedges', '1']), ('bipartite', ['glrm', '3', '3', '1', 'plantclique', '1']),
    ('bipartite', ['glrm', '3', '3', '1', 'plantbiclique', '1']), ('bipartite', ['glrm', '3', '3', '1', 'plantbiclique', '1', '1', '1']),
    ('bipartite', ['glrm', '3', '3', '1', 'plantbiclique', '1.0', '1']), ('bipartite', ['glrm', '3', '3', '1', 'plantbiclique', '-1', '1']),
    ('bipartite', ['glrm', '3', '3', '1', 'addedges', '1.0']), ('bipartite', ['glrm', '3', '3', '1', 'save', 'dimacs', 'x.dimacs']),
    ('bipartite', ['gnd', '4', '2']), ('bipartite', ['dimacs', 'x']),
    # an empty-string token (DESIGN.md D25)
    ('simple', ['gnm', '3', '1', '']), ('bipartite', ['glrm', '3', '3', '1', '']),
]


def run_cli(ctx, G, A, quick):
    rng = ctx.rng
    tmp = tempfile.mkdtemp(prefix='c15-')
    C = CliRunner(ctx, G, A, tmp)
    counter = [0]
    try:
        specs = base_specs(rng, quick)
        reps = 1 if quick else 10
        for (ty, toks) in specs:
            C.run(ty, toks, bias=rng.choice([0, 0, 0.5]))
            for _ in range(reps):
                C.run(ty, with_options(rng, ty, toks, tmp, counter), bias=rng.choice(BIASES))
        # every construction with a valid argument tuple x every subset of the options, and 'save' in every format
        valid = [('simple', ['gnp', '6', '.4']), ('simple', ['gnp', '3', '.5', '2']), ('simple', ['gnm', '6', '5']), ('simple', ['gnd', '6', '3']),
                 ('simple', ['grid', '3', '2']), ('simple', ['torus', '3', '3']), ('simple', ['complete', '4']), ('simple', ['complete', '2', '3']),
                 ('simple', ['empty', '5']), ('bipartite', ['glrp', '3', '4', '.5']), ('bipartite', ['glrm', '3', '4', '3']),
                 ('bipartite', ['glrm', '3', '4', '9']), ('bipartite', ['glrd', '3', '4', '2']), ('bipartite', ['regular', '4', '2', '1']),
                 ('bipartite', ['shift', '4', '5', '0', '2']), ('bipartite', ['complete', '2', '3']), ('bipartite', ['empty', '2', '3']),
                 ('dag', ['path', '4']), ('dag', ['tree', '2']), ('dag', ['pyramid', '3']), ('digraph', ['pyramid', '2'])]
        for (ty, toks) in valid:
            for _ in range(4 if quick else 80):
                C.run(ty, with_options(rng, ty, toks, tmp, counter, force_save=rng.random() < 0.5), bias=rng.choice(BIASES))
        # larger random instances
        for _ in range(40 if quick else 4000):
            ty = rng.choice(['simple', 'bipartite', 'bipartite'])
            if ty == 'simple':
                n = rng.randint(2, 14)
                toks = rng.choice([['gnm', str(n), str(rng.randint(0, n * (n - 1) // 2))], ['gnp', str(n), rng.choice(['.2', '.7'])],
                                   ['complete', str(n)], ['empty', str(n)], ['grid', str(rng.randint(1, 4)), str(rng.randint(1, 4))],
                                   ['gnp', str(rng.randint(1, 4)), '.5', str(rng.randint(2, 4))]])
            else:
                L, Rr = rng.randint(1, 10), rng.randint(1, 10)
                d = rng.randint(0, Rr)
                toks = rng.choice([['glrm', str(L), str(Rr), str(rng.randint(0, L * Rr))], ['glrd', str(L), str(Rr), str(d)],
                                   ['regular', str(L * Rr), str(Rr), str(d)] if L * Rr * d <= 150 else ['glrd', str(L), str(Rr), str(d)],
                                   ['glrp', str(L), str(Rr), '.3'], ['shift', str(L), str(Rr)] + [str(x) for x in sorted(rng.sample(range(Rr + 1), min(Rr, 2)))]])
            C.run(ty, with_options(rng, ty, toks, tmp, counter), bias=rng.choice(BIASES))
        C.flush()
        # malformed specifications
        for (ty, toks) in MALFORMED:
            toks = [os.path.join(tmp, t) if t.startswith('x.') else t for t in toks]
            res = C.run(ty, toks, stream='malformed')
            if res[0] == 'ok':
                C.viol('counterexample', 'the malformed graph specification %r (%s) is accepted' % (' '.join(toks), ty),
                       dict(graph_type=ty, spec=toks), True, 'malformed', 'accepted')
        C.flush()
        ctx.note('save files re-read: %d' % C.nsave)
    finally:
        for f in os.listdir(tmp):
            os.unlink(os.path.join(tmp, f))
        os.rmdir(tmp)


# --------------------------------------------------------------------------
# thresholds / huge / shapes / history (notes/LARGE_STREAMS.md)
# The model replays the draws in time quadratic in the number of edges: it is demanded up to a few thousand edges
# (thresholds, shapes, history); beyond that (huge) the structure promised by the construction is checked directly on the
# graph the implementation returns -- chk_* are the statement of C15 itself and run in linear time.
# --------------------------------------------------------------------------
THRESHOLDS = [15, 16, 17, 63, 64, 65, 127, 128, 129, 255, 256, 257, 258, 300, 1000, 1025]


def path_graph(n, extra=()):
    return ['simple', n, 0, sorted([[u, u + 1] for u in range(1, n)] + [list(e) for e in extra])]


def threshold_cases(G, B, quick):
    """direct calls at the threshold values; every graph stays below a few thousand edges"""
    out = []
    T = THRESHOLDS
    # bipartite_random_m_edges: m at the thresholds and at the sparse / dense switch L*R//3
    for (L, Rr) in [(16, 17), (255, 3), (256, 257), (1, 1025), (1025, 1)]:
        sw = L * Rr // 3
        ms = sorted({m for m in T + [sw - 1, sw, sw + 1, L * Rr - 1, L * Rr, L * Rr + 1] if 0 <= m <= L * Rr + 1 and m <= 1100})
        for m in ms:
            out.append(case_m_edges(G, L, Rr, m, 'thresholds'))
    # left regular: a left side, a right side, a degree at the thresholds
    for (l, r, d) in [(257, 17, 3), (17, 257, 16), (17, 257, 255), (17, 257, 256), (17, 257, 257), (3, 1025, 1000), (3, 1025, 1025), (256, 8, 2), (1025, 2, 1),
                      (16, 17, 16), (16, 17, 17), (1, 300, 258)]:
        out.append(case_left_regular(G, l, r, d, 'thresholds'))
    for (l, r, d) in [(256, 256, 2), (257, 257, 1), (64, 16, 4), (255, 17, 1), (16, 16, 15), (17, 17, 16), (65, 13, 5), (300, 100, 1)] + ([] if quick else [(128, 64, 16), (1025, 5, 1)]):
        out.append(case_regular(G, l, r, d, 'thresholds'))
    for (N, M, pat) in [(257, 256, [0, 255, 256]), (256, 257, [256, 0]), (1025, 17, [16, 1]), (16, 1025, [1024, 0, 257]), (17, 16, [15, 16, 17]), (300, 300, [299, 258, 1]),
                        (64, 65, [64, 63, 0])]:
        out.append(case_shift(G, N, M, pat, 'thresholds'))
    for (a, b) in [(16, 17), (15, 17), (63, 65), (1, 1025), (257, 3), (0, 257), (256, 0)]:
        out.append(case_fixed(G, 'complete-bipartite', (a, b), 'thresholds'))
        out.append(case_fixed(G, 'empty-bipartite', (a * 4, b * 4), 'thresholds'))
    for n in [15, 16, 17, 63, 64, 65]:
        out.append(case_fixed(G, 'complete-simple', (n,), 'thresholds'))
    for n in T:
        out.append(case_fixed(G, 'empty-simple', (n,), 'thresholds'))
        out.append(case_fixed(G, 'dag-path', (n,), 'thresholds'))
    for h in [3, 4, 5, 6, 7, 8, 9] + ([] if quick else [10]):
        out.append(case_fixed(G, 'dag-tree', (h,), 'thresholds'))
    for h in [15, 16, 17, 22] + ([] if quick else [44]):
        out.append(case_fixed(G, 'dag-pyramid', (h,), 'thresholds'))
    # options: the size of the planted clique, the number of added / subdivided edges
    base = path_graph(300, [(1, 300), (2, 299), (5, 200)])
    for k in [15, 16, 17, 63, 64, 65]:
        out.append(case_modify(G, B, 'plantclique', base, [k], 'thresholds'))
    for k in T:
        out.append(case_modify(G, B, 'addedges', base, [k], 'thresholds'))
        if k <= 302:
            out.append(case_modify(G, B, 'splitedges', base, [k], 'thresholds'))
    out.append(case_modify(G, B, 'splitedges', base, [303], 'thresholds'))
    bb = ['bipartite', 70, 300, sorted([[1 + i % 70, 1 + (i * 7) % 300] for i in range(600)])]
    bb[3] = [list(e) for e in sorted(set(map(tuple, bb[3])))]
    for (a, b) in [(16, 17), (15, 16), (1, 257), (71, 1), (17, 256)] + ([] if quick else [(63, 65), (70, 300)]):
        out.append(case_modify(G, B, 'plantbiclique', bb, [a, b], 'thresholds'))
    for k in T:
        out.append(case_modify(G, B, 'addedges', bb, [k], 'thresholds'))
    return out


def threshold_specs():
    """the same through the command line parser"""
    out = []

    def add(ty, *toks):
        out.append((ty, [str(t) for t in toks]))
    for m in (90, 91, 255, 256, 257, 272, 273):
        add('bipartite', 'glrm', 16, 17, m)
    for m in (256, 257, 1025):
        add('bipartite', 'glrm', 256, 257, m)
    for (l, r, d) in [(257, 17, 3), (9, 257, 256), (9, 257, 257), (9, 257, 258), (3, 1025, 1025)]:
        add('bipartite', 'glrd', l, r, d)
    for (l, r, d) in [(256, 256, 2), (257, 257, 1), (64, 16, 4), (257, 16, 1), (16, 257, 16)]:
        add('bipartite', 'regular', l, r, d)
    add('bipartite', 'shift', 257, 256, 0, 255, 256)
    add('bipartite', 'shift', 256, 257, 0, 256)
    add('bipartite', 'shift', 17, 16, 15, 16)
    for (a, b) in [(16, 17), (63, 65), (257, 3)]:
        add('bipartite', 'complete', a, b)
        add('bipartite', 'empty', a, b)
        add('bipartite', 'glrp', a, b, '.01')
    for n in (16, 17, 64, 65):
        if n < 65:
            add('simple', 'complete', n)
        add('simple', 'gnp', n, '.2')
        add('simple', 'gnm', n, n * 2)
        add('simple', 'gnd', n, 3 if n % 2 == 0 else 4)
    for n in (256, 257, 1025):
        add('simple', 'empty', n)
        add('simple', 'gnm', n, 257)
        add('simple', 'gnd', n + n % 2, 3)
        add('dag', 'path', n)
        add('digraph', 'path', n)
    add('simple', 'grid', 16, 17)
    add('simple', 'torus', 17, 16)
    add('simple', 'grid', 257)
    add('simple', 'torus', 257)
    add('simple', 'complete', 4, 17)
    add('simple', 'gnp', 17, '.1', 16)
    for h in (4, 7, 8, 9):
        add('dag', 'tree', h)
    for h in (15, 16, 17, 22):
        add('dag', 'pyramid', h)
    return out


def threshold_options(rng, ty, toks):
    """options whose arguments sit at the thresholds (when the graph is large enough)"""
    n = order_of(ty, toks)
    opts = []
    if ty == 'simple':
        n = n if isinstance(n, int) else 6
        if rng.random() < 0.5:
            opts.append(['plantclique', str(rng.choice([k for k in (15, 16, 17, 63, 64, 65) if k <= n + 1] or [n]))])
        if rng.random() < 0.6:
            opts.append(['addedges', str(rng.choice([15, 16, 17, 255, 256, 257, 258]))])
        if rng.random() < 0.5:
            opts.append(['splitedges', str(rng.choice([15, 16, 17, 255, 256, 257]))])
    elif ty == 'bipartite':
        L, Rr = n if isinstance(n, tuple) else (3, 3)
        if rng.random() < 0.5:
            opts.append(['plantbiclique', str(rng.choice([k for k in (1, 15, 16, 17) if k <= L + 1])), str(rng.choice([k for k in (1, 15, 16, 17, 256, 257) if k <= Rr + 1]))])
        if rng.random() < 0.6:
            opts.append(['addedges', str(rng.choice([15, 16, 17, 255, 256, 257]))])
    rng.shuffle(opts)
    return toks + [t for o in opts for t in o]


def huge_cases(G, B, quick):
    """more than 65536 / 131072 vertices or edges: structure check only"""
    out = []

    def add(c):
        c.nomodel = True
        out.append(c)
    add(case_m_edges(G, 300, 300, 66000, 'huge'))           # dense branch, > 65536 edges
    add(case_m_edges(G, 300, 300, 29999, 'huge'))           # sparse branch just below the switch
    add(case_left_regular(G, 70000, 3, 2, 'huge'))          # > 65536 left vertices, > 131072 edges
    add(case_left_regular(G, 3, 70000, 30000, 'huge'))      # degree 30000
    add(case_regular(G, 66000, 3, 1, 'huge'))
    if not quick:
        add(case_shift(G, 70000, 70001, [0, 65536, 70000], 'huge'))
    add(case_shift(G, 66000, 5, [0, 4], 'huge'))
    add(case_fixed(G, 'complete-bipartite', (257, 257), 'huge'))
    add(case_fixed(G, 'dag-path', (140000,), 'huge'))
    add(case_fixed(G, 'dag-tree', (16,), 'huge'))           # 131071 vertices
    add(case_fixed(G, 'dag-pyramid', (361,), 'huge'))       # 65703 vertices, 130320 edges
    big = ['simple', 400, 0, [[u, v] for u in range(1, 401) for v in range(u + 1, 401)]]      # 79800 edges
    add(case_modify(G, B, 'splitedges', big, [66000], 'huge'))
    if not quick:
        add(case_modify(G, B, 'addedges', ['simple', 400, 0, []], [70000], 'huge'))
    add(case_modify(G, B, 'plantclique', path_graph(70000), [300], 'huge'))
    add(case_modify(G, B, 'plantbiclique', ['bipartite', 300, 300, []], [257, 257], 'huge'))
    if not quick:
        add(case_m_edges(G, 400, 400, 140000, 'huge'))
        add(case_m_edges(G, 400, 400, 53333, 'huge'))
        add(case_m_edges(G, 400, 400, 53334, 'huge'))
        add(case_m_edges(G, 70000, 2, 140000, 'huge'))
        add(case_left_regular(G, 140000, 5, 1, 'huge'))
        add(case_regular(G, 300, 300, 100, 'huge'))
        add(case_regular(G, 131072, 2, 1, 'huge'))
        add(case_shift(G, 140000, 3, [0, 2], 'huge'))
        add(case_fixed(G, 'complete-simple', (400,), 'huge'))
        add(case_fixed(G, 'complete-bipartite', (70000, 2), 'huge'))
        add(case_fixed(G, 'dag-tree', (17,), 'huge'))
        add(case_fixed(G, 'dag-pyramid', (520,), 'huge'))
        add(case_fixed(G, 'empty-simple', (140000,), 'huge'))
        add(case_modify(G, B, 'addedges', big, [0], 'huge'))
        add(case_modify(G, B, 'addedges', big, [1], 'huge'))
        add(case_modify(G, B, 'splitedges', big, [79800], 'huge'))
        add(case_modify(G, B, 'addedges', ['bipartite', 300, 300, []], [66000], 'huge'))
    return out


# 'save' in every in-house format of every graph type at these sizes
HUGE_SPECS = [('bipartite', ['glrm', '300', '300', '66000', 'save', 'kthlist']), ('bipartite', ['glrd', '70000', '3', '2']), ('dag', ['tree', '16', 'save', 'kthlist']),
              ('digraph', ['pyramid', '361', 'save', 'dimacs']), ('simple', ['complete', '400', 'splitedges', '66000', 'save', 'kthlist']),
              ('bipartite', ['complete', '257', '257', 'save', 'kthlist']), ('simple', ['complete', '16', '17', 'save', 'dimacs']),
              ('bipartite', ['glrd', '3', '30000', '20000', 'save', 'matrix'])]
HUGE_SPECS_THOROUGH = [('simple', ['gnm', '70000', '140000', 'save', 'kthlist']), ('simple', ['gnd', '70000', '3']), ('simple', ['grid', '257', '257']), ('bipartite', ['regular', '66000', '3', '1']), ('bipartite', ['shift', '70000', '70001', '0', '65536', '70000', 'save', 'kthlist']),
                       ('simple', ['torus', '300', '300']), ('simple', ['gnp', '3000', '.02', 'plantclique', '257']), ('digraph', ['path', '140000', 'save', 'kthlist']),
                       ('bipartite', ['glrp', '300', '300', '.8', 'plantbiclique', '257', '257']), ('simple', ['empty', '400', 'addedges', '70000', 'save', 'dimacs']),
                       ('bipartite', ['complete', '300', '300', 'save', 'matrix']), ('simple', ['complete', '20', '20']), ('bipartite', ['glrm', '70000', '2', '140000'])]

SHAPE_SPECS = [
    # a CompleteBipartiteGraph object (it overrides the edge views and never fills its edge set) under every option and 'save'
    ('bipartite', ['complete', '3', '2', 'addedges', '0']), ('bipartite', ['complete', '3', '2', 'addedges', '1']), ('bipartite', ['complete', '3', '2', 'plantbiclique', '2', '2']),
    ('bipartite', ['complete', '3', '2', 'plantbiclique', '3', '2', 'addedges', '0']), ('bipartite', ['complete', '16', '17', 'plantbiclique', '16', '17']),
    ('bipartite', ['complete', '3', '2', 'save', 'matrix']), ('bipartite', ['complete', '3', '2', 'save', 'kthlist']), ('bipartite', ['complete', '3', '2', 'save', 'gml']),
    ('bipartite', ['complete', '17', '16', 'save', 'matrix']), ('bipartite', ['complete', '0', '3', 'save', 'matrix']), ('bipartite', ['complete', '3', '0', 'save', 'kthlist']),
    ('bipartite', ['complete', '1', '1', 'plantbiclique', '1', '1', 'save', 'matrix']),
    # a vertex of large degree, an empty or a one-vertex side, complete / empty results of the samplers
    ('bipartite', ['glrd', '1', '300', '300']), ('bipartite', ['glrd', '300', '1', '1']), ('bipartite', ['glrd', '5', '40', '40', 'save', 'matrix']),
    ('bipartite', ['glrd', '5', '40', '0', 'addedges', '200']), ('bipartite', ['regular', '40', '1', '1']), ('bipartite', ['regular', '1', '40', '40']),
    ('bipartite', ['regular', '12', '12', '12']), ('bipartite', ['regular', '12', '12', '0', 'plantbiclique', '12', '12']),
    ('bipartite', ['glrm', '1', '300', '300']), ('bipartite', ['glrm', '300', '1', '0']), ('bipartite', ['glrm', '7', '9', '63', 'addedges', '0']),
    ('bipartite', ['glrm', '7', '9', '63', 'addedges', '1']), ('bipartite', ['glrp', '1', '300', '1']), ('bipartite', ['glrp', '300', '1', '0']),
    ('bipartite', ['shift', '5', '7', '2', '2']), ('bipartite', ['shift', '5', '7', '7', '0']), ('bipartite', ['shift', '5', '7', '8']), ('bipartite', ['shift', '5', '7', '6', '3', '0']),
    ('bipartite', ['shift', '40', '1', '0']), ('bipartite', ['shift', '1', '40'] + [str(i) for i in range(40)]),
    ('simple', ['complete', '12', 'addedges', '0']), ('simple', ['complete', '12', 'addedges', '1']), ('simple', ['complete', '12', 'plantclique', '12']),
    ('simple', ['complete', '12', 'splitedges', '66']), ('simple', ['complete', '12', 'splitedges', '67']), ('simple', ['empty', '12', 'splitedges', '0']),
    ('simple', ['empty', '12', 'splitedges', '1']), ('simple', ['empty', '12', 'addedges', '66']), ('simple', ['empty', '12', 'addedges', '67']),
    ('simple', ['empty', '12', 'plantclique', '12', 'splitedges', '66']), ('simple', ['empty', '1', 'plantclique', '1']), ('simple', ['empty', '0', 'plantclique', '0']),
    ('simple', ['gnd', '40', '39']), ('simple', ['gnd', '40', '0', 'addedges', '17']), ('simple', ['gnm', '40', '780']), ('simple', ['gnp', '40', '1', 'splitedges', '17']),
    ('simple', ['complete', '1', '17']), ('simple', ['complete', '17', '1']), ('simple', ['gnp', '1', '.5', '17']), ('simple', ['grid', '1', '1', '17']),
    ('simple', ['torus', '2', '17']), ('simple', ['torus', '3', '2', '2']),
    ('dag', ['tree', '0', 'save', 'kthlist']), ('dag', ['pyramid', '0', 'save', 'dimacs']), ('dag', ['path', '0', 'save', 'gml']), ('digraph', ['tree', '5', 'save', 'dimacs']),
]


def direct_spec(ctx, G, A, ty, tokens, tmp, stream='huge-cli'):
    """a large specification through the real parser: promised structure (check_base / judge_modify through the stages) and 'save'"""
    C = CliRunner(ctx, G, A, tmp)
    toks = list(tokens)
    if 'save' in toks:
        fmt = toks[toks.index('save') + 1]
        toks.insert(toks.index('save') + 2, os.path.join(tmp, 'huge.' + fmt))
    return C.run(ty, toks, stream=stream, nomodel=True)


def run_large(ctx, R, G, B, A, quick):
    import time
    rng = ctx.rng
    # ---- huge first (structure checks only)
    t0 = time.time()
    for c in huge_cases(G, B, quick):
        ctx.tally('huge call', c.name)
        R.run(c)
    tmp = tempfile.mkdtemp(prefix='c15huge-')
    try:
        for (ty, toks) in HUGE_SPECS + ([] if quick else HUGE_SPECS_THOROUGH):
            direct_spec(ctx, G, A, ty, toks, tmp)
            for f in os.listdir(tmp):
                os.unlink(os.path.join(tmp, f))
    finally:
        for f in os.listdir(tmp):
            os.unlink(os.path.join(tmp, f))
        os.rmdir(tmp)
    ctx.note('huge: %.0f s' % (time.time() - t0))
    # ---- thresholds (model demanded)
    t0 = time.time()
    for c in threshold_cases(G, B, quick):
        ctx.tally('thresholds call', c.name)
        for _ in range(1 if quick else 4):
            R.run(c, bias=rng.choice([0, 0, 0.5]))
    R.flush()
    tmp = tempfile.mkdtemp(prefix='c15thr-')
    C = CliRunner(ctx, G, A, tmp)
    counter = [0]
    try:
        for (ty, toks) in threshold_specs():
            C.run(ty, toks, stream='thresholds-cli', bias=rng.choice([0, 0, 0.5]))
            for _ in range(1 if quick else 4):
                C.run(ty, threshold_options(rng, ty, toks), stream='thresholds-cli', bias=rng.choice([0, 0.5]))
        C.flush()
        ctx.note('thresholds: %.0f s' % (time.time() - t0))
        # ---- shapes
        t0 = time.time()
        for (ty, toks) in SHAPE_SPECS:
            toks = list(toks)
            if 'save' in toks:
                counter[0] += 1
                fmt = toks[toks.index('save') + 1]
                toks.insert(toks.index('save') + 2, os.path.join(tmp, 's%d.%s' % (counter[0], fmt)))
            for _ in range(1 if quick else 5):
                C.run(ty, toks, stream='shapes', bias=rng.choice([0, 0.5, 0.9]))
        C.flush()
        ctx.note('shapes: %.0f s' % (time.time() - t0))
    finally:
        for f in os.listdir(tmp):
            os.unlink(os.path.join(tmp, f))
        os.rmdir(tmp)
    t0 = time.time()
    run_history(ctx, R, G, B, A, quick)
    ctx.note('history: %.0f s' % (time.time() - t0))


# --------------------------------------------------------------------------
# history: ONE graph object taken through a random sequence of options and of edits through its public API; every option
# is judged on the state it found (the draws it consumed are replayed in the model on that state)
# --------------------------------------------------------------------------
def case_modify_live(G, B, what, state, args, stream='history'):
    toks = [str(a) for a in args]
    holder = {}

    def call():
        g = state['g']
        holder['before'] = canon(g)
        if what == 'plantclique':
            B.modify_simple_graph_plantclique({'plantclique': toks}, g)
        elif what == 'plantbiclique':
            B.modify_bipartite_graph_plantbiclique({'plantbiclique': toks}, g)
        elif what == 'addedges':
            B.modify_graph_addedges({'addedges': toks}, g)
        else:
            r = B.modify_graph_splitedges({'splitedges': toks}, g)
            if r is not None and r is not g:
                state['g'] = g = r
        after = canon(g)
        if not consistent_object(g, after):
            raise AssertionError('graph object inconsistent with its edge list')
        return after

    def variants(s):
        o = dict(plant=None, add=None, split=None)
        o[{'plantclique': 'plant', 'plantbiclique': 'plant', 'addedges': 'add', 'splitedges': 'split'}[what]] = list(args)
        return [cmd('gg_modify', opt(o['plant']), opt(o['add']), opt(o['split']), sx_graph(holder['before']), s)]
    c = Case(stream, what, ['the graph left by the previous steps'] + list(args), call, variants, site=what, reachable=True,
             extra=dict(option=what, option_args=list(args), history=list(state['log'])))
    c.prop_draws = lambda after, draws: judge_modify(what, holder['before'], after, list(args), draws)
    return c, holder


def run_history(ctx, R, G, B, A, quick):
    rng = ctx.rng
    for run_no in range(25 if quick else 400):
        bip = run_no % 3 == 2
        if bip:
            L, Rr = rng.choice([1, 3, 6]), rng.choice([1, 4, 7])
            g = G.BipartiteGraph(L, Rr) if rng.random() < 0.8 else G.CompleteBipartiteGraph(L, Rr)
        else:
            g = G.Graph(rng.choice([0, 1, 4, 9, 17]))
        g.name = 'G'
        state = dict(g=g, log=[type(g).__name__ + repr(tuple(canon(g)[1:3]))])
        for step in range(rng.randint(3, 9)):
            g = state['g']
            cg = canon(g)
            n, m = cg[1], len(cg[3])
            if bip:
                miss = cg[1] * cg[2] - m
                op = rng.choice(['addedges', 'addedges', 'plantbiclique', 'add_edge', 'add_edge'])
                args = {'addedges': [rng.choice([0, 1, 2, miss // 2, miss, miss + 1])],
                        'plantbiclique': [rng.choice([0, 1, cg[1], cg[1] + 1]), rng.choice([0, 1, cg[2], cg[2] + 1])]}.get(op)
            else:
                miss = n * (n - 1) // 2 - m
                op = rng.choice(['addedges', 'addedges', 'plantclique', 'splitedges', 'add_edge', 'remove_edge', 'raise', 'raise'])
                args = {'addedges': [rng.choice([0, 1, 2, miss // 2, miss, miss + 1])], 'plantclique': [rng.choice([0, 1, 2, n // 2, n, n + 1])],
                        'splitedges': [rng.choice([0, 1, 2, m // 2, m, m + 1])]}.get(op)
            ctx.tally('history operation', op)
            if args is not None:
                c, holder = case_modify_live(G, B, op, state, args)
                got, _rec = R.run(c, bias=rng.choice([0, 0, 0.5, 0.9]))
                state['log'].append('%s %s -> %s' % (op, args, got[1] if got[0] == 'exc' else 'done'))
                if got[0] == 'exc' and canon(state['g']) != holder.get('before'):
                    ctx.violation('counterexample', 'option %s %r was refused (%s) but the graph was changed' % (op, args, got[1]),
                                  dict(input=dict(history=state['log'], before=holder.get('before'), after=canon(state['g']))), True, site=op, cls='refused-but-changed')
                continue
            try:
                if op == 'add_edge' and cg[1] and (cg[2] if bip else n > 1):
                    u, v = (rng.randint(1, cg[1]), rng.randint(1, cg[2])) if bip else rng.sample(range(1, n + 1), 2)
                    g.add_edge(u, v)
                    state['log'].append('add_edge(%d,%d)' % (u, v))
                elif op == 'remove_edge' and m:
                    u, v = rng.choice(cg[3])
                    g.remove_edge(v, u)
                    state['log'].append('remove_edge(%d,%d)' % (v, u))
                elif op == 'raise':
                    k = rng.choice([2, 3, 5])
                    g.update_vertex_number(n + k)
                    state['log'].append('update_vertex_number(+%d)' % k)
            except Exception as e:  # noqa
                state['log'].append('%s raised %s' % (op, type(e).__name__))
    R.flush()
    # the same list of tokens given twice to the parser: it is not consumed, and the second graph has the same structure
    for (ty, toks) in [('simple', ['gnm', '9', '12', 'addedges', '3', 'plantclique', '4']), ('bipartite', ['glrd', '5', '6', '2', 'addedges', '2']),
                       ('dag', ['pyramid', '3']), ('bipartite', ['complete', '3', '2', 'addedges', '0'])]:
        keep = list(toks)
        outs = []
        for _ in range(2):
            rec = Rec(ctx.rng.getrandbits(48))
            outs.append(with_random(rec, lambda: canon(A.make_graph_from_spec(ty, toks))))
        ctx.count('history', ('tokens-twice', ty, tuple(keep)), True, sample=dict(graph_type=ty, spec=keep))
        if toks != keep or outs[0][0] != outs[1][0] or (outs[0][0] == 'ok' and outs[0][1][:3] != outs[1][1][:3]):
            ctx.violation('counterexample', 'the same specification given twice to make_graph_from_spec: the token list was changed or the second graph has another order',
                          dict(input=dict(graph_type=ty, spec=keep, tokens_after=toks), implementation=[str(o)[:300] for o in outs]), True,
                          site='parse', cls='tokens-consumed')


def run(ctx):
    import_impl()
    import cnfgen.graphs as G
    import cnfgen.clitools.graph_build as B
    quick = ctx.tier == 'quick'
    R = Runner(ctx)
    import cnfgen.clitools.graph_args as A
    run_large(ctx, R, G, B, A, quick)        # the large cases first, as a corpus (notes/LARGE_STREAMS.md)
    run_samplers(ctx, R, G, B, quick)
    run_scripted(ctx, R, G, B)
    run_cli(ctx, G, A, quick)
    ctx.exhaustive = False


def replay(ctx, rp):
    """re-run one recorded case with its seed and bias (the recorder is deterministic), or with its draws as a script"""
    import_impl()
    import cnfgen.graphs as G
    import cnfgen.clitools.graph_build as B
    import cnfgen.clitools.graph_args as A
    inp = rp.get('input', {})
    seed, bias = inp.get('seed'), inp.get('bias', 0.0)
    script = None
    if seed is None and 'draws' in inp:
        script = [d[1] if isinstance(d, list) else d for d in inp['draws']]
    if 'spec' in inp:
        tmp = tempfile.mkdtemp(prefix='c15-')
        try:
            C = CliRunner(ctx, G, A, tmp)
            spec = inp['spec'].split() if isinstance(inp['spec'], str) else inp['spec']
            C.run(inp['graph_type'], spec, seed=seed, bias=bias, stream='replay', script=script)
            C.flush()
        finally:
            for f in os.listdir(tmp):
                os.unlink(os.path.join(tmp, f))
            os.rmdir(tmp)
        return
    R = Runner(ctx)
    a = inp.get('args', [])
    mk = {'bipartite_random_m_edges': lambda: case_m_edges(G, *a, stream='replay'),
          'bipartite_random_left_regular': lambda: case_left_regular(G, *a, stream='replay'),
          'bipartite_random_regular': lambda: case_regular(G, *a, stream='replay'),
          'bipartite_shift': lambda: case_shift(G, a[0], a[1], a[2], stream='replay'),
          'bipartite_random': lambda: case_bip_random(G, *a, stream='replay'),
          'multipartite_tnp': lambda: case_tnp(B, *a, stream='replay')}
    name = inp.get('call')
    if name in mk:
        R.run(mk[name](), seed=seed, bias=bias, script=script)
    elif name in ('plantclique', 'plantbiclique', 'addedges', 'splitedges'):
        R.run(case_modify(G, B, name, inp['graph'], inp['option_args'], stream='replay'), seed=seed, bias=bias, script=script)
    elif name:
        R.run(case_fixed(G, name, tuple(a), stream='replay'), seed=seed, bias=bias, script=script)
    R.flush()
