"""C05 -- substitution, lifting, polarity flip and variable compression compose the
formula with the gadget.

Correspondence: for seeded-random small CNFs (with empty clauses, unused
variables, repeated and opposite literals) and every transformation, arity,
threshold and compression graph, the clause list (in order) and the number of
variables produced by cnfgen are compared with the extracted Coq model
(coq/Subst.v).  The documented variable count is checked directly on every
output.  On a disagreement the implementation's output is evaluated on ALL
assignments of the transformed formula (bit-parallel truth tables, <= 20
variables) against the induced assignment, to find an input on which the
property itself fails."""
import itertools
import os
import subprocess
import tempfile

import lib
from lib import cmd, outcome, is_error, import_impl

META = dict(
    technique='Coq theorems (apply_subst_sem + one gadget lemma per transformation, lift_sem, numvar theorems, '
              'flip_numvar_refuted) + extracted-model differential check (exact clause lists and variable counts)',
    category='proof',
    text='Machine-checked theorems state, for every CNF with literals in range, every arity k>=1, threshold, compression '
         'graph and assignment of the new variables, that the transformed formula built by the model is satisfied exactly '
         'when the induced assignment satisfies the original formula (for lifting: together with exactly one selector per '
         'variable), and that it has the documented number of variables; the polarity flip is proved NOT to keep the variable '
         'count when trailing variables are unused (flip_numvar_refuted). The model is tied to the code by comparing, in order, '
         'the clauses and the variable count cnfgen produces with those of the extracted model on seeded-random formulas, all '
         'transformations, arities 1..4, thresholds -1..k+1, random compression graphs, medium formulas and the command line.',
    note='Trusted: Coq kernel, extraction, OCaml driver, the harness. The model is hand-written; agreement with the code is '
         'checked only on the inputs of the run (see input_distribution). Labels/headers of the new formula are not modelled. '
         'Theorems assume literals within 1..N (invariant of CNF objects built with check=True).',
    design_ref='5/C05',
)
RULE = ('one case = one (formula, transformation, parameters) triple; non-trivial when the formula has at least one '
        'non-empty clause; distinct = distinct (stream, formula, transformation, parameters) keys')
TRUSTED = ['Python truth-table evaluator used only to search a failing assignment after a disagreement']

OPS = ['==', '<', '>', '<=', '>=', '!=']
ARITH = {'<=': lambda x, k: x <= k, '>=': lambda x, k: x >= k, '<': lambda x, k: x < k,
         '>': lambda x, k: x > k, '==': lambda x, k: x == k, '!=': lambda x, k: x != k}
IMPL_NAME = dict(flip='FlipPolarity', ite='IfThenElseSubstitution', xor='XorSubstitution', maj='MajoritySubstitution',
                 one='ExactlyOneSubstitution', eq='AllEqualSubstitution', neq='NotAllEqualSubstitution',
                 eq_invert='AllEqualSubstitution', lift='FormulaLifting', atleast='AtLeastKSubstitution',
                 atmost='AtMostKSubstitution', exact='ExactlyKSubstitution', anybut='AnythingButKSubstitution',
                 linear='LinearSubstitution', xorcomp='VariableCompression', majcomp='VariableCompression',
                 othercomp='VariableCompression')
IMPL_NAME['or'] = 'OrSubstitution'


# --------------------------------------------------------------------------
# independent semantics (used only for failing-input search and numvar check)
# --------------------------------------------------------------------------
def documented_numvar(name, params, N):
    if name == 'flip':
        return N
    if name == 'ite':
        return 3 * N
    if name == 'lift':
        return 2 * params[0] * N
    if name in ('xorcomp', 'majcomp'):
        return params[0]
    return params[0] * N


def gadget_predicate(name, params):
    """truth function of the block of new variables of one original variable"""
    k = params[0] if params else None
    if name == 'xor':
        return lambda bits: sum(bits) % 2 == 1
    if name == 'or':
        return lambda bits: any(bits)
    if name == 'maj':
        return lambda bits: 2 * sum(bits) >= len(bits)
    if name == 'one':
        return lambda bits: sum(bits) == 1
    if name == 'eq':
        return lambda bits: sum(bits) in (0, len(bits))
    if name in ('neq', 'eq_invert'):
        return lambda bits: sum(bits) not in (0, len(bits))
    if name == 'atleast':
        return lambda bits: sum(bits) >= params[1]
    if name == 'atmost':
        return lambda bits: sum(bits) <= params[1]
    if name == 'exact':
        return lambda bits: sum(bits) == params[1]
    if name == 'anybut':
        return lambda bits: sum(bits) != params[1]
    if name == 'linear':
        return lambda bits: ARITH[params[1]](sum(bits), params[2])
    raise KeyError(name)


def var_table(i, n):
    """truth table (as an int with 2**n bits) of variable i+1: bit b is (b >> i) & 1"""
    t = ((1 << (1 << i)) - 1) << (1 << i)
    w = 1 << (i + 1)
    while w < (1 << n):
        t |= t << w
        w *= 2
    return t


def tables(n):
    full = (1 << (1 << n)) - 1
    return full, [None] + [var_table(i, n) for i in range(n)]


def table_of_function(pred, vars_, T, full):
    """truth table of pred(values of vars_)"""
    out = 0
    for pat in itertools.product([0, 1], repeat=len(vars_)):
        if pred(pat):
            t = full
            for v, b in zip(vars_, pat):
                t &= T[v] if b else (full & ~T[v])
            out |= t
    return out


def cnf_table(F, lit_table, full):
    out = full
    for c in F:
        t = 0
        for l in c:
            t |= lit_table(l)
        out &= t
    return out


def property_fails(name, params, N, F, numvar_out, out):
    """Search an assignment of the transformed formula on which it disagrees with the
    induced assignment; or a wrong variable count.  Returns a dict or None."""
    doc = documented_numvar(name, params, N)
    try:
        maxlit = max([abs(l) for c in out for l in c] + [0])
    except Exception as e:
        return {'malformed-output': repr(e)}
    if numvar_out != doc:
        return {'numvar': numvar_out, 'documented': doc}
    n = max(doc, maxlit)
    if n > 20:
        return None
    full, T = tables(n)
    if name == 'flip':
        dec = [None] + [full & ~T[v] for v in range(1, N + 1)]
        side = full
    elif name == 'ite':
        dec = [None] + [(T[v] & T[N + v]) | (full & ~T[v] & T[2 * N + v]) for v in range(1, N + 1)]
        side = full
    elif name == 'lift':
        k = params[0]
        dec = [None]
        side = full
        for v in range(1, N + 1):
            xs = [(v - 1) * 2 * k + i for i in range(1, k + 1)]
            ys = [(v - 1) * 2 * k + k + i for i in range(1, k + 1)]
            d = 0
            for x, y in zip(xs, ys):
                d |= T[x] & T[y]
            dec.append(d)
            side &= table_of_function(lambda bits: sum(bits) == 1, ys, T, full)
    elif name in ('xorcomp', 'majcomp'):
        adj = params[1]
        pred = (lambda bits: sum(bits) % 2 == 1) if name == 'xorcomp' else (lambda bits: 2 * sum(bits) >= len(bits))
        dec = [None] + [table_of_function(pred, adj[v - 1], T, full) for v in range(1, N + 1)]
        side = full
    else:
        k = params[0]
        pred = gadget_predicate(name, params)
        dec = [None] + [table_of_function(pred, [(v - 1) * k + i for i in range(1, k + 1)], T, full)
                        for v in range(1, N + 1)]
        side = full
    want = side & cnf_table(F, lambda l: dec[l] if l > 0 else (full & ~dec[-l]), full)
    got = cnf_table(out, lambda l: T[l] if l > 0 else (full & ~T[-l]), full)
    diff = want ^ got
    if diff == 0:
        return None
    b = (diff & -diff).bit_length() - 1
    return {'assignment': {str(v): bool((b >> (v - 1)) & 1) for v in range(1, n + 1)},
            'transformed_formula_value': bool((got >> b) & 1), 'induced_assignment_value': bool((want >> b) & 1)}


# --------------------------------------------------------------------------
# input generation
# --------------------------------------------------------------------------
def random_cnf(rng, maxn=6, maxm=6, maxw=4):
    """(N, clauses, class): literals within 1..N; deliberately empty clauses, unused
    variables, repeated and opposite literals"""
    N = rng.randint(0, maxn)
    m = rng.randint(0, maxm)
    used = N if rng.random() < 0.5 else rng.randint(0, N)     # variables used..N stay unused
    F = []
    tags = set()
    for _ in range(m):
        w = rng.randint(0, maxw) if used else 0
        c = [rng.choice([1, -1]) * rng.randint(1, used) for _ in range(w)]
        if w >= 2 and rng.random() < 0.25:
            c[rng.randrange(w)] = -c[0] if rng.random() < 0.5 else c[0]
        F.append(c)
    if any(len(c) == 0 for c in F):
        tags.add('empty-clause')
    if max([abs(l) for c in F for l in c] + [0]) < N:
        tags.add('unused-trailing-variable')
    if set(range(1, N + 1)) - {abs(l) for c in F for l in c}:
        tags.add('unused-variable')
    if any(len(set(c)) < len(c) for c in F):
        tags.add('repeated-literal')
    if any(-l in c for c in F for l in c):
        tags.add('opposite-literals')
    if not F:
        tags.add('no-clause')
    return N, F, sorted(tags)


def random_graph(rng, L, maxr=5):
    R = rng.randint(0, maxr)
    adj = []
    for _ in range(L):
        d = rng.randint(0, min(R, 4))
        adj.append(sorted(rng.sample(range(1, R + 1), d)))
    return R, adj


STYLES = ['anonymous', 'block', 'singletons-with-braces']


def build_formula(CNF, N, F, style):
    G = CNF()
    if style == 'anonymous':
        G.update_variable_number(N)
    elif style == 'block':
        if N:
            G.new_block(N, label='x_{{{}}}')
    else:
        for i in range(N):
            G.new_variable(label='y_{%d}' % i)
    for c in F:
        G.add_clause(c)
    assert G.number_of_variables() == N
    return G


def transformations(rng, N, quick, maxk=4):
    """list of (name, params) with params JSON friendly"""
    out = [('flip', []), ('ite', [])]
    for k in range(1, maxk + 1):
        for name in ('xor', 'or', 'maj', 'one', 'eq', 'neq', 'eq_invert', 'lift'):
            out.append((name, [k]))
        for C in range(-1, k + 2):
            for name in ('atleast', 'atmost', 'exact', 'anybut'):
                out.append((name, [k, C]))
            for op in OPS:
                if quick and op not in ('<', '>') and (C + k) % 2:
                    continue     # ==,<=,>=,!= are also reached through exact/atmost/atleast/anybut
                out.append(('linear', [k, op, C]))
    for fn in ('xorcomp', 'majcomp'):
        for _ in range(2 if quick else 4):
            R, adj = random_graph(rng, N)
            out.append((fn, [R, adj]))
    return out


def invalid_transformations(rng, N):
    out = []
    for k in (0, -1, -3):
        for name in ('xor', 'or', 'maj', 'one', 'eq', 'neq', 'lift'):
            out.append((name, [k]))
        out.append(('atleast', [k, 1]))
        out.append(('linear', [k, '<', 1]))
    R, adj = random_graph(rng, N + 1)
    out.append(('xorcomp', [R, adj]))       # left side too large
    if N >= 1:
        R, adj = random_graph(rng, N - 1)
        out.append(('majcomp', [R, adj]))   # left side too small
    R, adj = random_graph(rng, N)
    out.append(('othercomp', [R, adj]))     # unknown function name
    return out


def impl_thunk(S, G, name, params):
    from cnfgen.graphs import BipartiteGraph

    def graph(R, adj):
        B = BipartiteGraph(len(adj), R)
        for u, nb in enumerate(adj, 1):
            for v in nb:
                B.add_edge(u, v)
        return B
    if name == 'flip':
        return lambda: S.FlipPolarity(G)
    if name == 'ite':
        return lambda: S.IfThenElseSubstitution(G)
    if name == 'eq_invert':
        return lambda: S.AllEqualSubstitution(G, params[0], invert=True)
    if name == 'linear':
        return lambda: S.LinearSubstitution(G, params[0], params[1], params[2])
    if name in ('xorcomp', 'majcomp', 'othercomp'):
        fn = {'xorcomp': 'xor', 'majcomp': 'maj', 'othercomp': 'and'}[name]
        return lambda: S.VariableCompression(G, graph(params[0], params[1]), fn)
    f = getattr(S, IMPL_NAME[name])
    return lambda: f(G, *params)


def model_request(name, N, F, params):
    return cmd('subst', name, N, F, *params)


def observe(thunk, G_before):
    """run the transformation; returns ('ok', numvar, clauses) | ('exc', class, msg)"""
    r = outcome(thunk)
    if r[0] != 'ok':
        return r
    H = r[1]
    return ('ok', H.number_of_variables(), [list(c) for c in H])


# --------------------------------------------------------------------------
def judge(ctx, stream, descr, name, params, N, F, got, rep, valid=True):
    """compare implementation outcome `got` with model reply `rep`"""
    site = IMPL_NAME[name]
    if is_error(rep):
        ctx.violation('correspondence', 'model error', dict(input=descr, model=rep), False, site='model-error', cls=stream)
        return
    model = ('ok', rep[1], rep[2]) if rep[0] == 'ok' else ('exc', 'ValueError')
    if got[0] == 'exc':
        if model[0] == 'exc' and got[1] == model[1]:
            return
        ctx.disagreements_checked += 1
        if model[0] == 'exc':
            ctx.violation('correspondence', 'invalid argument rejected with %s, the model (Subst.v) says %s' % (got[1], model[1]),
                          dict(input=descr, implementation=list(got), model=list(model)), False, site=site, cls='error-class')
        else:
            ctx.violation('counterexample', 'transformation raised %s on a valid input' % got[1],
                          dict(input=descr, implementation=list(got), model=[model[1], model[2]]), True,
                          site=site, cls='raises-' + got[1])
        return
    if model[0] == 'exc':
        ctx.disagreements_checked += 1
        ctx.violation('correspondence', 'invalid argument accepted; the model (Subst.v) raises ValueError',
                      dict(input=descr, implementation=[got[1], got[2]], model=list(model)), False, site=site, cls='accepted-invalid')
        return
    same_clauses = got[2] == model[2]
    doc = documented_numvar(name, params, N)
    if same_clauses and got[1] == model[1] and got[1] == doc:
        return
    if same_clauses and got[1] == doc:
        # the variable count is the documented one although the faithful model (as_is) says otherwise:
        # this is the behaviour of flip_polarity_spec (a repaired FlipPolarity); covered by C05_flip_spec_*
        if name == 'flip':
            ctx.tally('flip agrees with', 'flip_polarity_spec (repaired)')
            return
    ctx.disagreements_checked += 1
    if same_clauses and got[1] == model[1]:
        # agreement with the faithful model, which is proved to miss the documented count (flip_numvar_refuted)
        cls = 'numvar-unused-trailing-variables' if name == 'flip' else 'numvar'
        ctx.violation('counterexample', 'the transformed formula has %d variables, documented %d' % (got[1], doc),
                      dict(input=descr, implementation_numvar=got[1], documented_numvar=doc, clauses=got[2],
                           theorem='Prop_C05.v: C05_flip_numvar_refuted'), True, site=site, cls=cls)
        return
    witness = None
    try:
        witness = property_fails(name, params, N, F, got[1], got[2])
    except Exception as e:  # malformed output
        witness = {'malformed-output': repr(e)}
    if witness is not None:
        cls = 'semantics' if 'assignment' in witness else ('numvar' if 'numvar' in witness else 'malformed')
        ctx.violation('counterexample', 'the transformed formula is not the composition of the formula with the gadget',
                      dict(input=descr, witness=witness, implementation=[got[1], got[2]], model=[model[1], model[2]]),
                      True, site=site, cls=cls)
    else:
        ctx.violation('correspondence', 'output differs from the model (Subst.v); theorems C05_* no longer cover the code',
                      dict(input=descr, implementation=[got[1], got[2]], model=[model[1], model[2]],
                           correspondence='Subst.v <-> substitutions.py:' + site), False, site=site, cls='order-or-shape')


def run_cases(ctx, cases):
    """cases: list of (stream, descr, name, params, N, F, thunk, key, nontrivial)"""
    replies = ctx.model.batch([model_request(c[2], c[4], c[5], c[3]) for c in cases])
    for (stream, descr, name, params, N, F, thunk, key, nontrivial), rep in zip(cases, replies):
        ctx.count(stream, key, nontrivial, sample=descr)
        got = observe(thunk, None)
        judge(ctx, stream, descr, name, params, N, F, got, rep)


def parse_dimacs(text):
    n = None
    F = []
    cur = []
    for ln in text.split('\n'):
        ln = ln.strip()
        if not ln or ln[0] == 'c':
            continue
        if ln[0] == 'p':
            n = int(ln.split()[2])
            continue
        for tok in ln.split():
            v = int(tok)
            if v == 0:
                F.append(cur)
                cur = []
            else:
                cur.append(v)
    return n, F


def cli(argv):
    env = dict(os.environ, PYTHONPATH=lib.REPO, PYTHONHASHSEED='0')
    code = 'import sys; from cnfgen.clitools.cnfgen import main; sys.argv = ["cnfgen"] + sys.argv[1:]; main()'
    p = subprocess.run([lib.PY, '-W', 'ignore', '-c', code] + [str(a) for a in argv], cwd=lib.REPO, env=env,
                       stdout=subprocess.PIPE, stderr=subprocess.PIPE, timeout=120)
    return p.returncode, p.stdout.decode(), p.stderr.decode()


CLI_CASES = [
    (['php', 4, 3], 'xor', [2]), (['php', 3, 2], 'or', [3]), (['op', 3], 'maj', [3]), (['php', 3, 2], 'one', [2]),
    (['php', 3, 2], 'eq', [2]), (['op', 3], 'neq', [3]), (['php', 3, 2], 'atleast', [3, 2]), (['php', 3, 2], 'atmost', [3, 1]),
    (['op', 3], 'exact', [3, 1]), (['php', 3, 2], 'anybut', [2, 1]), (['php', 3, 2], 'ite', []), (['php', 3, 2], 'lift', [2]),
    (['op', 3], 'flip', []), (['php', 3, 2], 'xorcomp', ['shift', 6, 4, 1, 2]), (['php', 3, 2], 'majcomp', ['complete', 6, 3]),
]


def run_cli(ctx, quick):
    cases = CLI_CASES[::2] if quick else CLI_CASES
    reqs = []
    meta = []
    for fam, name, targs in cases:
        rc0, out0, err0 = cli(['-q'] + fam)
        rc1, out1, err1 = cli(['-q'] + fam + ['-T', name] + targs)
        descr = dict(argv=['cnfgen', '-q'] + [str(x) for x in fam] + ['-T', name] + [str(x) for x in targs])
        if rc0 != 0 or rc1 != 0:
            ctx.count('cli', str(descr), True, sample=descr)
            ctx.violation('counterexample', 'cnfgen exits with %d/%d on a valid command line' % (rc0, rc1),
                          dict(input=descr, stderr=(err0 + err1)[-500:]), True, site='cli-' + name, cls='exit-code')
            continue
        N, F = parse_dimacs(out0)
        n1, F1 = parse_dimacs(out1)
        if name in ('xorcomp', 'majcomp'):
            # the graph named on the command line, built with the library (graph constructions are C15's business)
            from cnfgen.graphs import bipartite_shift
            if targs[0] == 'shift':
                L, R, pat = targs[1], targs[2], targs[3:]
                B = bipartite_shift(L, R, sorted(pat))
                adj = [list(B.right_neighbors(u)) for u in range(1, L + 1)]
            else:
                L, R = targs[1], targs[2]
                adj = [list(range(1, R + 1)) for _ in range(L)]
            params = [R, adj]
        else:
            params = list(targs)
        reqs.append(model_request(name, N, F, params))
        meta.append((descr, name, params, N, F, ('ok', n1, F1)))
    for (descr, name, params, N, F, got), rep in zip(meta, ctx.model.batch(reqs)):
        ctx.count('cli', str(descr), True, sample=descr)
        ctx.tally('cli transformation', name)
        judge(ctx, 'cli', descr, name, params, N, F, got, rep)


def run(ctx):
    import_impl()
    from cnfgen.formula.cnf import CNF
    import cnfgen.transformations.substitutions as S
    import cnfgen
    quick = ctx.tier == 'quick'
    rng = ctx.rng

    # ---- stream 1: random small formulas x all transformations ----
    nform = 36 if quick else 260
    cases = []
    fixed = [(0, [], ['no-clause']), (0, [[]], ['empty-clause']), (3, [[1], [], [1]], ['empty-clause', 'unused-trailing-variable']),
             (2, [[1, -1], [2, 2]], ['opposite-literals', 'repeated-literal']), (1, [[1]], []), (1, [[-1]], [])]
    formulas = fixed + [random_cnf(rng) for _ in range(nform)]
    for idx, (N, F, tags) in enumerate(formulas):
        style = STYLES[idx % 3]
        ctx.tally('formula variables', N)
        ctx.tally('formula clauses', len(F))
        ctx.tally('variable-creation style', style)
        for t in tags or ['plain']:
            ctx.tally('formula feature', t)
        for c in F:
            ctx.tally('clause width', len(c))
        G = build_formula(CNF, N, F, style)
        trs = transformations(rng, N, quick)
        if quick and idx >= len(fixed):
            # thin: every formula sees flip/ite/compressions and a random half of the rest
            trs = [t for t in trs if t[0] in ('flip', 'ite', 'xorcomp', 'majcomp') or rng.random() < 0.5]
        for name, params in trs:
            # keep the cartesian products small: largest clause width x gadget size
            width = max([len(c) for c in F] + [0])
            k = params[0] if params and isinstance(params[0], int) else 1
            if name not in ('xorcomp', 'majcomp') and width >= 4 and k >= 4 and name in ('xor', 'linear', 'exact', 'atleast', 'atmost', 'anybut', 'maj', 'one'):
                Fx = [c[:3] for c in F]
                Gx = build_formula(CNF, N, Fx, style)
            else:
                Fx, Gx = F, G
            ctx.tally('transformation', name)
            if params and isinstance(params[0], int) and name not in ('xorcomp', 'majcomp'):
                ctx.tally('arity', params[0])
            descr = dict(transformation=name, params=params, numvar=N, clauses=Fx, style=style)
            cases.append(('random-' + ('compression' if 'comp' in name else 'lifting' if name == 'lift' else 'substitution'),
                          descr, name, params, N, Fx, impl_thunk(S, Gx, name, params),
                          (idx, name, str(params)), any(len(c) > 0 for c in Fx)))
        for name, params in invalid_transformations(rng, N):
            ctx.tally('invalid argument', name + (' k=%s' % params[0] if 'comp' not in name else ' graph/function'))
            descr = dict(transformation=name, params=params, numvar=N, clauses=F, style=style)
            cases.append(('invalid-arguments', descr, name, params, N, F, impl_thunk(S, G, name, params),
                          (idx, name, str(params)), True))
    run_cases(ctx, cases)

    # ---- stream 2: medium formulas ----
    medium = [('PigeonholePrinciple', (6, 5), 'xor', [3]), ('PigeonholePrinciple', (5, 4), 'maj', [3]),
              ('OrderingPrinciple', (5,), 'lift', [2]), ('PigeonholePrinciple', (5, 4), 'exact', [4, 2]),
              ('OrderingPrinciple', (4,), 'ite', []), ('PigeonholePrinciple', (4, 3), 'flip', []),
              ('PigeonholePrinciple', (4, 3), 'neq', [3]), ('OrderingPrinciple', (4,), 'one', [3])]
    if not quick:
        medium += [('PigeonholePrinciple', (7, 6), 'xor', [2]), ('OrderingPrinciple', (6,), 'or', [3]),
                   ('PigeonholePrinciple', (6, 5), 'atleast', [3, 2]), ('OrderingPrinciple', (5,), 'eq', [3]),
                   ('PigeonholePrinciple', (6, 4), 'lift', [3]), ('OrderingPrinciple', (5,), 'anybut', [3, 1])]
    cases = []
    for fam, fargs, name, params in medium:
        G = getattr(cnfgen, fam)(*fargs)
        N, F = G.number_of_variables(), [list(c) for c in G]
        ctx.tally('medium formula', '%s%r' % (fam, fargs))
        descr = dict(formula='%s%r' % (fam, fargs), transformation=name, params=params)
        cases.append(('medium', descr, name, params, N, F, impl_thunk(S, G, name, params), (fam, fargs, name, str(params)), True))
    # compression of a medium formula by a random graph
    for fn in ('xorcomp', 'majcomp'):
        G = cnfgen.PigeonholePrinciple(4, 3)
        N, F = G.number_of_variables(), [list(c) for c in G]
        R = 8
        adj = [sorted(rng.sample(range(1, R + 1), 3)) for _ in range(N)]
        descr = dict(formula='PigeonholePrinciple(4, 3)', transformation=fn, params=[R, adj])
        cases.append(('medium', descr, fn, [R, adj], N, F, impl_thunk(S, G, fn, [R, adj]), ('php43', fn, str(adj)), True))
    run_cases(ctx, cases)

    # ---- stream 3: command line ----
    run_cli(ctx, quick)
    # a site for which a failing input was found needs no extra 'model differs' line
    bad = {v['site'] for v in ctx.violations if v['kind'] == 'counterexample'}
    ctx.violations = [v for v in ctx.violations if not (v['kind'] == 'correspondence' and v['site'] in bad)]
    ctx.exhaustive = False


def replay(ctx, rp):
    """re-run one recorded case"""
    import_impl()
    from cnfgen.formula.cnf import CNF
    import cnfgen.transformations.substitutions as S
    d = rp.get('input', {})
    if 'clauses' not in d:
        return run(ctx)
    N, F, name, params = d['numvar'], d['clauses'], d['transformation'], d['params']
    G = build_formula(CNF, N, F, d.get('style', 'anonymous'))
    run_cases(ctx, [('replay', d, name, params, N, F, impl_thunk(S, G, name, params), 'replay', True)])
