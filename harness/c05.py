"""C05 -- substitution, lifting, polarity flip and variable compression compose the
formula with the gadget.

Correspondence: for seeded-random small CNFs (with empty clauses, unused
variables, repeated and opposite literals) and every transformation, arity,
threshold and compression graph, the clause list (in order) and the number of
variables produced by cnfgen are compared with the extracted Coq model
(coq/Subst.v).  The documented variable count is checked directly on every
output.  On a disagreement the implementation's output is evaluated on ALL
assignments of the transformed formula (bit-parallel truth tables, <= 20
variables) against the induced assignment, to find an input on which the
property itself fails.

Streams added by the strengthening round (notes/LARGE_STREAMS.md), run FIRST as a corpus:
  thresholds-wide-clause   one clause of width 17..40 with repeated literals and opposite pairs (+ a short one)
                           under the transformations whose output stays small (the clause is trimmed by a
                           size estimate), ite / lift 2 on width 17 (2^17 clauses);
  thresholds-arity         arity / left degree 15..17 (xor, maj, one, lift, linear forms, compressions) and
                           63..1000 (or, eq, neq) on formulas with unit and binary clauses;
  thresholds-many-variables  257..1025 variables, literals around 255..258 and N, every transformation k <= 2;
  shapes-labels            repeated labels (two new_variable('p'), a label equal to a default label, repeated
                           block labels, labels with braces, empty label, NO label), every transformation k <= 2;
  history                  one formula object edited through its public API (clauses naming new variables, raises
                           by several units, groups added) and transformed again after each edit; chains.
Beyond 20 variables the failing-input search evaluates the implementation's output on structured assignments
(all true / all false / single flips), on assignments falsifying a clause that only one of the two outputs
contains, and on random ones."""
import itertools
import os
import subprocess
import tempfile

import lib
from lib import cmd, outcome, is_error, import_impl

META = dict(
    technique='Coq theorems (apply_subst_sem + one gadget lemma per transformation, lift_sem, numvar theorems, '
              'flip_numvar_refuted) + extracted-model differential check (exact clause lists and variable counts)',
    category='proof',
    text='Machine-checked theorems state, for every CNF with literals in range, every arity k>=1, threshold, compression '
         'graph and assignment of the new variables, that the transformed formula built by the model is satisfied exactly '
         'when the induced assignment satisfies the original formula (for lifting: together with exactly one selector per '
         'variable), and that it has the documented number of variables; the polarity flip is proved NOT to keep the variable '
         'count when trailing variables are unused (flip_numvar_refuted). The model is tied to the code by comparing, in order, '
         'the clauses and the variable count cnfgen produces with those of the extracted model on seeded-random formulas, all '
         'transformations, arities 1..4, thresholds -1..k+1, random compression graphs, medium formulas and the command line; '
         'also clauses of width 17-40, arities and degrees 15-17 and 63-1000, formulas with 257-1025 variables, repeated '
         'and missing labels, and formula objects edited between two transformations.',
    note='Trusted: Coq kernel, extraction, OCaml driver, the harness. The model is hand-written; agreement with the code is '
         'checked only on the inputs of the run (see input_distribution). Labels/headers of the new formula are not modelled. '
         'Theorems assume literals within 1..N (invariant of CNF objects built with check=True).',
    design_ref='5/C05',
)
RULE = ('one case = one (formula, transformation, parameters) triple; non-trivial when the formula has at least one '
        'non-empty clause; distinct = distinct (stream, formula, transformation, parameters) keys')
TRUSTED = ['Python truth-table evaluator used only to search a failing assignment after a disagreement']

OPS = ['==', '<', '>', '<=', '>=', '!=']
ARITH = {'<=': lambda x, k: x <= k, '>=': lambda x, k: x >= k, '<': lambda x, k: x < k,
         '>': lambda x, k: x > k, '==': lambda x, k: x == k, '!=': lambda x, k: x != k}
IMPL_NAME = dict(flip='FlipPolarity', ite='IfThenElseSubstitution', xor='XorSubstitution', maj='MajoritySubstitution',
                 one='ExactlyOneSubstitution', eq='AllEqualSubstitution', neq='NotAllEqualSubstitution',
                 eq_invert='AllEqualSubstitution', lift='FormulaLifting', atleast='AtLeastKSubstitution',
                 atmost='AtMostKSubstitution', exact='ExactlyKSubstitution', anybut='AnythingButKSubstitution',
                 linear='LinearSubstitution', xorcomp='VariableCompression', majcomp='VariableCompression',
                 othercomp='VariableCompression')
IMPL_NAME['or'] = 'OrSubstitution'


# --------------------------------------------------------------------------
# independent semantics (used only for failing-input search and numvar check)
# --------------------------------------------------------------------------
def documented_numvar(name, params, N):
    if name == 'flip':
        return N
    if name == 'ite':
        return 3 * N
    if name == 'lift':
        return 2 * params[0] * N
    if name in ('xorcomp', 'majcomp'):
        return params[0]
    return params[0] * N


def gadget_predicate(name, params):
    """truth function of the block of new variables of one original variable"""
    k = params[0] if params else None
    if name == 'xor':
        return lambda bits: sum(bits) % 2 == 1
    if name == 'or':
        return lambda bits: any(bits)
    if name == 'maj':
        return lambda bits: 2 * sum(bits) >= len(bits)
    if name == 'one':
        return lambda bits: sum(bits) == 1
    if name == 'eq':
        return lambda bits: sum(bits) in (0, len(bits))
    if name in ('neq', 'eq_invert'):
        return lambda bits: sum(bits) not in (0, len(bits))
    if name == 'atleast':
        return lambda bits: sum(bits) >= params[1]
    if name == 'atmost':
        return lambda bits: sum(bits) <= params[1]
    if name == 'exact':
        return lambda bits: sum(bits) == params[1]
    if name == 'anybut':
        return lambda bits: sum(bits) != params[1]
    if name == 'linear':
        return lambda bits: ARITH[params[1]](sum(bits), params[2])
    raise KeyError(name)


def var_table(i, n):
    """truth table (as an int with 2**n bits) of variable i+1: bit b is (b >> i) & 1"""
    t = ((1 << (1 << i)) - 1) << (1 << i)
    w = 1 << (i + 1)
    while w < (1 << n):
        t |= t << w
        w *= 2
    return t


def tables(n):
    full = (1 << (1 << n)) - 1
    return full, [None] + [var_table(i, n) for i in range(n)]


def table_of_function(pred, vars_, T, full):
    """truth table of pred(values of vars_)"""
    out = 0
    for pat in itertools.product([0, 1], repeat=len(vars_)):
        if pred(pat):
            t = full
            for v, b in zip(vars_, pat):
                t &= T[v] if b else (full & ~T[v])
            out |= t
    return out


def cnf_table(F, lit_table, full):
    out = full
    for c in F:
        t = 0
        for l in c:
            t |= lit_table(l)
        out &= t
    return out


def property_fails(name, params, N, F, numvar_out, out, model_out=None):
    """Search an assignment of the transformed formula on which it disagrees with the
    induced assignment; or a wrong variable count.  Returns a dict or None."""
    doc = documented_numvar(name, params, N)
    try:
        maxlit = max([abs(l) for c in out for l in c] + [0])
    except Exception as e:
        return {'malformed-output': repr(e)}
    if numvar_out != doc:
        return {'numvar': numvar_out, 'documented': doc}
    n = max(doc, maxlit)
    if n > 20:
        return property_fails_sampled(name, params, N, F, numvar_out, out, model_out or [])
    full, T = tables(n)
    if name == 'flip':
        dec = [None] + [full & ~T[v] for v in range(1, N + 1)]
        side = full
    elif name == 'ite':
        dec = [None] + [(T[v] & T[N + v]) | (full & ~T[v] & T[2 * N + v]) for v in range(1, N + 1)]
        side = full
    elif name == 'lift':
        k = params[0]
        dec = [None]
        side = full
        for v in range(1, N + 1):
            xs = [(v - 1) * 2 * k + i for i in range(1, k + 1)]
            ys = [(v - 1) * 2 * k + k + i for i in range(1, k + 1)]
            d = 0
            for x, y in zip(xs, ys):
                d |= T[x] & T[y]
            dec.append(d)
            side &= table_of_function(lambda bits: sum(bits) == 1, ys, T, full)
    elif name in ('xorcomp', 'majcomp'):
        adj = params[1]
        pred = (lambda bits: sum(bits) % 2 == 1) if name == 'xorcomp' else (lambda bits: 2 * sum(bits) >= len(bits))
        dec = [None] + [table_of_function(pred, adj[v - 1], T, full) for v in range(1, N + 1)]
        side = full
    else:
        k = params[0]
        pred = gadget_predicate(name, params)
        dec = [None] + [table_of_function(pred, [(v - 1) * k + i for i in range(1, k + 1)], T, full)
                        for v in range(1, N + 1)]
        side = full
    want = side & cnf_table(F, lambda l: dec[l] if l > 0 else (full & ~dec[-l]), full)
    got = cnf_table(out, lambda l: T[l] if l > 0 else (full & ~T[-l]), full)
    diff = want ^ got
    if diff == 0:
        return None
    b = (diff & -diff).bit_length() - 1
    return {'assignment': {str(v): bool((b >> (v - 1)) & 1) for v in range(1, n + 1)},
            'transformed_formula_value': bool((got >> b) & 1), 'induced_assignment_value': bool((want >> b) & 1)}


# --------------------------------------------------------------------------
# failing-input search beyond 20 variables (explicit assignments)
# --------------------------------------------------------------------------
def clip(xs, keep=60):
    """a big clause list is kept in a replay file as its length, its head and its tail"""
    if not isinstance(xs, list) or len(xs) <= 2 * keep:
        return xs
    return dict(length=len(xs), head=xs[:keep], tail=xs[-keep:])


def first_difference(a, b):
    n = min(len(a), len(b))
    for i in range(n):
        if list(a[i]) != list(b[i]):
            return dict(index=i, implementation=a[i], model=b[i])
    if len(a) != len(b):
        return dict(index=n, implementation_length=len(a), model_length=len(b))
    return None


def decode_assignment(name, params, N, b):
    """b: list of booleans indexed by the NEW variables (b[0] unused).  Returns (values of the
    original variables as a list indexed 1..N, side condition)"""
    val = [None] * (N + 1)
    side = True
    if name == 'flip':
        for v in range(1, N + 1):
            val[v] = not b[v]
    elif name == 'ite':
        for v in range(1, N + 1):
            val[v] = b[N + v] if b[v] else b[2 * N + v]
    elif name == 'lift':
        k = params[0]
        for v in range(1, N + 1):
            xs = [(v - 1) * 2 * k + i for i in range(1, k + 1)]
            ys = [(v - 1) * 2 * k + k + i for i in range(1, k + 1)]
            val[v] = any(b[x] and b[y] for x, y in zip(xs, ys))
            if sum(1 for y in ys if b[y]) != 1:
                side = False
    elif name in ('xorcomp', 'majcomp'):
        adj = params[1]
        pred = (lambda bits: sum(bits) % 2 == 1) if name == 'xorcomp' else (lambda bits: 2 * sum(bits) >= len(bits))
        for v in range(1, N + 1):
            val[v] = pred([b[u] for u in adj[v - 1]])
    else:
        k = params[0]
        pred = gadget_predicate(name, params)
        for v in range(1, N + 1):
            val[v] = pred([b[(v - 1) * k + i] for i in range(1, k + 1)])
    return val, side


def eval_cnf(a, clauses):
    for c in clauses:
        for l in c:
            if a[l] if l > 0 else not a[-l]:
                break
        else:
            return False
    return True


def property_fails_sampled(name, params, N, F, numvar_out, out, model_out, budget_s=25.0):
    import random
    import time
    rng = random.Random(0)
    t0 = time.time()
    doc = documented_numvar(name, params, N)
    n = max([doc, numvar_out] + [abs(l) for c in out for l in c])

    def blank(v):
        return [v] * (n + 1)

    def candidates():
        yield blank(False)
        yield blank(True)
        si = {tuple(c) for c in out}
        sm = {tuple(c) for c in model_out}
        only = [c for c in out if tuple(c) not in sm][:40] + [c for c in model_out if tuple(c) not in si][:40]
        for c in only:
            for fill in ('f', 't', 'r', 'r', 'r', 'r', 'r', 'r'):
                a = blank(fill == 't')
                if fill == 'r':
                    p = rng.choice([0.2, 0.5, 0.8])
                    for v in range(1, n + 1):
                        a[v] = rng.random() < p
                for l in c:
                    if abs(l) <= n:
                        a[abs(l)] = l < 0
                yield a
        for v in range(1, min(n, 150) + 1):
            a = blank(False)
            a[v] = True
            yield a
            a = blank(True)
            a[v] = False
            yield a
        for _ in range(400):
            p = rng.choice([0.1, 0.3, 0.5, 0.7, 0.9])
            yield [False] + [rng.random() < p for _ in range(n)]

    for b in candidates():
        val, side = decode_assignment(name, params, N, b)
        want = side and all(any((val[l] if l > 0 else not val[-l]) for l in c) for c in F)
        got = eval_cnf(b, out)
        if want != got:
            return {'assignment': {str(v): b[v] for v in range(1, n + 1)},
                    'transformed_formula_value': got, 'induced_assignment_value': want}
        if time.time() - t0 > budget_s:
            break
    return None


# --------------------------------------------------------------------------
# input generation
# --------------------------------------------------------------------------
def random_cnf(rng, maxn=6, maxm=6, maxw=4):
    """(N, clauses, class): literals within 1..N; deliberately empty clauses, unused
    variables, repeated and opposite literals"""
    N = rng.randint(0, maxn)
    m = rng.randint(0, maxm)
    used = N if rng.random() < 0.5 else rng.randint(0, N)     # variables used..N stay unused
    F = []
    tags = set()
    for _ in range(m):
        w = rng.randint(0, maxw) if used else 0
        c = [rng.choice([1, -1]) * rng.randint(1, used) for _ in range(w)]
        if w >= 2 and rng.random() < 0.25:
            c[rng.randrange(w)] = -c[0] if rng.random() < 0.5 else c[0]
        F.append(c)
    if any(len(c) == 0 for c in F):
        tags.add('empty-clause')
    if max([abs(l) for c in F for l in c] + [0]) < N:
        tags.add('unused-trailing-variable')
    if set(range(1, N + 1)) - {abs(l) for c in F for l in c}:
        tags.add('unused-variable')
    if any(len(set(c)) < len(c) for c in F):
        tags.add('repeated-literal')
    if any(-l in c for c in F for l in c):
        tags.add('opposite-literals')
    if not F:
        tags.add('no-clause')
    return N, F, sorted(tags)


def random_graph(rng, L, maxr=5):
    R = rng.randint(0, maxr)
    adj = []
    for _ in range(L):
        d = rng.randint(0, min(R, 4))
        adj.append(sorted(rng.sample(range(1, R + 1), d)))
    return R, adj


STYLES = ['anonymous', 'block', 'singletons-with-braces']


def build_formula(CNF, N, F, style):
    G = CNF()
    if style == 'anonymous':
        G.update_variable_number(N)
    elif style == 'block':
        if N:
            G.new_block(N, label='x_{{{}}}')
    else:
        for i in range(N):
            G.new_variable(label='y_{%d}' % i)
    for c in F:
        G.add_clause(c)
    assert G.number_of_variables() == N
    return G


def transformations(rng, N, quick, maxk=4):
    """list of (name, params) with params JSON friendly"""
    out = [('flip', []), ('ite', [])]
    for k in range(1, maxk + 1):
        for name in ('xor', 'or', 'maj', 'one', 'eq', 'neq', 'eq_invert', 'lift'):
            out.append((name, [k]))
        for C in range(-1, k + 2):
            for name in ('atleast', 'atmost', 'exact', 'anybut'):
                out.append((name, [k, C]))
            for op in OPS:
                if quick and op not in ('<', '>') and (C + k) % 2:
                    continue     # ==,<=,>=,!= are also reached through exact/atmost/atleast/anybut
                out.append(('linear', [k, op, C]))
    for fn in ('xorcomp', 'majcomp'):
        for _ in range(2 if quick else 4):
            R, adj = random_graph(rng, N)
            out.append((fn, [R, adj]))
    return out


def invalid_transformations(rng, N):
    out = []
    for k in (0, -1, -3):
        for name in ('xor', 'or', 'maj', 'one', 'eq', 'neq', 'lift'):
            out.append((name, [k]))
        out.append(('atleast', [k, 1]))
        out.append(('linear', [k, '<', 1]))
    R, adj = random_graph(rng, N + 1)
    out.append(('xorcomp', [R, adj]))       # left side too large
    if N >= 1:
        R, adj = random_graph(rng, N - 1)
        out.append(('majcomp', [R, adj]))   # left side too small
    R, adj = random_graph(rng, N)
    out.append(('othercomp', [R, adj]))     # unknown function name
    return out


def impl_thunk(S, G, name, params):
    from cnfgen.graphs import BipartiteGraph

    def graph(R, adj):
        B = BipartiteGraph(len(adj), R)
        for u, nb in enumerate(adj, 1):
            for v in nb:
                B.add_edge(u, v)
        return B
    if name == 'flip':
        return lambda: S.FlipPolarity(G)
    if name == 'ite':
        return lambda: S.IfThenElseSubstitution(G)
    if name == 'eq_invert':
        return lambda: S.AllEqualSubstitution(G, params[0], invert=True)
    if name == 'linear':
        return lambda: S.LinearSubstitution(G, params[0], params[1], params[2])
    if name in ('xorcomp', 'majcomp', 'othercomp'):
        fn = {'xorcomp': 'xor', 'majcomp': 'maj', 'othercomp': 'and'}[name]
        return lambda: S.VariableCompression(G, graph(params[0], params[1]), fn)
    f = getattr(S, IMPL_NAME[name])
    return lambda: f(G, *params)


def model_request(name, N, F, params):
    return cmd('subst', name, N, F, *params)


def observe(thunk, G_before):
    """run the transformation; returns ('ok', numvar, clauses) | ('exc', class, msg)"""
    r = outcome(thunk)
    if r[0] != 'ok':
        return r
    H = r[1]
    return ('ok', H.number_of_variables(), [list(c) for c in H])


# --------------------------------------------------------------------------
def judge(ctx, stream, descr, name, params, N, F, got, rep, valid=True, site=None):
    """compare implementation outcome `got` with model reply `rep`"""
    site = site or IMPL_NAME[name]
    if is_error(rep):
        ctx.violation('correspondence', 'model error', dict(input=descr, model=rep), False, site='model-error', cls=stream)
        return
    model = ('ok', rep[1], rep[2]) if rep[0] == 'ok' else ('exc', 'ValueError')
    if got[0] == 'exc':
        if model[0] == 'exc' and got[1] == model[1]:
            return
        ctx.disagreements_checked += 1
        if model[0] == 'exc':
            ctx.violation('correspondence', 'invalid argument rejected with %s, the model (Subst.v) says %s' % (got[1], model[1]),
                          dict(input=descr, implementation=list(got), model=list(model)), False, site=site, cls='error-class')
        else:
            ctx.violation('counterexample', 'transformation raised %s on a valid input' % got[1],
                          dict(input=descr, implementation=list(got), model=[model[1], clip(model[2])]), True,
                          site=site, cls='raises-' + got[1])
        return
    if model[0] == 'exc':
        ctx.disagreements_checked += 1
        ctx.violation('correspondence', 'invalid argument accepted; the model (Subst.v) raises ValueError',
                      dict(input=descr, implementation=[got[1], clip(got[2])], model=list(model)), False, site=site, cls='accepted-invalid')
        return
    same_clauses = got[2] == model[2]
    doc = documented_numvar(name, params, N)
    if same_clauses and got[1] == model[1] and got[1] == doc:
        return
    if same_clauses and got[1] == doc:
        # the variable count is the documented one although the faithful model (as_is) says otherwise:
        # this is the behaviour of flip_polarity_spec (a repaired FlipPolarity); covered by C05_flip_spec_*
        if name == 'flip':
            ctx.tally('flip agrees with', 'flip_polarity_spec (repaired)')
            return
    ctx.disagreements_checked += 1
    if same_clauses and got[1] == model[1]:
        # agreement with the faithful model, which is proved to miss the documented count (flip_numvar_refuted)
        cls = 'numvar-unused-trailing-variables' if name == 'flip' else 'numvar'
        ctx.violation('counterexample', 'the transformed formula has %d variables, documented %d' % (got[1], doc),
                      dict(input=descr, implementation_numvar=got[1], documented_numvar=doc, clauses=clip(got[2]),
                           theorem='Prop_C05.v: C05_flip_numvar_refuted'), True, site=site, cls=cls)
        return
    witness = None
    try:
        witness = property_fails(name, params, N, F, got[1], got[2], model[2])
    except Exception as e:  # malformed output
        witness = {'malformed-output': repr(e)}
    if witness is not None:
        cls = 'semantics' if 'assignment' in witness else ('numvar' if 'numvar' in witness else 'malformed')
        ctx.violation('counterexample', 'the transformed formula is not the composition of the formula with the gadget',
                      dict(input=descr, witness=witness, implementation=[got[1], clip(got[2])], model=[model[1], clip(model[2])],
                           first_difference=first_difference(got[2], model[2])),
                      True, site=site, cls=cls)
    else:
        ctx.violation('correspondence', 'output differs from the model (Subst.v); theorems C05_* no longer cover the code',
                      dict(input=descr, implementation=[got[1], clip(got[2])], model=[model[1], clip(model[2])],
                           first_difference=first_difference(got[2], model[2]),
                           correspondence='Subst.v <-> substitutions.py:' + site), False, site=site, cls='order-or-shape')


def run_cases(ctx, cases):
    """cases: list of (stream, descr, name, params, N, F, thunk, key, nontrivial)"""
    def answered(cases, size=200):
        # chunk by chunk: the replies of a chunk (whole transformed formulas) are dropped before the next one is asked for
        for k in range(0, len(cases), size):
            part = cases[k:k + size]
            yield from zip(part, ctx.model.batch([model_request(c[2], c[4], c[5], c[3]) for c in part]))
    for case, rep in answered(cases):
        stream, descr, name, params, N, F, thunk, key, nontrivial = case[:9]
        ctx.count(stream, key, nontrivial, sample=descr)
        got = observe(thunk, None)
        judge(ctx, stream, descr, name, params, N, F, got, rep, site=case[9] if len(case) > 9 else None)


def parse_dimacs(text):
    n = None
    F = []
    cur = []
    for ln in text.split('\n'):
        ln = ln.strip()
        if not ln or ln[0] == 'c':
            continue
        if ln[0] == 'p':
            n = int(ln.split()[2])
            continue
        for tok in ln.split():
            v = int(tok)
            if v == 0:
                F.append(cur)
                cur = []
            else:
                cur.append(v)
    return n, F


def cli(argv):
    env = dict(os.environ, PYTHONPATH=lib.REPO, PYTHONHASHSEED='0')
    code = 'import sys; from cnfgen.clitools.cnfgen import main; sys.argv = ["cnfgen"] + sys.argv[1:]; main()'
    p = subprocess.run([lib.PY, '-W', 'ignore', '-c', code] + [str(a) for a in argv], cwd=lib.REPO, env=env,
                       stdout=subprocess.PIPE, stderr=subprocess.PIPE, timeout=120)
    return p.returncode, p.stdout.decode(), p.stderr.decode()


CLI_CASES = [
    (['php', 4, 3], 'xor', [2]), (['php', 3, 2], 'or', [3]), (['op', 3], 'maj', [3]), (['php', 3, 2], 'one', [2]),
    (['php', 3, 2], 'eq', [2]), (['op', 3], 'neq', [3]), (['php', 3, 2], 'atleast', [3, 2]), (['php', 3, 2], 'atmost', [3, 1]),
    (['op', 3], 'exact', [3, 1]), (['php', 3, 2], 'anybut', [2, 1]), (['php', 3, 2], 'ite', []), (['php', 3, 2], 'lift', [2]),
    (['op', 3], 'flip', []), (['php', 3, 2], 'xorcomp', ['shift', 6, 4, 1, 2]), (['php', 3, 2], 'majcomp', ['complete', 6, 3]),
]


def run_cli(ctx, quick):
    cases = CLI_CASES[::2] if quick else CLI_CASES
    reqs = []
    meta = []
    for fam, name, targs in cases:
        rc0, out0, err0 = cli(['-q'] + fam)
        rc1, out1, err1 = cli(['-q'] + fam + ['-T', name] + targs)
        descr = dict(argv=['cnfgen', '-q'] + [str(x) for x in fam] + ['-T', name] + [str(x) for x in targs])
        if rc0 != 0 or rc1 != 0:
            ctx.count('cli', str(descr), True, sample=descr)
            ctx.violation('counterexample', 'cnfgen exits with %d/%d on a valid command line' % (rc0, rc1),
                          dict(input=descr, stderr=(err0 + err1)[-500:]), True, site='cli-' + name, cls='exit-code')
            continue
        N, F = parse_dimacs(out0)
        n1, F1 = parse_dimacs(out1)
        if name in ('xorcomp', 'majcomp'):
            # the graph named on the command line, built with the library (graph constructions are C15's business)
            from cnfgen.graphs import bipartite_shift
            if targs[0] == 'shift':
                L, R, pat = targs[1], targs[2], targs[3:]
                B = bipartite_shift(L, R, sorted(pat))
                adj = [list(B.right_neighbors(u)) for u in range(1, L + 1)]
            else:
                L, R = targs[1], targs[2]
                adj = [list(range(1, R + 1)) for _ in range(L)]
            params = [R, adj]
        else:
            params = list(targs)
        reqs.append(model_request(name, N, F, params))
        meta.append((descr, name, params, N, F, ('ok', n1, F1)))
    for (descr, name, params, N, F, got), rep in zip(meta, ctx.model.batch(reqs)):
        ctx.count('cli', str(descr), True, sample=descr)
        ctx.tally('cli transformation', name)
        judge(ctx, 'cli', descr, name, params, N, F, got, rep)


# --------------------------------------------------------------------------
# thresholds / shapes / history streams (notes/LARGE_STREAMS.md)
# --------------------------------------------------------------------------
LABEL_SHAPES = [
    ('two-variables-same-label', [('var', 'p'), ('var', 'p')]),
    ('label-equals-default-of-another', [('anon', 2), ('var', 'x1')]),
    ('default-equals-earlier-label', [('var', 'x2'), ('anon', 1)]),
    ('two-blocks-same-label', [('block', (2,), 'z_{}'), ('block', (2,), 'z_{}')]),
    ('label-without-placeholder', [('var', 'p'), ('anon', 1), ('var', 'p'), ('block', (2, 2), 'p')]),
    ('labels-with-braces', [('var', '{}'), ('var', '{0}'), ('var', '}{'), ('var', 'x_{1}')]),
    ('empty-label', [('var', ''), ('var', '')]),
    ('block-default-label', [('block', (2,), None), ('block', (2,), None)]),
    ('label-of-substituted-variable', [('var', '{p}^1'), ('var', 'p'), ('var', '{p}^2')]),
    ('no-label', [('var', None), ('anon', 1), ('var', None)]),
]


def build_spec(CNF, spec, F):
    """a formula whose variables are created by the given sequence of public calls"""
    G = CNF()
    for sp in spec:
        if sp[0] == 'anon':
            G.update_variable_number(G.number_of_variables() + sp[1])
        elif sp[0] == 'var':
            G.new_variable(sp[1]) if sp[1] is not None else G.new_variable()
        else:
            G.new_block(*sp[1], label=sp[2]) if sp[2] is not None else G.new_block(*sp[1])
    for c in F:
        G.add_clause(c)
    return G


def frozen(r):
    """thunk replaying an outcome computed earlier (the source object is edited afterwards)"""
    def thunk():
        if r[0] == 'ok':
            return r[1]
        raise r[1]
    return thunk


def run_now(thunk):
    try:
        return ('ok', thunk())
    except Exception as e:  # noqa
        return ('exc', e)


NEGOP = {'==': '!=', '<': '>=', '>': '<=', '<=': '>', '>=': '<', '!=': '=='}


def linear_size(n, op, C):
    """number of clauses of add_linear on n literals (used only to keep the corpus within its budget)"""
    from math import comb

    def geq(c):
        return 0 if c <= 0 else (1 if c > n else comb(n, n - c + 1))
    if op == '>=':
        return geq(C)
    if op == '>':
        return geq(C + 1)
    if op == '<=':
        return geq(n - C)
    if op == '<':
        return geq(n - C + 1)
    if op == '==':
        return geq(C) + geq(n - C)
    return 0 if (C < 0 or C > n) else comb(n, C)


def gadget_cost(name, params, l):
    """number of clauses that replace literal l (budget estimate, not an oracle)"""
    pos = l > 0
    k = params[0] if params else None
    if name == 'flip':
        return 1
    if name == 'ite':
        return 2
    if name == 'lift':
        return k
    if name in ('xorcomp', 'majcomp'):
        d = len(params[1][abs(l) - 1])
        if name == 'xorcomp':
            return 2 ** (d - 1) if d else (1 if pos else 0)
        return linear_size(d, '>=', (d + 1) // 2) if pos else linear_size(d, '<=', (d - 1) // 2)
    if name == 'xor':
        return 2 ** (k - 1)
    if name == 'or':
        return 1 if pos else k
    if name == 'maj':
        return linear_size(k, '>=', (k + 1) // 2) if pos else linear_size(k, '<=', (k - 1) // 2)
    if name == 'one':
        return linear_size(k, '==', 1) if pos else k
    if name in ('eq', 'neq', 'eq_invert'):
        return k if pos == (name == 'eq') else 2
    op, C = {'atleast': ('>=', None), 'atmost': ('<=', None), 'exact': ('==', None), 'anybut': ('!=', None)}.get(name, (None, None))
    if op is None:
        op, C = params[1], params[2]
    else:
        C = params[1]
    return linear_size(k, op if pos else NEGOP[op], C)


def trim_formula(F, cost, cap):
    """keep the output below `cap` clauses: a literal whose gadget would push the output over what is left of
    the budget is replaced by its negation when that is cheaper, else dropped"""
    left = cap
    out = []
    for c in F:
        prod = 1
        new = []
        for l in c:
            if prod * cost(l) <= left:
                new.append(l)
                prod *= cost(l)
            elif prod * cost(-l) <= left:
                new.append(-l)
                prod *= cost(-l)
        out.append(new)
        left = max(1, left - prod)
    return out


def wide_clause(rng, w, nv, opposite=True):
    c = [rng.choice([1, -1]) * rng.randint(1, nv) for _ in range(w)]
    c[3] = c[0]                       # repeated literal
    c[w - 2] = c[w // 2]
    if opposite:
        c[5] = -c[1]                  # opposite pair
        c[w - 1] = -c[2]
    else:
        # no opposite pair: one sign per variable
        sign = {}
        c = [sign.setdefault(abs(l), 1 if l > 0 else -1) * abs(l) for l in c]
    return c


def low_degree_graph(rng, L, R, maxd=2):
    return [sorted(rng.sample(range(1, R + 1), rng.choice([0, 1, 1, 1, 2][:maxd + 3]) if R >= 2 else 0)) for _ in range(L)]


CHEAP_K1 = [('flip', []), ('or', [1]), ('xor', [1]), ('maj', [1]), ('eq', [1]), ('neq', [1]), ('eq_invert', [1]), ('one', [1]),
            ('atleast', [1, 1]), ('atmost', [1, 0]), ('exact', [1, 1]), ('anybut', [1, 0]), ('linear', [1, '<', 1]),
            ('linear', [1, '>', 0]), ('lift', [1]), ('or', [2]), ('eq', [2]), ('one', [2]), ('atleast', [2, 1]), ('atleast', [2, 2])]
TWO_PER_LITERAL = [('ite', []), ('lift', [2]), ('xor', [2]), ('neq', [2]), ('maj', [2])]


def large_cases(ctx, quick, CNF, S):
    """the corpus of threshold / shape cases: list of case tuples for run_cases"""
    rng = ctx.rng
    planned = []     # (stream, tag, name, params, N, F, cap, builder)

    def plain(N, F):
        return lambda: build_formula(CNF, N, F, 'anonymous')

    # ---- wide clauses ----
    widths = [17, 18, 33, 40] if quick else [17, 18, 20, 24, 31, 32, 33, 40]
    for wi, w in enumerate(widths):
        for variant in range(3 if quick else 6):
            nv = [12, w + 3, 5, w][(wi + variant) % 4]
            opposite = variant % 3 != 1
            c = wide_clause(rng, w, nv, opposite)
            # short clauses that hold when every literal of the wide clause is false (so that the wide clause is
            # not subsumed): one first occurrence, one negated first occurrence of another variable
            firsts = []
            for l in c:
                if abs(l) not in [abs(x) for x in firsts]:
                    firsts.append(l)
            if len(firsts) >= 3 and variant % 3 == 0:
                F = [[firsts[0], -firsts[-1]], c, [-firsts[1], firsts[2], firsts[2]]]
            else:
                F = [c]
            tag = 'width %d %s' % (w, 'with opposite pair' if opposite else 'no opposite pair')
            trs = list(CHEAP_K1)
            R = nv + 2
            trs.append(('xorcomp', [R, low_degree_graph(rng, nv, R, 1)]))
            trs.append(('majcomp', [R, low_degree_graph(rng, nv, R, 2)]))
            if quick:
                trs = [t for i, t in enumerate(trs) if t[0] in ('flip', 'xorcomp', 'majcomp') or (i + wi + variant) % 2 == 0]
            for name, params in trs:
                planned.append(('thresholds-wide-clause', tag, name, params, nv, F, 3000 if quick else 20000, None))
    # 2^17 clauses: ite / lift 2 (quick: one each), more in the thorough tier
    big = [('ite', [], 17), ('lift', [2], 17)] if quick else \
        [(n, p, w) for (n, p) in TWO_PER_LITERAL for w in (17, 18)] + [('eq_invert', [1], 17), ('or', [2], 17)]
    for name, params, w in big:
        nv = 12
        c = wide_clause(rng, w, nv, True)
        if name in ('eq_invert', 'or'):
            c = [abs(l) if name == 'eq_invert' else -abs(l) for l in c]      # the expensive polarity
        planned.append(('thresholds-wide-clause', 'width %d, 2^%d clauses' % (w, w), name, params, nv, [[-c[0]], c], 300000, None))

    # ---- arities / left degrees ----
    Fa = [[1], [-2], [2, -3], [3, 3], [1, -1]]
    for k in (15, 16, 17):
        trs = [('maj', [k]), ('one', [k]), ('lift', [k]), ('eq', [k]), ('neq', [k]), ('eq_invert', [k]), ('or', [k]),
               ('atleast', [k, 1]), ('atleast', [k, k]), ('atleast', [k, k - 1]), ('atmost', [k, 0]), ('atmost', [k, k - 1]),
               ('atmost', [k, 1]), ('exact', [k, 0]), ('exact', [k, k]), ('exact', [k, 1]), ('anybut', [k, 0]), ('anybut', [k, 1]),
               ('anybut', [k, k]), ('linear', [k, '<', 1]), ('linear', [k, '>', k - 1]), ('linear', [k, '<', k]),
               ('linear', [k, '>', 0]), ('linear', [k, '==', k - 1]), ('linear', [k, '!=', k - 1]), ('linear', [k, '<=', k]),
               ('linear', [k, '>=', 0])]
        if quick:
            trs = [t for i, t in enumerate(trs) if (i + k) % 3 != 0 or t[0] in ('maj', 'one', 'lift')]
        for name, params in trs:
            planned.append(('thresholds-arity', 'arity %d' % k, name, params, 3, Fa, 30000 if quick else 120000, None))
        for fn in ('xorcomp', 'majcomp'):
            R = k + 3
            adj = [sorted(rng.sample(range(1, R + 1), k)), [1, R], []]
            planned.append(('thresholds-arity', 'left degree %d' % k, fn, [R, adj], 3, [[1] if k % 2 else [-1], [2, -3]], 70000 if k == 17 or not quick else 20000, None))
    # xor of arity 17 / xor compression with left degree 17 on one short clause: 2^16 clauses
    xs = [('xor', [17], 2, [[-2]])]     # (left degree 17 is in the loop above)
    if not quick:
        xs += [('xorcomp', [20, [sorted(rng.sample(range(1, 21), 17)), [3]]], 2, [[1]]),
               ('xor', [17], 1, [[1]]), ('xor', [16], 2, [[1, -2]][:1] + [[2]]), ('xor', [18], 1, [[-1]]), ('xor', [15], 1, [[1]]),
               ('xorcomp', [20, [sorted(rng.sample(range(1, 21), 17)), [3]]], 2, [[-1]]),
               ('xorcomp', [18, [list(range(1, 19))]], 1, [[1]]), ('majcomp', [18, [list(range(1, 19))]], 1, [[-1]])]
    for name, params, N, F in xs:
        planned.append(('thresholds-arity', 'arity or left degree %d, one short clause' % (params[0] if name == 'xor' else len(params[1][0])),
                        name, params, N, F, 300000, None))
    # large arities: only gadgets that stay small both in cnfgen and in the model (Comb.v's combs needs 2^k steps
    # when k of k elements are chosen, so '>= 1' on k literals is out of reach of the model for large k)
    ks = [64, 65, 129, 256, 257, 258, 1000] if quick else [63, 64, 65, 127, 128, 129, 255, 256, 257, 258, 300, 1000, 1025]
    for k in ks:
        trs = [('or', [k]), ('eq', [k]), ('neq', [k]), ('eq_invert', [k]), ('exact', [k, 0]), ('anybut', [k, 0]),
               ('atleast', [k, 0]), ('atleast', [k, k + 1]), ('atmost', [k, -1]), ('atmost', [k, k]), ('exact', [k, -1]),
               ('exact', [k, k + 1]), ('anybut', [k, -1]), ('anybut', [k, k + 1]), ('linear', [k, '<', 0]), ('linear', [k, '>', k])]
        if quick:
            trs = (trs[:6] if k < 1000 else trs[:2]) + [t for i, t in enumerate(trs[6:]) if (i + k) % 4 == 0]
        for name, params in trs:
            planned.append(('thresholds-arity', 'arity %d' % k, name, params, 3, [[1], [-2], [2, -3]], 0, None))

    # ---- many variables ----
    for ni, N in enumerate([257, 300, 1025] if quick else [255, 256, 257, 258, 300, 1000, 1025]):
        F = [[1], [-2], [N], [-(N - 1)], [N, -N], [N - 2, N - 2], [min(255, N), -(N - 3)], [-min(256, N), 254, min(256, N)]]
        if N >= 258:
            F += [[256], [-257], [257, 257], [255, -258], [258, -256, 257]]
        style = STYLES[ni % 3]
        trs = [t for t in transformations(rng, N, True, maxk=2) if 'comp' not in t[0]]
        if quick and N > 300:
            trs = [t for i, t in enumerate(trs) if i % 3 == 0 or t[0] in ('flip', 'ite')]
        for R in ((N + 3, 300) if N != 300 else (257, 1000)):
            trs.append(('xorcomp', [R, low_degree_graph(rng, N, R, 2)]))
            trs.append(('majcomp', [R, low_degree_graph(rng, N, R, 2)]))
        for name, params in trs:
            planned.append(('thresholds-many-variables', '%d variables (%s)' % (N, style), name, params, N, F, 0,
                            (lambda N=N, F=F, style=style: build_formula(CNF, N, F, style))))

    # ---- repeated / missing labels ----
    for tag, spec in LABEL_SHAPES:
        G0 = build_spec(CNF, spec, [])
        N = G0.number_of_variables()
        for rep in range(1 if quick else 3):
            F = [[rng.choice([1, -1]) * rng.randint(1, N) for _ in range(rng.randint(1, 3))] for _ in range(rng.randint(1, 4))]
            F.append([N])
            for name, params in transformations(rng, N, quick, maxk=2):
                planned.append(('shapes-labels', tag, name, params, N, F, 0, (lambda spec=spec, F=F: build_spec(CNF, spec, F))))

    # ---- size estimate, trimming, case tuples ----
    cases = []
    for idx, (stream, tag, name, params, N, F, cap, builder) in enumerate(planned):
        if cap:
            F = trim_formula(F, (lambda l, name=name, params=params: gadget_cost(name, params, l)), cap)
        G = (builder or plain(N, F))()
        assert G.number_of_variables() == N, (tag, G.number_of_variables(), N)
        ctx.tally(stream + ': shape', tag)
        ctx.tally(stream + ': transformation', name)
        ctx.tally(stream + ': largest clause width', max([len(c) for c in F] + [0]))
        descr = dict(transformation=name, params=params, numvar=N, clauses=F, shape=tag)
        site = None
        if stream == 'shapes-labels':
            descr['variables_created_by'] = [list(x) for x in dict(LABEL_SHAPES)[tag]]
            if tag == 'no-label':
                site = 'substitution-of-unlabelled-variable'
        cases.append((stream, descr, name, params, N, F, impl_thunk(S, G, name, params), (stream, idx), True, site))
    return cases


HISTORY_TRS = [('flip', []), ('ite', []), ('xor', [2]), ('or', [2]), ('maj', [3]), ('one', [2]), ('eq', [2]), ('neq', [2]),
               ('lift', [1]), ('lift', [2]), ('atleast', [2, 1]), ('exact', [3, 1]), ('anybut', [2, 1]), ('linear', [2, '<', 2]),
               ('or', [1]), ('xor', [1])]


def history_cases(ctx, quick, CNF, S):
    """one formula object edited through its public API and transformed again after every edit; the result of a
    transformation transformed again (chains).  The source object must not change."""
    rng = ctx.rng
    cases = []
    for hi in range(12 if quick else 120):
        G = CNF()
        steps = []
        if rng.random() < 0.5:
            n0 = rng.randint(0, 3)
            G.update_variable_number(n0)
            steps.append(['update_variable_number', n0])
        for ei in range(rng.randint(3, 6)):
            N0 = G.number_of_variables()
            edit = rng.choice(['clause-new-variables', 'clause-new-variables', 'clause-old', 'raise', 'new_variable', 'new_block',
                               'empty-clause', 'same-label'])
            if edit == 'clause-new-variables':
                c = [rng.choice([1, -1]) * (N0 + rng.randint(1, 4)) for _ in range(rng.randint(1, 2))]
                if N0 and rng.random() < 0.6:
                    c.append(rng.choice([1, -1]) * rng.randint(1, N0))
                G.add_clause(c)
                steps.append(['add_clause', c])
            elif edit == 'clause-old':
                c = [rng.choice([1, -1]) * rng.randint(1, N0) for _ in range(rng.randint(1, 3))] if N0 else []
                G.add_clause(c)
                steps.append(['add_clause', c])
            elif edit == 'raise':
                d = rng.randint(2, 5)
                G.update_variable_number(N0 + d)
                steps.append(['update_variable_number', N0 + d])
            elif edit == 'new_variable':
                G.new_variable('v%d' % ei)
                steps.append(['new_variable', 'v%d' % ei])
            elif edit == 'same-label':
                G.new_variable('p')
                steps.append(['new_variable', 'p'])
            elif edit == 'new_block':
                G.new_block(2, label='b_{}')
                steps.append(['new_block', 2, 'b_{}'])
            else:
                G.add_clause([])
                steps.append(['add_clause', []])
            ctx.tally('history: edit', edit)
            N, F = G.number_of_variables(), [list(c) for c in G]
            if max([len(c) for c in F] + [0]) > 3 or len(F) > 6:
                break
            labels = list(G.all_variable_labels())
            for ti in range(2):
                name, params = rng.choice(HISTORY_TRS)
                r = run_now(impl_thunk(S, G, name, params))
                descr = dict(transformation=name, params=params, numvar=N, clauses=F, history=[list(x) for x in steps])
                ctx.tally('history: transformation', name)
                if (G.number_of_variables(), [list(c) for c in G], list(G.all_variable_labels())) != (N, F, labels):
                    ctx.violation('counterexample', 'the transformation changed the formula it was given',
                                  dict(input=descr, after=[G.number_of_variables(), [list(c) for c in G]]), True,
                                  site=IMPL_NAME[name], cls='source-modified')
                cases.append(('history', descr, name, params, N, F, frozen(r), ('hist', hi, ei, ti), bool(F)))
                # chain: transform the result again
                if r[0] == 'ok' and ti == 0:
                    H = r[1]
                    N2, F2 = H.number_of_variables(), [list(c) for c in H]
                    if N2 <= 40 and len(F2) <= 60 and max([len(c) for c in F2] + [0]) <= 6:
                        name2, params2 = rng.choice(HISTORY_TRS[:2] + HISTORY_TRS[13:] + [('or', [2]), ('lift', [1])])
                        r2 = run_now(impl_thunk(S, H, name2, params2))
                        descr2 = dict(transformation=name2, params=params2, numvar=N2, clauses=F2,
                                      history=[list(x) for x in steps] + [[name] + list(params)])
                        ctx.tally('history: chained transformation', name + ' then ' + name2)
                        cases.append(('history', descr2, name2, params2, N2, F2, frozen(r2), ('chain', hi, ei), bool(F2)))
    return cases


def run(ctx):
    import_impl()
    from cnfgen.formula.cnf import CNF
    import cnfgen.transformations.substitutions as S
    import cnfgen
    quick = ctx.tier == 'quick'
    rng = ctx.rng

    # ---- stream 0: corpus of large / rare inputs, and edited formula objects ----
    run_cases(ctx, large_cases(ctx, quick, CNF, S))
    run_cases(ctx, history_cases(ctx, quick, CNF, S))

    # ---- stream 1: random small formulas x all transformations ----
    nform = 36 if quick else 260
    cases = []
    fixed = [(0, [], ['no-clause']), (0, [[]], ['empty-clause']), (3, [[1], [], [1]], ['empty-clause', 'unused-trailing-variable']),
             (2, [[1, -1], [2, 2]], ['opposite-literals', 'repeated-literal']), (1, [[1]], []), (1, [[-1]], [])]
    formulas = fixed + [random_cnf(rng) for _ in range(nform)]
    for idx, (N, F, tags) in enumerate(formulas):
        style = STYLES[idx % 3]
        ctx.tally('formula variables', N)
        ctx.tally('formula clauses', len(F))
        ctx.tally('variable-creation style', style)
        for t in tags or ['plain']:
            ctx.tally('formula feature', t)
        for c in F:
            ctx.tally('clause width', len(c))
        G = build_formula(CNF, N, F, style)
        trs = transformations(rng, N, quick)
        if quick and idx >= len(fixed):
            # thin: every formula sees flip/ite/compressions and a random half of the rest
            trs = [t for t in trs if t[0] in ('flip', 'ite', 'xorcomp', 'majcomp') or rng.random() < 0.5]
        for name, params in trs:
            # keep the cartesian products small: largest clause width x gadget size
            width = max([len(c) for c in F] + [0])
            k = params[0] if params and isinstance(params[0], int) else 1
            if name not in ('xorcomp', 'majcomp') and width >= 4 and k >= 4 and name in ('xor', 'linear', 'exact', 'atleast', 'atmost', 'anybut', 'maj', 'one'):
                Fx = [c[:3] for c in F]
                Gx = build_formula(CNF, N, Fx, style)
            else:
                Fx, Gx = F, G
            ctx.tally('transformation', name)
            if params and isinstance(params[0], int) and name not in ('xorcomp', 'majcomp'):
                ctx.tally('arity', params[0])
            descr = dict(transformation=name, params=params, numvar=N, clauses=Fx, style=style)
            cases.append(('random-' + ('compression' if 'comp' in name else 'lifting' if name == 'lift' else 'substitution'),
                          descr, name, params, N, Fx, impl_thunk(S, Gx, name, params),
                          (idx, name, str(params)), any(len(c) > 0 for c in Fx)))
        for name, params in invalid_transformations(rng, N):
            ctx.tally('invalid argument', name + (' k=%s' % params[0] if 'comp' not in name else ' graph/function'))
            descr = dict(transformation=name, params=params, numvar=N, clauses=F, style=style)
            cases.append(('invalid-arguments', descr, name, params, N, F, impl_thunk(S, G, name, params),
                          (idx, name, str(params)), True))
    run_cases(ctx, cases)

    # ---- stream 2: medium formulas ----
    medium = [('PigeonholePrinciple', (6, 5), 'xor', [3]), ('PigeonholePrinciple', (5, 4), 'maj', [3]),
              ('OrderingPrinciple', (5,), 'lift', [2]), ('PigeonholePrinciple', (5, 4), 'exact', [4, 2]),
              ('OrderingPrinciple', (4,), 'ite', []), ('PigeonholePrinciple', (4, 3), 'flip', []),
              ('PigeonholePrinciple', (4, 3), 'neq', [3]), ('OrderingPrinciple', (4,), 'one', [3])]
    if not quick:
        medium += [('PigeonholePrinciple', (7, 6), 'xor', [2]), ('OrderingPrinciple', (6,), 'or', [3]),
                   ('PigeonholePrinciple', (6, 5), 'atleast', [3, 2]), ('OrderingPrinciple', (5,), 'eq', [3]),
                   ('PigeonholePrinciple', (6, 4), 'lift', [3]), ('OrderingPrinciple', (5,), 'anybut', [3, 1])]
    cases = []
    for fam, fargs, name, params in medium:
        G = getattr(cnfgen, fam)(*fargs)
        N, F = G.number_of_variables(), [list(c) for c in G]
        ctx.tally('medium formula', '%s%r' % (fam, fargs))
        descr = dict(formula='%s%r' % (fam, fargs), transformation=name, params=params)
        cases.append(('medium', descr, name, params, N, F, impl_thunk(S, G, name, params), (fam, fargs, name, str(params)), True))
    # compression of a medium formula by a random graph
    for fn in ('xorcomp', 'majcomp'):
        G = cnfgen.PigeonholePrinciple(4, 3)
        N, F = G.number_of_variables(), [list(c) for c in G]
        R = 8
        adj = [sorted(rng.sample(range(1, R + 1), 3)) for _ in range(N)]
        descr = dict(formula='PigeonholePrinciple(4, 3)', transformation=fn, params=[R, adj])
        cases.append(('medium', descr, fn, [R, adj], N, F, impl_thunk(S, G, fn, [R, adj]), ('php43', fn, str(adj)), True))
    run_cases(ctx, cases)

    # ---- stream 3: command line ----
    run_cli(ctx, quick)
    # a site for which a failing input was found needs no extra 'model differs' line
    bad = {v['site'] for v in ctx.violations if v['kind'] == 'counterexample'}
    ctx.violations = [v for v in ctx.violations if not (v['kind'] == 'correspondence' and v['site'] in bad)]
    ctx.exhaustive = False


def replay(ctx, rp):
    """re-run one recorded case"""
    import_impl()
    from cnfgen.formula.cnf import CNF
    import cnfgen.transformations.substitutions as S
    d = rp.get('input', {})
    if 'clauses' not in d:
        return run(ctx)
    N, F, name, params = d['numvar'], d['clauses'], d['transformation'], d['params']
    if 'variables_created_by' in d:
        G = build_spec(CNF, [tuple(tuple(y) if isinstance(y, list) else y for y in x) for x in d['variables_created_by']], F)
    elif 'history' in d:
        G = CNF()
        if d.get('initial_variables'):
            G.update_variable_number(d['initial_variables'])
        for st in d['history']:
            if st[0] == 'add_clause':
                G.add_clause(st[1])
            elif st[0] == 'update_variable_number':
                G.update_variable_number(st[1])
            elif st[0] == 'new_variable':
                G.new_variable(st[1])
            elif st[0] == 'new_block':
                G.new_block(st[1], label=st[2])
            else:       # a transformation (chains)
                G = impl_thunk(S, G, st[0], st[1:])()
    else:
        G = build_formula(CNF, N, F, d.get('style', 'anonymous'))
    site = 'substitution-of-unlabelled-variable' if d.get('shape') == 'no-label' else None
    run_cases(ctx, [('replay', d, name, params, N, F, impl_thunk(S, G, name, params), 'replay', True, site)])
