"""C18 (and C17) -- the GRAPH ARGUMENT of the command line: `run_graphspec(ctx)`.

Model: coq/GraphSpec.v (parse_graph_argument, the argument validation of every obtain_*/modify_* of
graph_build.py, format autodetection, float()/int()).  Theorems: coq/Prop_C18_graphspec.v.

Streams (all in-process against the code in lib.REPO, the model through the driver):
  gs-tables    the tables constructions / options / formats of graph_args.py against the model's
  gs-number    float(tok), the two comparisons `0 <= float(tok)`, `float(tok) <= 1`, and int(tok)
               (all strings up to a length over a small alphabet + curated + rounding thresholds)
  gs-ext       os.path.splitext(name)[-1][1:]
  gs-parse     parse_graph_argument(type, tokens): outcome class, error statement, every key of the result
               in insertion order (exhaustive short token lists over a vocabulary + structured + junk)
  gs-validate  make_graph_from_spec(type, tokens) with recording wrappers around the generators, readGraph
               (replaced by a stub graph of known size) and the `save` format resolution: outcome class, error
               statement, the generator call with its converted arguments, the modifiers applied, the save format
  gs-records   obtain_graph on dictionaries the parser cannot produce (args None / missing, foreign construction, options of
               another graph type...): the exception CLASS must be the one the model's exception monad predicts
               (a difference is a correspondence break only: these inputs are not reachable from a command line)
  gs-huge      sizes of 2^63 and more: memory is outside the model, the implementation must still end in a clean error
               (as found: OverflowError traceback = finding D43; with fixes/D43.diff: ValueError)
An exception other than ValueError / OSError from the real code is a failing input of the property: the token
list is rendered as a cnfgen command line and confirmed in a child process.  Any other difference is a
correspondence break (the command line is still run in a child process to look for a traceback)."""
import itertools
import math
import os
import random as _random
import re
import shutil
import sys
import tempfile
from fractions import Fraction

import clirun
import lib
from lib import cmd, Sym

TYPES = ['simple', 'bipartite', 'dag', 'digraph']
CLI_PREFIX = {'simple': ['kcolor', '2'], 'bipartite': ['php'], 'dag': ['peb'], 'digraph': ['peb']}
CONS = {
    'simple': ['gnp', 'gnm', 'gnd', 'grid', 'torus', 'complete', 'empty'],
    'dag': ['path', 'tree', 'pyramid'], 'digraph': ['path', 'tree', 'pyramid'],
    'bipartite': ['glrp', 'glrm', 'glrd', 'regular', 'shift', 'complete', 'empty'],
}
OPTS = {'dag': ['save'], 'digraph': ['save'], 'simple': ['plantclique', 'addedges', 'splitedges', 'save'],
        'bipartite': ['plantbiclique', 'addedges', 'save']}
FMTS = {'simple': ['kthlist', 'gml', 'dot', 'dimacs'], 'dag': ['kthlist', 'gml', 'dot', 'dimacs'],
        'digraph': ['kthlist', 'gml', 'dot', 'dimacs'], 'bipartite': ['kthlist', 'gml', 'dot', 'matrix']}
FILE_ORDER = {'simple': (4, 0), 'dag': (4, 0), 'digraph': (4, 0), 'bipartite': (3, 2)}   # sizes of the stub graph readGraph returns

PARSE_MSG = [
    ('Empty graph specification', 'PEEmpty'), ('Filename expected after graph format', 'PEFilenameExpected'),
    ('Graph format `', 'PEFormatElsewhere'), ('Construction `', 'PEConstructionElsewhere'),
    ('No need for another construction', 'PENoNeed'), ('Optional arguments as `', 'PEOptionalBefore'),
    ('Multiple occurrences of `', 'PEMultiple'), ('Missing information about where to save', 'PESaveMissing'),
    ('Missing file name where to save', 'PESaveMissingFile'),
]
VALID_MSG = [
    ("'gnd' expects arguments N d with N > d", 'VGndArgs'), ("'gnd' expects arguments N d with even", 'VGndParity'),
    ("'gnp' expects", 'VGnpArgs'), ("'gnm' expects", 'VGnmArgs'),
    ("'complete' expects argument N with N>0,", 'VCompleteSimple'), ("'complete' expects argument N with N>0", 'VEmptySimple'),
    ('Dimensions d1 x ... x dn of a grid', 'VGrid'), ('Dimensions d1 x ... x dn of a torus', 'VTorus'),
    ("'plantclique' expects", 'VPlantCliqueArgs'), ('Planted clique cannot be larger', 'VPlantCliqueLarge'),
    ("'addedges' expects", 'VAddEdges'), ("'splitedges' expects", 'VSplitEdges'),
    ("'glrp' expects", 'VGlrp'), ("'glrm' expects", 'VGlrm'), ("'glrd' expects", 'VGlrd'), ("'regular' expects", 'VRegular'),
    ("'shift' requires two", 'VShiftFew'), ("'shift' expect args", 'VShiftArgs'),
    ("'complete' expects argument L R", 'VCompleteBip'), ("'complete' expects argument <L> <R>", 'VEmptyBip'),
    ("'plantbiclique' expects", 'VPlantBicliqueArgs'), ('Planted clique does not fit', 'VPlantBicliqueFit'),
    ("'tree' expects", 'VTree'), ("'pyramid' expects", 'VPyramid'), ("'path' expects", 'VPath'),
    ('Cannot guess a file format for', 'VSaveExt'), ('we only support these formats', 'VSaveFormat'),
    ('not enough values to unpack', 'VRaw'), ('too many values to unpack', 'VRaw'),
]
# ValueError raised inside a callee on the random graph: outside argument validation (stage it belongs to)
#  + `torus` with a dimension of size 1: networkx.grid_graph(periodic=True) gives it a self-loop, Graph.from_networkx refuses it)
LATE_MSG = [('missing edges to sample', 'addedges'), ('The graph does not have', 'splitedges'), ('u,v must be distinct, between 1 and', 'torus1')]
STAGE = {'VPlantCliqueArgs': 1, 'VPlantCliqueLarge': 1, 'VPlantBicliqueArgs': 1, 'VPlantBicliqueFit': 1, 'VAddEdges': 2,
         'VSplitEdges': 3, 'VSaveExt': 4, 'VSaveFormat': 4, 'VRaw': 4}
LATE_STAGE = {'addedges': 2, 'splitedges': 3, 'torus1': 0}


def parse_tag(msg):
    for pre, tag in PARSE_MSG:
        if msg.startswith(pre):
            return tag
    if re.match(r"`[\s\S]*` is not a valid option for '", msg):
        return 'PEInvalidOption'
    return 'unknown:' + msg[:40]


def valid_tag(msg):
    if 'there no' in msg and 'file name extension to guess' in msg:
        return 'VFileNoExt'
    if 'do not corresponds to any of the allowed' in msg:
        return 'VFileBadExt'
    for pre, tag in VALID_MSG:
        if msg.startswith(pre):
            return tag
    for part, stage in LATE_MSG:
        if part in msg:
            return 'late:' + stage
    return 'unknown:' + msg[:40]


# --------------------------------------------------------------------------
# generators of inputs
# --------------------------------------------------------------------------
NUM_POOL = ['-1', '0', '1', '2', '3', '4', '5', '6', '7', '0.5', '.5', '1.', '1.0', '1e0', '1e2', '1E1', '2e-1', 'inf', '-inf', 'nan',
            'Infinity', '1_0', '1_', '_1', '', 'x', '-0', '+2', ' 2 ', '1.5', '2.0', '-0.0', '1e-400', '-1e-400', '1e400', '0x10', '1e',
            '1.1', '-0.1', '1.0000000000000001', '00', '+', '-', '.', '\t3\n', '3\xa0', '\x1c3', '1__0', '1e1_0', '9', '10', '12']
JUNK = ['x', '', '-', '--', '-k', '--save', 'foo.bar', 'simple', 'dag', 'digraph', 'bipartite', 'autodetect', 'None', 'args', 'graphtype',
        'construction', 'filename', 'fileformat', 'SAVE', 'Gnp', ' gnp', 'gnp ', 'sav', 'plantclique1']
FILES = ['g.kthlist', 'g.gml', 'g.dot', 'g.dimacs', 'g.matrix', 'g', 'g.', '.gml', '..gml', 'a.b.gml', 'g.GML', 'g.txt', 'd.x/g', 'd.x/g.gml',
         'd.x/.gml', 'g.gml/', 'kthlist.', 'g .gml', 'g.gml ', 'g.kth list', 'g.cnf', 'x.matrix.kthlist', 'save.gml', 'gnp.gml']


def exact_decimal(fr):
    """finite decimal expansion of a dyadic fraction"""
    num, den = fr.numerator, fr.denominator
    k = den.bit_length() - 1
    assert den == 1 << k
    s = str(abs(num) * 5 ** k).rjust(k + 1, '0')
    txt = s[:-k] + '.' + s[-k:] if k else s
    return ('-' if num < 0 else '') + txt


def threshold_tokens():
    out = []
    one_up = Fraction(1) + Fraction(1, 2 ** 53)
    t = exact_decimal(one_up)
    out += [t, t + '0', t + '1', t[:-1] + '4', t[:-1] + '6', t[:-2], '1.00000000000000011102230246251565', '1.0000000000000002',
            '0.99999999999999999999', '100e-2', '1000000e-6', '0.0000001e7', '10e-1', '11e-1', '1' + '0' * 30 + 'e-30', '1' + '0' * 29 + '1e-30',
            '1e-99999999999999999999', '1e99999999999999999999', '0e99999999999999999999', '-0e5', '0.' + '0' * 400 + '1', '1' + '0' * 400,
            '-1' + '0' * 400, '1' * 4300, '1' * 4301, '-' + '1' * 4301, '0' * 4301 + '1', '1_' * 2150 + '1']
    tiny = Fraction(1, 2 ** 1075)
    d = exact_decimal(tiny)      # 0.000...
    out += ['-' + d, '-' + d + '1', '-' + d[:-1] + '4', '-' + d[:-1] + '6', '-1e-323', '-1e-324', '-2e-324', '-3e-324', '-2.4703282292062327e-324',
            '-2.4703282292062328e-324', '-2.47032822920623272e-324', '-4.9e-324', '-1e-330', '-1e-1000', '-247032822920623272e-341',
            '-0.' + '0' * 330 + '1', '-24703282292062327208751865e-349', d, '-' + d.replace('0.', '.')]
    return out


def number_tokens(rng, quick):
    alpha = ['0', '1', '.', 'e', '-', '+', '_', ' ', 'i', 'n', 'f', 'a', 'E', '5']
    toks = set(NUM_POOL) | set(threshold_tokens())
    maxlen = 3 if quick else 4
    for ln in range(0, maxlen + 1):
        for t in itertools.product(alpha, repeat=ln):
            toks.add(''.join(t))
    # random longer, number-like
    for _ in range(6000 if quick else 120000):
        ln = rng.randint(4, 9)
        toks.add(''.join(rng.choice('0011223459..ee-+_  infaEN') for _ in range(ln)))
    for w in ('inf', 'infinity', 'nan'):
        for _ in range(20):
            s = ''.join(rng.choice([c.upper(), c]) for c in w)
            toks.add(rng.choice(['', '+', '-', ' ', '--']) + s + rng.choice(['', ' ', 'x', '_', '0']))
    for c in range(256):
        toks.add(chr(c) + '1')
        toks.add('1' + chr(c))
        toks.add('1' + chr(c) + '1')
    for _ in range(200 if quick else 3000):     # decimals around 1 and 0 with exponents
        m = rng.choice([1, 9, 10, 99, 100, 101, rng.randint(0, 10 ** rng.randint(1, 25))])
        e = rng.choice([0, -1, -2, 1, -rng.randint(0, 30), rng.randint(-400, 400)])
        toks.add('%s%de%d' % (rng.choice(['', '-', '+']), m, e))
        s = str(m)
        k = rng.randint(0, len(s))
        toks.add(rng.choice(['', '-']) + s[:k] + '.' + s[k:])
    return sorted(toks)


def gen_option_part(rng, gt, tame=False):
    """tokens of the option part"""
    out = []
    names = list(OPTS[gt])
    k = rng.choice([0, 1, 1, 2, 2, 3, 4])
    seq = [rng.choice(names) for _ in range(k)] if rng.random() < 0.25 else rng.sample(names, min(k, len(names)))
    if not tame and rng.random() < 0.15:
        seq.insert(rng.randrange(len(seq) + 1), rng.choice(['plantclique', 'plantbiclique', 'splitedges', 'addedges', 'save'] + JUNK))
    for o in seq:
        out.append(o)
        if o == 'save':
            r = rng.random()
            if r < 0.15:
                pass
            elif r < 0.55:
                out.append(rng.choice(FILES))
            elif r < 0.85:
                out += [rng.choice(FMTS[gt]), rng.choice(FILES)]
            elif r < 0.92:
                out.append(rng.choice(FMTS[gt]))
            else:
                out += [rng.choice(['matrix', 'dimacs', 'autodetect', 'kthlist']), rng.choice(FILES)]
        else:
            n = 2 if o == 'plantbiclique' else 1
            n = rng.choice([n, n, n, n, 0, n + 1, n - 1])
            pool = ['0', '1', '2', '3', '4', '5', '6', '7'] if (tame or rng.random() < 0.7) else NUM_POOL
            out += [rng.choice(pool) for _ in range(max(0, n))]
    return out


def arity(gt, c):
    return {'gnp': 2, 'gnm': 2, 'gnd': 2, 'grid': 2, 'torus': 2, 'complete': 1 if gt == 'simple' else 2, 'empty': 1 if gt == 'simple' else 2,
            'glrp': 3, 'glrm': 3, 'glrd': 3, 'regular': 3, 'shift': 3, 'path': 1, 'tree': 1, 'pyramid': 1}[c]


def gen_head(rng, gt, tame=False):
    r = rng.random()
    if r < 0.6:
        c = rng.choice(CONS[gt])
        n = arity(gt, c)
        n = rng.choice([n] * 6 + [n - 1, n + 1, 0, n + 2])
        small = ['0', '1', '2', '3', '4', '5', '6']
        args = []
        for i in range(max(0, n)):
            if c in ('gnp', 'glrp') and i == (1 if c == 'gnp' else 2) and rng.random() < 0.8:
                args.append(rng.choice(['0', '1', '0.5', '.3', '1.0', '1.1', '-0.1', '1e-1', 'inf', 'nan', '-0.0', '-1e-400', '1.0000000000000001']))
            elif tame or rng.random() < 0.8:
                args.append(rng.choice(small))
            else:
                args.append(rng.choice(NUM_POOL))
        return [c] + args
    if r < 0.75:
        return [rng.choice(FILES)]
    if r < 0.87:
        return [rng.choice(FMTS[gt]), rng.choice(FILES + ['save', 'gnp'])]
    if r < 0.9:
        return [rng.choice(FMTS[gt])]
    if r < 0.94:
        return [rng.choice(['matrix', 'dimacs', 'gnp', 'glrp', 'tree', 'regular', 'path', 'torus'])] + [rng.choice(NUM_POOL) for _ in range(rng.randint(0, 2))]
    return [rng.choice(JUNK + NUM_POOL)]


def parse_cases(rng, quick):
    cases = []
    for gt in TYPES:
        vocab = [CONS[gt][0], CONS[gt][-1], 'save', OPTS[gt][0], 'addedges', 'kthlist', 'matrix', 'g.gml', 'g', '1', '0.5', 'x', '', '-1', '-x', 'dag', 'glrp', 'tree']
        cases.append((gt, []))
        for ln in (1, 2):
            for t in itertools.product(vocab, repeat=ln):
                cases.append((gt, list(t)))
        l3 = list(itertools.product(vocab, repeat=3))
        for t in (rng.sample(l3, 500) if quick else l3):
            cases.append((gt, list(t)))
        for t in rng.sample(list(itertools.product(vocab, repeat=4)), 300 if quick else 6000):
            cases.append((gt, list(t)))
        # every construction with every option, in every order
        for c in CONS[gt]:
            base = [c] + ['3'] * arity(gt, c)
            for k in range(len(OPTS[gt]) + 1):
                for perm in itertools.permutations(OPTS[gt], k):
                    toks = list(base)
                    for o in perm:
                        toks += [o] + (['g%d.kthlist' % k] if o == 'save' else ['1', '1'] if o == 'plantbiclique' else ['1'])
                    cases.append((gt, toks))
            for o in OPTS[gt]:                          # repeated option, option without numbers, with too many
                cases.append((gt, base + [o, '1', o, '1']))
                cases.append((gt, base + [o]))
                cases.append((gt, base + [o, '1', '2', '3']))
            for tail in ([], ['g.gml'], ['gml', 'g'], ['gml'], ['g.gml', 'h.gml'], ['gml', 'g', 'h'], ['matrix', 'g'], ['dimacs', 'g'], ['save'], ['save', 'save'],
                         ['save', 'x.gml', 'save', 'y.gml'], ['1'], ['addedges'], ['kthlist', 'save']):
                cases.append((gt, base + ['save'] + tail))
        for _ in range(2500 if quick else 60000):
            cases.append((gt, gen_head(rng, gt) + gen_option_part(rng, gt)))
    return cases


def small_enough(toks):
    """keep the graphs the real generators build small"""
    n = 0
    for t in toks:
        try:
            v = int(t)
        except ValueError:
            continue
        n += 1
        if abs(v) > 9:
            return False
    if toks and toks[0] in ('grid', 'torus') and n > 4:
        return False
    if toks and toks[0] in ('tree', 'pyramid') and any((py_int(t) or 0) > 6 for t in toks[1:2]):
        return False
    return True


def validate_cases(rng, quick):
    cases = []
    R = range(-1, 6)

    def add(gt, toks):
        cases.append((gt, [str(t) for t in toks]))
    # every construction: numbers inside, at and beyond the range
    for n in range(-1, 8):
        for d in range(-1, 8):
            add('simple', ['gnd', n, d])
            add('simple', ['gnm', n, d])
            add('simple', ['complete', n, d])
        for m in (n * (n - 1) // 2 - 1, n * (n - 1) // 2, n * (n - 1) // 2 + 1, 10 ** 30):
            add('simple', ['gnm', n, m])
        for p in ['0', '1', '0.5', '1.1', '-0.1', '-0.0', '-1e-400', '1.0000000000000001', '1.0000000000000003', 'inf', 'nan', '1e-1', '5e-1', '1_0e-1', ' .5 ']:
            add('simple', ['gnp', n, p])
            for t in (-1, 0, 1, 2, 3):
                add('simple', ['gnp', n, p, t])
        for c in ('complete', 'empty', 'grid', 'torus'):
            add('simple', [c, n])
        for c in ('tree', 'pyramid', 'path'):
            for gt in ('dag', 'digraph'):
                add(gt, [c, n])
                add(gt, [c, n, n])
                add(gt, [c])
    for dims in itertools.product(range(-1, 4), repeat=2):
        add('simple', ['grid'] + list(dims))
        add('simple', ['torus'] + list(dims))
    for dims in itertools.product(range(0, 3), repeat=3):
        add('simple', ['grid'] + list(dims))
        add('simple', ['torus'] + list(dims))
    add('simple', ['grid'])
    add('simple', ['torus'])
    for l, r in itertools.product(R, R):
        for x in list(range(-1, 8)) + [l * r - 1, l * r, l * r + 1]:
            for c in ('glrm', 'glrd', 'regular'):
                add('bipartite', [c, l, r, x])
        for p in ['0', '1', '.5', '1.1', '-0.1', 'nan']:
            add('bipartite', ['glrp', l, r, p])
        for c in ('complete', 'empty'):
            add('bipartite', [c, l, r])
            add('bipartite', [c, l])
            add('bipartite', [c, l, r, 1])
        add('bipartite', ['shift', l, r])
        for pat in ([0], [r], [r + 1], [-1], [1, 1], [1, 2], [2, 1], [0, r], [3, 1, 2], [1, 3, 1]):
            add('bipartite', ['shift', l, r] + pat)
    add('bipartite', ['shift'])
    add('bipartite', ['shift', 2])
    for a in itertools.product(range(1, 4), range(1, 4), range(-1, 5), range(-1, 5)):
        add('bipartite', ['shift'] + list(a))
    # options on deterministic and random graphs
    for n in range(1, 6):
        for k in range(-1, 13):
            for c in ('complete', 'empty'):
                for o in ('plantclique', 'addedges', 'splitedges'):
                    add('simple', [c, n, o, k])
            add('simple', ['gnp', n, '.5', 'plantclique', k])
            add('simple', ['gnp', n, '.5', 2, 'plantclique', k])
            add('simple', ['complete', n, 2, 'plantclique', k])
            add('simple', ['grid', n, 2, 'plantclique', k])
            add('simple', ['gnm', n, 0, 'plantclique', k, 'addedges', k])
    for l, r in itertools.product(range(1, 4), range(1, 4)):
        for a, b in itertools.product(range(-1, 5), repeat=2):
            add('bipartite', ['empty', l, r, 'plantbiclique', a, b])
            add('bipartite', ['glrd', l, r, 1, 'plantbiclique', a, b, 'addedges', a])
        for k in range(-1, 11):
            add('bipartite', ['complete', l, r, 'addedges', k])
            add('bipartite', ['empty', l, r, 'addedges', k])
    # save, file names, formats
    for gt in TYPES:
        base = {'simple': ['empty', '3'], 'bipartite': ['empty', '2', '2'], 'dag': ['path', '2'], 'digraph': ['tree', '1']}[gt]
        for f in FILES:
            add(gt, base + ['save', f])
            add(gt, [f])
            for fmt in FMTS[gt] + ['matrix', 'dimacs']:
                add(gt, base + ['save', fmt, f])
                add(gt, [fmt, f])
            for o in OPTS[gt]:
                if o != 'save':
                    for k in (0, 1, 3, 4, 5):
                        add(gt, [f, o, k] + ([k] if o == 'plantbiclique' else []))
        add(gt, base + ['save'])
        add(gt, base + ['save', FMTS[gt][0]])
    # random structured
    for gt in TYPES:
        n = 0
        while n < (3000 if quick else 60000):
            toks = gen_head(rng, gt, tame=rng.random() < 0.8) + gen_option_part(rng, gt, tame=rng.random() < 0.8)
            if small_enough(toks):
                cases.append((gt, toks))
                n += 1
    return [c for c in cases if small_enough(c[1])]


# --------------------------------------------------------------------------
# the real side, instrumented
# --------------------------------------------------------------------------
class Real:
    def __init__(self):
        lib.import_impl()
        import cnfgen
        import cnfgen.graphs as graphs
        import cnfgen.clitools.graph_args as ga
        import cnfgen.clitools.graph_build as gb
        import cnfgen.clitools.graph_fileinput as gf
        self.graphs, self.ga, self.gb, self.gf = graphs, ga, gb, gf
        self.rec = []
        self.saved = []

    def patch(self, obj, name, new):
        self.saved.append((obj, name, getattr(obj, name)))
        setattr(obj, name, new)

    def wrap(self, label, f):
        def w(*a, **k):
            self.rec.append((label, a, k))
            return f(*a, **k)
        return w

    def instrument(self):
        gb, ga, gf, graphs = self.gb, self.ga, self.gf, self.graphs
        for name in ('bipartite_random', 'bipartite_random_regular', 'bipartite_random_m_edges', 'bipartite_random_left_regular', 'bipartite_shift',
                     'CompleteBipartiteGraph', 'BipartiteGraph', 'dag_complete_binary_tree', 'dag_pyramid', 'dag_path', 'multipartite_tnp'):
            self.patch(gb, name, self.wrap(name, getattr(gb, name)))
        real_nx = gb.networkx
        outer = self

        class NX:
            def __getattr__(self, n):
                return getattr(real_nx, n)
        nx = NX()
        for name in ('gnp_random_graph', 'gnm_random_graph', 'random_regular_graph', 'grid_graph', 'complete_multipartite_graph'):
            setattr(nx, name, self.wrap('nx.' + name, getattr(real_nx, name)))
        self.patch(gb, 'networkx', nx)
        RealGraph = gb.Graph

        class GraphProxy:
            complete_graph = staticmethod(outer.wrap('Graph.complete_graph', RealGraph.complete_graph))
            empty_graph = staticmethod(outer.wrap('Graph.empty_graph', RealGraph.empty_graph))
            normalize = staticmethod(RealGraph.normalize)
            from_networkx = staticmethod(RealGraph.from_networkx)
        self.patch(gb, 'Graph', GraphProxy)

        def fake_read(filesource, graphtype, fileformat):
            self.rec.append(('readGraph', (getattr(filesource, 'name', None), graphtype, fileformat), {}))
            if graphtype == 'bipartite':
                return graphs.BipartiteGraph(*FILE_ORDER['bipartite'])
            if graphtype == 'simple':
                return graphs.Graph(FILE_ORDER['simple'][0])
            return graphs.DirectedGraph(FILE_ORDER[graphtype][0])
        self.patch(gf, 'readGraph', fake_read)
        real_proc = graphs._process_graph_io_arguments

        def rec_proc(iofile, graph_type, file_format, multi_edges):
            res = real_proc(iofile, graph_type, file_format, multi_edges)
            self.rec.append(('io_arguments', (getattr(iofile, 'name', None), graph_type, res[1]), {}))
            return res
        self.patch(graphs, '_process_graph_io_arguments', rec_proc)

    def restore(self):
        for obj, name, old in reversed(self.saved):
            setattr(obj, name, old)
        self.saved = []

    def parse(self, gt, toks):
        try:
            res = self.ga.parse_graph_argument(gt, list(toks))
        except ValueError as e:
            return ('err', parse_tag(str(e)))
        except BaseException as e:        # noqa
            return ('crash', type(e).__name__, str(e)[:200])
        return ('ok', res)

    def obtain(self, parsed, seed):
        """obtain_graph on a dictionary that need not come from the parser"""
        self.rec = []
        _random.seed(seed)
        try:
            G = self.ga.obtain_graph(dict(parsed))
        except ValueError as e:
            return ('err', valid_tag(str(e)), str(e))
        except OSError as e:
            return ('oserror', type(e).__name__, str(e)[:200])
        except BaseException as e:        # noqa
            return ('crash', type(e).__name__, str(e)[:200])
        return ('ok', G)

    def make(self, gt, toks, seed):
        self.rec = []
        _random.seed(seed)
        try:
            G = self.ga.make_graph_from_spec(gt, list(toks))
        except ValueError as e:
            return ('err', valid_tag(str(e)), str(e))
        except OSError as e:
            return ('oserror', type(e).__name__, str(e)[:200])
        except BaseException as e:        # noqa
            return ('crash', type(e).__name__, str(e)[:200])
        return ('ok', G)


# --------------------------------------------------------------------------
# comparison helpers
# --------------------------------------------------------------------------
def big_int(s):
    """int(decimal string) without the interpreter's limit on the number of digits (which must stay in force for the implementation)"""
    s = str(s)
    neg = s.startswith('-')
    s = s.lstrip('+-')
    v = 0
    for i in range(0, len(s), 4000):
        chunk = s[i:i + 4000]
        v = v * 10 ** len(chunk) + int(chunk)
    return -v if neg else v


def fval_to_float(v):
    """the double nearest to the model's exact value; None when the exponent is too large to compute with"""
    if v[0] == 'nan':
        return float('nan')
    if v[0] == 'inf':
        return -math.inf if v[1] else math.inf
    neg, m, e = v[1], big_int(v[2]), big_int(v[3])
    if m == 0:
        return -0.0 if neg else 0.0
    if abs(e) > 6000:
        x = math.inf if e > 0 else 0.0
    else:
        try:
            x = float(Fraction(m) * Fraction(10) ** e)
        except OverflowError:
            x = math.inf
    return -x if neg else x


def same_float(a, b):
    if a != a or b != b:
        return a != a and b != b
    return a == b and math.copysign(1, a) == math.copysign(1, b)


def py_float(t):
    try:
        return float(t)
    except ValueError:
        return None


def py_int(t):
    try:
        return int(t)
    except ValueError:
        return None


def real_record(res):
    """the dictionary returned by parse_graph_argument in the shape of the model's reply"""
    keys = list(res.keys())
    base = ['graphtype', 'construction']
    opts = [k for k in keys if k not in ('graphtype', 'construction', 'filename', 'fileformat', 'args')]
    some = lambda x: None if x is None else [Sym('some'), x]      # noqa
    rec = [Sym('ok'), res['graphtype'], some(res['construction']),
           (None if res.get('args') is None else [Sym('some'), list(res['args'])]), 'args' in res,
           some(res['filename']), some(res['fileformat']), [[k, list(res[k])] for k in opts]]
    order_ok = keys[:2] == base and all(keys.index(k) > keys.index('fileformat') for k in opts)
    return rec, order_ok


def norm(x):
    """model replies: symbols and strings compare as text"""
    if isinstance(x, list):
        return [norm(y) for y in x]
    if isinstance(x, bool) or x is None:
        return x
    return str(x)


def expected_first_call(step):
    """(label, args) of the first recorded generator call for the model's SGen step"""
    k = str(step[0])
    Z = lambda i: int(step[i])       # noqa
    if k == 'gnp':
        p = fval_to_float(step[2])
        return ('nx.gnp_random_graph', (Z(1), p)) if Z(3) == 1 else ('multipartite_tnp', (Z(3), Z(1), p))
    if k == 'gnm':
        return ('nx.gnm_random_graph', (Z(1), Z(2)))
    if k == 'gnd':
        return ('nx.random_regular_graph', (Z(2), Z(1)))
    if k in ('grid', 'torus'):
        return ('nx.grid_graph', ([int(d) for d in step[1]],), {'periodic': k == 'torus'})
    if k == 'complete_simple':
        if step[2] is None:
            return ('Graph.complete_graph', (Z(1),))
        return ('nx.complete_multipartite_graph', tuple([Z(1)] * int(step[2][1])))
    if k == 'empty_simple':
        return ('Graph.empty_graph', (Z(1),))
    if k == 'glrp':
        return ('bipartite_random', (Z(1), Z(2), fval_to_float(step[3])))
    if k == 'glrm':
        return ('bipartite_random_m_edges', (Z(1), Z(2), Z(3)))
    if k == 'glrd':
        return ('bipartite_random_left_regular', (Z(1), Z(2), Z(3)))
    if k == 'regular':
        return ('bipartite_random_regular', (Z(1), Z(2), Z(3)))
    if k == 'shift':
        return ('bipartite_shift', (Z(1), Z(2), [int(x) for x in step[3]]))
    if k == 'complete_bipartite':
        return ('CompleteBipartiteGraph', (Z(1), Z(2)))
    if k == 'empty_bipartite':
        return ('BipartiteGraph', (Z(1), Z(2)))
    if k == 'tree':
        return ('dag_complete_binary_tree', (Z(1),))
    if k == 'pyramid':
        return ('dag_pyramid', (Z(1),))
    if k == 'path':
        return ('dag_path', (Z(1),))
    if k == 'read':
        return ('readGraph', (str(step[1]), None, str(step[2])))
    return ('?', ())


def call_matches(exp, got, gt):
    if exp[0] != got[0]:
        return False
    if exp[0] == 'readGraph':
        want = '<stdin>' if exp[1][0] == '-' else exp[1][0]      # the file name '-' stands for sys.stdin (graph_fileinput.py)
        return got[1][0] == want and got[1][1] == gt and got[1][2] == exp[1][2]
    ea, ga_ = exp[1], got[1]
    if len(exp) > 2 and exp[2] != got[2]:
        return False
    if len(ea) != len(ga_):
        return False
    for x, y in zip(ea, ga_):
        if isinstance(x, float):
            if not (isinstance(y, float) and same_float(x, y)):
                return False
        elif isinstance(x, list):
            if list(y) != x:
                return False
        elif x != y or isinstance(y, bool) or not isinstance(y, int):
            return False
    return True


def plan_of_name(name):
    """the modifiers recorded in G.name, in order"""
    out = []
    for m in re.finditer(r' \+ planted (\d+)-clique| \+ planted \((\d+),(\d+)\)-biclique| \+ (\d+) random edges| \+ (\d+) splitted edges', name or ''):
        if m.group(1) is not None:
            out.append(['plantclique', m.group(1)])
        elif m.group(2) is not None:
            out.append(['plantbiclique', m.group(2), m.group(3)])
        elif m.group(4) is not None:
            out.append(['addedges', m.group(4)])
        else:
            out.append(['splitedges', m.group(5)])
    return out


def head_class(gt, toks):
    h = toks[0] if toks else ''
    return h if h in CONS[gt] else 'format' if h in FMTS[gt] else 'file'


def cmdline(gt, toks):
    return ['-q'] + CLI_PREFIX[gt] + list(toks)


# --------------------------------------------------------------------------
# the run
# --------------------------------------------------------------------------
def run_graphspec(ctx):
    quick = ctx.tier == 'quick'
    rng = ctx.rng
    real = Real()
    base = tempfile.mkdtemp(prefix='c18gs-')
    os.makedirs(os.path.join(base, 'd.x'))
    for f in FILES:
        p = os.path.join(base, f)
        if not f.endswith('/'):
            try:
                open(p, 'w').close()
            except OSError:
                pass
    suspects = []      # (kind, gt, toks, what, detail): looked at again in a child process

    def confirm(gt, toks):
        """run the command line in a fresh process; returns (traceback?, last line of stderr, exit status)"""
        try:
            r = clirun.run_cli('cnfgen', cmdline(gt, toks), cwd=base, timeout=60)
        except (ValueError, OSError) as e:          # e.g. a NUL byte cannot be passed on a command line
            return False, 'not runnable: %s' % e, None
        err = r['err'].decode(errors='replace')
        return 'Traceback (most recent call last)' in err, err.strip().split('\n')[-1][:200] if err.strip() else '', r['rc']

    confirmed = {}      # class of failing input -> result of the child process (one child per class, at most 12 children)

    def confirm_once(key, gt, toks):
        if key not in confirmed:
            confirmed[key] = confirm(gt, toks) if len(confirmed) < 12 else (False, 'not run (enough child processes for this check)', None)
        return confirmed[key]

    def report_crash(stream, gt, toks, exc, msg):
        tb, last, rc = confirm_once(('crash', gt, head_class(gt, toks), exc), gt, toks)
        ctx.violation('counterexample',
                      'graph argument %r (%s graph) ends in %s: %s%s' % (toks, gt, exc, msg, ' -- confirmed as a traceback of the cnfgen process' if tb else ''),
                      dict(input=dict(tool='cnfgen', argv=cmdline(gt, toks), graphtype=gt, tokens=toks), exception=exc, message=msg,
                           child_traceback=tb, child_stderr_last=last, child_exit=rc, stream=stream),
                      True, site='graphspec-crash', cls='%s:%s:%s' % (gt, head_class(gt, toks), exc))

    def report_diff(stream, gt, toks, what, impl, model, theorem):
        ctx.disagreements_checked += 1
        tb, last, rc = confirm_once((stream, str(what).split(':')[0], gt, head_class(gt, toks)), gt, toks) if toks else (False, '', None)
        if tb:
            ctx.violation('counterexample', 'graph argument %r (%s graph): %s; the command line ends in a traceback: %s' % (toks, gt, what, last),
                          dict(input=dict(tool='cnfgen', argv=cmdline(gt, toks), graphtype=gt, tokens=toks), implementation=impl, model=model,
                               child_stderr_last=last, child_exit=rc, stream=stream), True, site='graphspec-crash', cls='%s:%s:traceback' % (gt, head_class(gt, toks)))
        else:
            ctx.violation('correspondence', 'graph argument %r (%s graph): %s (coq/GraphSpec.v no longer describes the code; theorem %s does not cover it)' % (toks, gt, what, theorem),
                          dict(input=dict(tool='cnfgen', argv=cmdline(gt, toks), graphtype=gt, tokens=toks), implementation=impl, model=model,
                               theorem=theorem, file='coq/GraphSpec.v', stream=stream, child_exit=rc, child_stderr_last=last),
                          False, site='graphspec-' + stream, cls=str(what).split(':')[0])

    cwd = os.getcwd()
    try:
        # ---------------- tables ----------------
        mt = ctx.model.call(Sym('graphspec_tables'))
        ga = real.ga
        impl_tables = [[t, list(ga.constructions[t].keys()), list(ga.options[t]), list(ga.formats[t])] for t in ga.constructions]
        ctx.count('gs-tables', 'tables', True, sample=dict(implementation=impl_tables))
        if norm(mt) != norm(impl_tables) or sorted(ga.formats) != sorted(ga.constructions) or sorted(ga.options) != sorted(ga.constructions):
            report_diff('tables', 'simple', [], 'tables: constructions/options/formats differ from the model', impl_tables, norm(mt), 'graphspec_parse_never_crashes')

        # ---------------- numbers ----------------
        toks = [t for t in number_tokens(rng, quick) if all(ord(c) < 256 for c in t)]
        rep = ctx.model.batch([cmd('graphspec_float', t) for t in toks] + [cmd('graphspec_int', t) for t in toks])
        nf = len(toks)
        for i, t in enumerate(toks):
            x = py_float(t)
            mf = rep[i]
            ok = True
            what = ''
            if (x is None) != (mf is None):
                ok, what = False, 'float: accepted by %s only' % ('the model' if x is None else 'the implementation')
            elif x is not None:
                mv = fval_to_float(mf[1])
                if not same_float(mv, x):
                    ok, what = False, 'float: value %r, the model reads %r' % (x, mf[1])
                elif bool(mf[2]) != (0 <= x) or bool(mf[3]) != (x <= 1):
                    ok, what = False, 'float: comparisons 0<=x: %s, x<=1: %s; model %s, %s' % (0 <= x, x <= 1, mf[2], mf[3])
            z = py_int(t)
            mi = rep[nf + i]
            if ok and ((z is None) != (mi is None) or (z is not None and z != big_int(mi[1]))):
                ok, what = False, 'int: %r, the model reads %r' % (z, mi)
            cls_ = 'nonnumeric' if x is None else ('int' if z is not None else ('special' if x != x or abs(x) == math.inf else 'float'))
            ctx.tally('gs-number token', cls_)
            ctx.count('gs-number', t, nontrivial=True, sample=dict(token=t, float=repr(x), int=repr(z)) if x is not None and i % 997 == 0 else None)
            if not ok:
                report_diff('number', 'simple', ['gnp', '3', t], 'number: token %r: %s' % (t, what), dict(float=repr(x), int=repr(z)), dict(float=norm(mf), int=norm(mi)), 'graphspec_parse_never_crashes')

        # ---------------- ext ----------------
        names = sorted(set(FILES + ['', '.', '..', '...', 'a', 'a.', '.a', 'a.b', 'a..b', '.a.b', '..a.b', 'a/b', 'a.b/c', 'a.b/.c', 'a.b/c.d', 'a/.b.c', '/', 'a/',
                                    'a.b/', '/.x', '/x.y', 'a.b.c', 'a.b.', 'a/b.c/d.e.f', './x', './.x', '../x.gml', 'x.gml/..', '-']
                                + [''.join(rng.choice('ab./') for _ in range(rng.randint(1, 7))) for _ in range(300 if quick else 5000)]))
        rep = ctx.model.batch([cmd('graphspec_ext', n) for n in names])
        for n, m in zip(names, rep):
            e = os.path.splitext(n)[-1][1:]
            ctx.count('gs-ext', n, nontrivial=True, sample=dict(name=n, ext=e) if n in ('a.b/.c', 'a..b') else None)
            ctx.tally('gs-ext', 'with extension' if e else 'without')
            if str(m) != e:
                report_diff('ext', 'simple', [n], 'ext: file name %r has extension %r, the model says %r' % (n, e, str(m)), e, str(m), 'graphspec_validate_never_crashes')

        # ---------------- parse ----------------
        seen = set()
        pcases = []
        for gt, tk in parse_cases(rng, quick):
            key = (gt, tuple(tk))
            if key not in seen and all(ord(c) < 256 for t in tk for c in t):
                seen.add(key)
                pcases.append((gt, tk))
        rep = ctx.model.batch([cmd('graphspec_parse', Sym(gt), tk) for gt, tk in pcases])
        for (gt, tk), m in zip(pcases, rep):
            r = real.parse(gt, tk)
            mres = m[0]
            mk = str(mres[0])
            ctx.count('gs-parse', (gt, tuple(tk)), nontrivial=len(tk) > 0, sample=dict(graphtype=gt, tokens=tk, outcome=r[0] if r[0] != 'err' else r[1]) if len(tk) == 6 else None)
            ctx.tally('gs-parse outcome', r[0] if r[0] != 'err' else 'err ' + r[1])
            ctx.tally('gs-parse head', 'construction' if tk and tk[0] in CONS[gt] else 'format' if tk and tk[0] in FMTS[gt] else 'other')
            if r[0] == 'crash':
                report_crash('parse', gt, tk, r[1], r[2])
                continue
            if mk == 'crash':
                report_diff('parse', gt, tk, 'parse: the model runs out of fuel', r[0], 'crash', 'graphspec_parse_never_crashes')
                continue
            if r[0] == 'err':
                if mk != 'err' or str(mres[1]) != r[1]:
                    report_diff('parse', gt, tk, 'parse: ValueError %s, the model says %s' % (r[1], norm(mres)), r[1], norm(mres), 'graphspec_parse_never_crashes')
                continue
            rec, order_ok = real_record(r[1])
            if mk != 'ok' or norm(rec) != norm(mres) or not order_ok:
                report_diff('parse', gt, tk, 'parse: result differs from the model', norm(rec), norm(mres), 'graphspec_parse_consumes_all')
                continue
            # the two theorems, observed: all tokens consumed (render = tokens), the value is well formed
            if norm(m[1]) != tk or m[2] is not True:
                report_diff('parse', gt, tk, 'parse: rendering the parsed value does not give the tokens back', tk, norm(m[1]), 'graphspec_parse_consumes_all')
            sv = r[1].get('save')
            if sv is not None and not (len(sv) == 2 and isinstance(sv[1], str) and (sv[0] == 'autodetect' or sv[0] in FMTS[gt])):
                report_diff('parse', gt, tk, 'parse: `save` without a file name in the result', sv, None, 'graphspec_save_has_filename')

        # ---------------- validate ----------------
        os.chdir(base)
        real.instrument()
        seen = set()
        vcases = []
        for gt, tk in validate_cases(rng, quick):
            key = (gt, tuple(tk))
            if key not in seen and all(ord(c) < 256 for t in tk for c in t):
                seen.add(key)
                vcases.append((gt, tk))
        rep = ctx.model.batch([cmd('graphspec_validate', FILE_ORDER[gt][0], FILE_ORDER[gt][1], Sym(gt), tk) for gt, tk in vcases])
        for i, ((gt, tk), m) in enumerate(zip(vcases, rep)):
            r = real.make(gt, tk, ctx.seed + i)
            mk = str(m[0])
            head = tk[0] if tk else ''
            outcome = r[0] if r[0] != 'err' else r[1]
            ctx.count('gs-validate', (gt, tuple(tk)), nontrivial=bool(tk), sample=dict(graphtype=gt, tokens=tk, outcome=outcome) if i % 401 == 0 else None)
            ctx.tally('gs-validate outcome', 'ok' if r[0] == 'ok' else 'parse error' if mk == 'parse' and r[0] == 'err' else r[0] if r[0] != 'err' else ('late' if r[1].startswith('late') else 'ValueError'))
            ctx.tally('gs-validate head', head if head in CONS[gt] else 'file')
            if r[0] == 'crash':
                report_crash('validate', gt, tk, r[1], r[2])
                continue
            if mk == 'crash':
                report_diff('validate', gt, tk, 'validate: the model predicts %s' % norm(m), outcome, norm(m), 'graphspec_validate_never_crashes')
                continue
            if mk == 'parse':
                # parse_graph_argument refuses: the error statement was compared in the parse stream; here the class only
                if r[0] != 'err' or parse_tag(r[2]) != str(m[1][1]):
                    report_diff('validate', gt, tk, 'validate: parsing fails in the model only', outcome, norm(m), 'graphspec_parse_never_crashes')
                continue
            if r[0] == 'oserror':
                ctx.tally('gs-validate file system', r[1])
                continue
            if r[0] == 'err':
                tag = r[1]
                if tag.startswith('late:'):
                    st = LATE_STAGE[tag[5:]]
                    if tag == 'late:torus1' and not (head == 'torus' and any(py_int(t) == 1 for t in tk[1:])):
                        report_diff('validate', gt, tk, 'validate: self-loop refused for a graph that is not a torus with a dimension of size 1', tag, norm(m), 'graphspec_torus_guard_refuted')
                    elif not (mk == 'ok' or (mk == 'err' and STAGE.get(str(m[1]), 0) > st)):
                        report_diff('validate', gt, tk, 'validate: ValueError from the %s callee, but the model stops earlier (%s)' % (tag[5:], norm(m)), tag, norm(m), 'graphspec_validate_never_crashes')
                    continue
                if mk != 'err' or str(m[1]) != tag:
                    report_diff('validate', gt, tk, 'validate: ValueError %s (%s), the model says %s' % (tag, r[2][:60], norm(m)), tag, norm(m), 'graphspec_accepted_precondition')
                continue
            # both accept: compare the plan
            G = r[1]
            if mk != 'ok':
                report_diff('validate', gt, tk, 'validate: accepted, the model says %s' % norm(m), 'ok', norm(m), 'graphspec_accepted_precondition')
                continue
            plan = m[1]
            gen_calls = [c for c in real.rec if c[0] not in ('io_arguments',)]
            exp = expected_first_call(plan[0])
            if not gen_calls or not call_matches(exp, gen_calls[0], gt):
                report_diff('validate', gt, tk, 'validate: generator call %r, the model expects %r' % (gen_calls[:1], exp), repr(gen_calls[:1]), norm(plan), 'graphspec_accepted_precondition')
                continue
            mods = [norm(s) for s in plan[1:] if str(s[0]) != 'save']
            if plan_of_name(getattr(G, 'name', '')) != mods:
                report_diff('validate', gt, tk, 'validate: modifiers applied %r, the model expects %r' % (plan_of_name(G.name), mods), G.name, norm(plan), 'graphspec_plan_shape')
                continue
            saves = [norm(s) for s in plan[1:] if str(s[0]) == 'save']
            io = [[c[1][2], c[1][0]] for c in real.rec if c[0] == 'io_arguments']
            if [s[1:] for s in saves] != io:
                report_diff('validate', gt, tk, 'validate: graph saved as %r, the model expects %r' % (io, saves), io, saves, 'graphspec_plan_shape')
                continue
            # guard => precondition, observed: the graph has the order the model computes
            ctx.tally('gs-validate construction accepted', str(plan[0][0]))

        # ---------------- obtain_graph on arbitrary dictionaries (exception classes of the model) ----------------
        # these inputs cannot come from a command line: a difference is a correspondence break, never a failing input
        recs = []
        for gt in TYPES:
            foreign = 'gnp' if gt != 'simple' else 'tree'
            for c in CONS[gt] + [foreign]:
                for args in (None, [], ['2'], ['3', '2'], ['3', '3', '1'], ['x'], 'absent'):
                    for opts in ({}, {'save': ['g.gml']}, {'save': ['kthlist', 'g', 'h']}, {'save': ['autodetect', 'g.txt']}, {'plantclique': []},
                                 {'addedges': ['1', '2']}, {'addedges': ['1']}, {'plantbiclique': ['1']}, {'plantbiclique': ['1', '1'], 'plantclique': ['1']}, {'splitedges': ['0']}):
                        d = {'graphtype': gt, 'construction': c, 'filename': None, 'fileformat': None}
                        if args != 'absent':
                            d['args'] = args
                        d.update(opts)
                        recs.append(d)
            for fn, ff in ((None, 'autodetect'), (None, 'gml'), ('g.gml', 'autodetect'), ('g', 'autodetect'), ('g.gml', 'kthlist')):
                recs.append({'graphtype': gt, 'construction': None, 'args': None, 'filename': fn, 'fileformat': ff})
                recs.append({'graphtype': gt, 'construction': None, 'filename': fn, 'fileformat': ff, 'save': ['x']})
        some = lambda x: None if x is None else [Sym('some'), x]      # noqa
        reqs = []
        for d in recs:
            opts = [[k, list(v)] for k, v in d.items() if k not in ('graphtype', 'construction', 'filename', 'fileformat', 'args')]
            reqs.append(cmd('graphspec_validate_parsed', FILE_ORDER[d['graphtype']][0], FILE_ORDER[d['graphtype']][1],
                            [Sym(d['graphtype']), some(d['construction']), some(d.get('args')), 'args' in d, some(d['filename']), some(d['fileformat']), opts]))
        rep = ctx.model.batch(reqs)
        for i, (d, m) in enumerate(zip(recs, rep)):
            r = real.obtain(d, ctx.seed + i)
            mv, wf = m[0], m[1]
            mk = str(mv[0])
            ctx.count('gs-records', i, nontrivial=True, sample=dict(parsed=d, outcome=r[0] if r[0] == 'ok' else r[1]) if i % 97 == 0 else None)
            ctx.tally('gs-records outcome', ('crash ' + r[1]) if r[0] == 'crash' else r[0])
            ctx.tally('gs-records well formed', str(wf))
            if r[0] == 'oserror':
                continue
            same = ((r[0] == 'ok' and mk == 'ok') or (r[0] == 'crash' and mk == 'crash' and str(mv[1]) == r[1]) or
                    (r[0] == 'err' and (mk == 'err' and str(mv[1]) == r[1] or r[1].startswith('late:') and mk in ('ok', 'err'))))
            if not same:
                report_diff('records', d['graphtype'], [], 'records: obtain_graph(%r) gives %s, the model says %s' % (d, r[:2], norm(mv)), repr(r[:2]), norm(mv), 'graphspec_validate_never_crashes')
            if wf is True and r[0] == 'crash':
                report_diff('records', d['graphtype'], [], 'records: a well formed dictionary %r ends in %s' % (d, r[1]), repr(r[:2]), norm(mv), 'graphspec_validate_never_crashes')

        # ---------------- sizes that are not even a valid index ----------------
        # (memory is outside the model: it says `ok`; the implementation must still end in a clean error)
        B = str(2 ** 63)
        for gt, tk in [('simple', ['gnm', B, '0']), ('simple', ['gnd', B, '2']), ('simple', ['gnp', B, '0']), ('simple', ['grid', B]),
                       ('simple', ['torus', '2', B]), ('simple', ['complete', '1', B])]:
            r = real.make(gt, tk, ctx.seed)
            ctx.count('gs-huge', (gt, tuple(tk)), nontrivial=True, sample=dict(graphtype=gt, tokens=tk, outcome=r[0] if r[0] != 'err' else r[2][:60]))
            ctx.tally('gs-huge outcome', r[1] if r[0] == 'crash' else r[0])
            if r[0] == 'crash' and r[1] == 'OverflowError':
                tb, last, rc = confirm_once(('huge',), gt, tk)
                ctx.violation('counterexample', 'graph argument %r asks for more vertices than an index can hold and ends in OverflowError%s'
                              % (tk, ' -- confirmed as a traceback of the cnfgen process' if tb else ''),
                              dict(input=dict(tool='cnfgen', argv=cmdline(gt, tk), graphtype=gt, tokens=tk), exception=r[1], message=r[2],
                                   child_traceback=tb, child_stderr_last=last, child_exit=rc, stream='huge'), True, site='graphspec-huge', cls='OverflowError')
            elif r[0] == 'crash':
                report_crash('huge', gt, tk, r[1], r[2])
            elif not (r[0] == 'err' and r[2].startswith('The graph is too large')):
                report_diff('huge', gt, tk, 'huge: expected a clean "too large" error, got %s' % (r[:2],), repr(r[:2]), 'ok (memory not modelled)', 'graphspec_validate_never_crashes')
    finally:
        real.restore()
        os.chdir(cwd)
        shutil.rmtree(base, ignore_errors=True)


META_NOTE = ('Graph arguments (coq/GraphSpec.v, Prop_C18_graphspec.v): for every graph type and every token list parse_graph_argument ends in a '
             'parsed value or ValueError; it consumes all tokens (the value renders back to the token list), keeps every option at most once, `save` '
             'always has a file name; for every parsed value the argument validation of every obtain_*/modify_* ends in a plan of calls or ValueError '
             '(exception classes and except clauses modelled statement by statement, float()/int() grammar included), and an accepted construction '
             'satisfies the precondition of the generator it calls (gnd, gnm, gnp, grid, regular, glrm, glrd, shift, plant*, save/read formats); '
             'torus with a dimension of size 1 is the one guard weaker than its callee (refuted, clean error). Compared in-process with the code on '
             'token lists, numbers, file names and dictionaries (harness/c18_graphspec.py).')
RULE_NOTE = ('streams gs-*: in-process comparison of the graph-argument model with parse_graph_argument / make_graph_from_spec / obtain_graph '
             '(gs-number: float()/int() of a token; gs-ext: file name extension; gs-parse: token list -> dictionary or error statement; gs-validate: '
             'token list -> generator call with converted arguments, modifiers, save format, or error statement; gs-records: dictionaries the parser '
             'cannot produce; gs-huge: sizes >= 2^63). Non-trivial = non-empty token list / token; distinct = distinct (stream, graph type, tokens)')
TRUSTED = ['graph arguments: CPython float() assumed correctly rounded (gs_le_one / gs_ge_zero decide the comparison on the exact decimal); readGraph '
           'replaced by a stub graph of known size and the generators wrapped by recorders during the gs-validate stream; file system assumed '
           'cooperative; code points above 255 and graph sizes beyond memory are outside the model']
