"""Child process used by the CLI checks (C07, C17, C18).

    python cli_child.py <repo> <tool> <tracefile|-> <prestate|-> -- argv...

Runs cnfgen / pbgen / cnfshuffle / kthlist2pebbling main() from <repo> with
sys.argv = [tool] + argv.  When a trace file is given, the global generator of
the `random` module is replaced BEFORE cnfgen is imported by an instance that
logs every seeding and every primitive draw (random(), getrandbits()); the
event list is written to the trace file as JSON at exit.  `prestate` perturbs
the generator state the tool starts from (silently)."""
import json
import os
import sys


def main():
    repo, tool, tracefile, prestate = sys.argv[1:5]
    assert sys.argv[5] == '--'
    argv = sys.argv[6:]
    sys.path.insert(0, repo)
    try:
        # a request far beyond the machine (and 10^8 0) must not take the machine down: cap the address space of the child;
        # the harness files a MemoryError under this cap with the timeouts (resources, not behaviour)
        import resource
        lim = int(os.environ.get('VERIF_CHILD_AS_MB', '2048')) * 1024 * 1024
        resource.setrlimit(resource.RLIMIT_AS, (lim, lim))
    except Exception:
        pass
    events = []
    if tracefile != '-':
        import random

        class Traced(random.Random):
            _quiet = False

            def seed(self, a=None, version=2):
                if not Traced._quiet:
                    events.append(['seed', a if isinstance(a, int) and not isinstance(a, bool) else repr(a)])
                return super().seed(a, version)

            def random(self):
                events.append('draw')
                return super().random()

            def getrandbits(self, k):
                events.append('draw')
                return super().getrandbits(k)

        Traced._quiet = True
        inst = Traced()
        if prestate != '-':
            inst.seed(int(prestate))
        Traced._quiet = False
        random._inst = inst
        for name in ('seed', 'random', 'uniform', 'triangular', 'randint', 'choice', 'randrange', 'sample', 'shuffle',
                     'choices', 'normalvariate', 'lognormvariate', 'expovariate', 'vonmisesvariate', 'gammavariate',
                     'gauss', 'betavariate', 'paretovariate', 'weibullvariate', 'getstate', 'setstate', 'getrandbits',
                     'randbytes', 'binomialvariate'):
            if hasattr(inst, name):
                setattr(random, name, getattr(inst, name))

        def dump():
            out, run = [], 0
            for e in events:
                if e == 'draw':
                    run += 1
                else:
                    if run:
                        out.append(['draw', run]); run = 0
                    out.append(e)
            if run:
                out.append(['draw', run])
            try:
                with open(tracefile, 'w') as f:
                    json.dump(out, f)
            except Exception:
                pass
        import atexit
        atexit.register(dump)
    mods = {'cnfgen': 'cnfgen.clitools.cnfgen', 'pbgen': 'cnfgen.clitools.pbgen',
            'cnfshuffle': 'cnfgen.clitools.cnfshuffle', 'kthlist2pebbling': 'cnfgen.clitools.kthlist2pebbling'}
    import importlib
    m = importlib.import_module(mods[tool])
    sys.argv = [tool] + argv
    m.main()


if __name__ == '__main__':
    main()
