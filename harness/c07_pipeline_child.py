"""Fork server used by the seeded whole-program stream of cnfgen (harness/c07_pipeline.py); adapted from c09_main_child.py.

    python c07_pipeline_child.py <repo> <requests file> [<time limit per run>]

The requests file holds one JSON object per line:
    {"argv": [...], "stdin": "", "cwd": "<directory or null>"}
and one JSON reply per line is written to standard output:
    {"rc": exit status (negative: killed by that signal, null: time limit), "out": stdout bytes (latin-1),
     "err": stderr (cut when long), "timeout": bool,
     "seeds": [repr of every value given to random.seed],
     "bits": [[k, value], ...]      every getrandbits(k) call of the global generator and what it returned, in order
     "below": [[n, value], ...]     every _randbelow(n) call and what it returned, in order
     "other": number of random() calls}

BEFORE cnfgen is imported the global generator of the `random` module is replaced by an instance of a subclass of
random.Random whose getrandbits / _randbelow / random / seed record their results and then do what random.Random
does (the class keeps CPython's own _randbelow_with_getrandbits; every module-level function of `random` is rebound
to the instance).  cnfgen is imported once; every request is served by a child obtained with os.fork(): the child
re-seeds the instance from os.urandom (silently; what CPython does for its own instance after a fork), empties the
records, points the file descriptors 0, 1, 2 to temporary files (sys.stdin / sys.stdout / sys.stderr stay the
interpreter's own objects, named '<stdin>' ...; the server never reads its own standard input, so their buffers are
empty), sets sys.argv = ['cnfgen'] + argv and calls cnfgen's main().  The address space of a run is capped at
2 GiB and its time by the limit."""
import json
import os
import signal
import sys
import tempfile
import time

MEMORY_LIMIT = 2 << 30

REC = {'seeds': [], 'bits': [], 'below': [], 'other': 0, 'quiet': False}


def install():
    import random

    class Recorded(random.Random):
        def seed(self, a=None, version=2):
            if not REC['quiet']:
                REC['seeds'].append(repr(a))
            return super().seed(a, version)

        def getrandbits(self, k):
            r = super().getrandbits(k)
            REC['bits'].append([k, r])
            return r

        def _randbelow(self, n):
            r = self._randbelow_with_getrandbits(n)
            REC['below'].append([n, r])
            return r

        def random(self):
            REC['other'] += 1
            return super().random()

    REC['quiet'] = True
    inst = Recorded()
    REC['quiet'] = False
    random._inst = inst
    for name in ('seed', 'random', 'uniform', 'triangular', 'randint', 'choice', 'randrange', 'sample', 'shuffle',
                 'choices', 'normalvariate', 'lognormvariate', 'expovariate', 'vonmisesvariate', 'gammavariate',
                 'gauss', 'betavariate', 'paretovariate', 'weibullvariate', 'getstate', 'setstate', 'getrandbits',
                 'randbytes', 'binomialvariate'):
        if hasattr(inst, name):
            setattr(random, name, getattr(inst, name))
    return inst


def cut(b):
    s = b.decode('latin-1')
    return s if len(s) < 6000 else s[:2000] + ' ... ' + s[-3000:]


def serve(m, inst, requests, limit):
    out = sys.stdout
    tmpdir = tempfile.mkdtemp(prefix='plr-child-')
    fi, fo, fe, fr = (os.path.join(tmpdir, x) for x in 'ioer')
    for req in requests:
        with open(fi, 'wb') as f:
            f.write(req['stdin'].encode('utf-8'))
        for p in (fo, fe, fr):
            try:
                os.unlink(p)
            except OSError:
                pass
        out.flush()
        pid = os.fork()
        if pid == 0:
            rc = 70
            try:
                try:
                    import resource
                    resource.setrlimit(resource.RLIMIT_AS, (MEMORY_LIMIT, MEMORY_LIMIT))
                except Exception:
                    pass
                REC['quiet'] = True
                inst.seed()
                REC['quiet'] = False
                REC['seeds'], REC['bits'], REC['below'], REC['other'] = [], [], [], 0
                if req.get('cwd'):
                    os.chdir(req['cwd'])
                i = os.open(fi, os.O_RDONLY)
                o = os.open(fo, os.O_WRONLY | os.O_CREAT | os.O_TRUNC, 0o600)
                e = os.open(fe, os.O_WRONLY | os.O_CREAT | os.O_TRUNC, 0o600)
                os.dup2(i, 0)
                os.dup2(o, 1)
                os.dup2(e, 2)
                sys.argv = ['cnfgen'] + [str(a) for a in req['argv']]
                rc = 0
                try:
                    m.main()
                except SystemExit as x:
                    c = x.code
                    if c is None:
                        rc = 0
                    elif isinstance(c, int):
                        rc = c & 0xff
                    else:
                        rc = 1
                except BaseException:
                    import traceback
                    try:
                        os.write(2, traceback.format_exc().encode())
                    except Exception:
                        pass
                    rc = 1
                for s in (sys.stdout, sys.stderr):
                    try:
                        s.flush()
                    except Exception:
                        pass
                try:
                    with open(fr, 'w') as f:
                        json.dump(dict(seeds=REC['seeds'], bits=REC['bits'], below=REC['below'], other=REC['other']), f)
                except Exception:
                    pass
            finally:
                os._exit(rc)
        t0 = time.time()
        timed_out = False
        status = None
        while True:
            done, st = os.waitpid(pid, os.WNOHANG)
            if done:
                status = st
                break
            if time.time() - t0 > limit:
                os.kill(pid, signal.SIGKILL)
                os.waitpid(pid, 0)
                timed_out = True
                break
            time.sleep(0.0005 if time.time() - t0 < 0.2 else 0.01)
        if status is None:
            rc = None
        elif os.WIFEXITED(status):
            rc = os.WEXITSTATUS(status)
        else:
            rc = -os.WTERMSIG(status)

        def rd(p):
            try:
                with open(p, 'rb') as f:
                    return f.read()
            except OSError:
                return b''
        rec = dict(seeds=[], bits=[], below=[], other=0, norecord=True)
        try:
            rec = json.loads(rd(fr).decode())
        except Exception:
            pass
        reply = dict(rc=rc, out=rd(fo).decode('latin-1'), err=cut(rd(fe)), timeout=timed_out)
        reply.update(rec)
        out.write(json.dumps(reply) + '\n')
        out.flush()
    for p in (fi, fo, fe, fr):
        try:
            os.unlink(p)
        except OSError:
            pass
    try:
        os.rmdir(tmpdir)
    except OSError:
        pass


def main():
    repo, reqfile = sys.argv[1:3]
    limit = float(sys.argv[3]) if len(sys.argv) > 3 else 30.0
    sys.path.insert(0, repo)
    inst = install()
    import importlib
    m = importlib.import_module('cnfgen.clitools.cnfgen')
    with open(reqfile) as f:
        requests = [json.loads(ln) for ln in f if ln.strip()]
    serve(m, inst, requests, limit)


if __name__ == '__main__':
    main()
