(* driver commands of the whole-program models with file arguments (coq/PipelineFiles.v, property C17/C14/C18).
     (files_pipeline ARGV FILES STDIN)    `cnfgen`            ->  (out "p cnf ...") | (clierror) | (crash) | (outside)
     (files_pipeline_ref ARGV FILES STDIN)   the same through IR.to_cnf
     (k2p_pipeline ARGV FILES STDIN)      `kthlist2pebbling`  ->  the same replies
   ARGV is sys.argv[1:] as a list of quoted strings, FILES a list of (NAME CONTENT) pairs of quoted strings (the
   name as it stands on the command line, the content as bytes), STDIN the bytes on standard input. *)
open Model
open Sx

let plf_of_result = function
  | POut t -> L [A "out"; of_chars t]
  | PCliError -> L [A "clierror"]
  | PCrash -> L [A "crash"]
  | POutside -> L [A "outside"]
let plf_to_argv = to_list to_chars
let plf_to_env files stdin =
  { plf_files = to_list (to_pair to_chars to_chars) files; plf_stdin = to_chars stdin }

let () =
  register "files_pipeline" (function [argv; files; stdin] -> plf_of_result (cnfgen_files_main_fast (plf_to_argv argv) (plf_to_env files stdin)) | _ -> raise (Bad "arity"));
  register "files_pipeline_ref" (function [argv; files; stdin] -> plf_of_result (cnfgen_files_main (plf_to_argv argv) (plf_to_env files stdin)) | _ -> raise (Bad "arity"));
  register "k2p_pipeline" (function [argv; files; stdin] -> plf_of_result (k2p_main_fast (plf_to_argv argv) (plf_to_env files stdin)) | _ -> raise (Bad "arity"))
