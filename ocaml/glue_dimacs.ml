(* driver commands of the DIMACS slice (C06): texts are quoted strings of 8-bit characters *)
open Model
open Sx

(* integers of any size: printed and read with the model's own decimal functions *)
let of_zbig (x : z) : sx = A (String.of_seq (List.to_seq (print_Z x)))
let to_zbig (x : sx) : z =
  match parse_int (to_chars x) with Some v -> v | None -> raise (Bad "integer expected")
let of_cnf_big = of_list (of_list of_zbig)
let to_cnf_big = to_list (to_list to_zbig)

let err_name = function
  | DupSpec -> "DupSpec" | BadSpec -> "BadSpec" | DataBeforeSpec -> "DataBeforeSpec"
  | BadLiteral -> "BadLiteral" | Incomplete -> "Incomplete" | MissingSpec -> "MissingSpec"
  | WrongCount -> "WrongCount"

let of_result = function
  | DOk (n, f) -> L [A "ok"; of_zbig n; of_cnf_big f]
  | Err (e, k) -> L [A "err"; A (err_name e); of_zbig k]

let () =
  register "print_Z" (function [x] -> of_chars (print_Z (to_zbig x)) | _ -> raise (Bad "arity"));
  register "parse_int" (function [t] -> of_opt of_zbig (parse_int (to_chars t)) | _ -> raise (Bad "arity"));
  register "split_ws" (function [t] -> of_list of_chars (split_ws (to_chars t)) | _ -> raise (Bad "arity"));
  register "strip" (function [t] -> of_chars (strip (to_chars t)) | _ -> raise (Bad "arity"));
  register "read_lines" (function [u; t] ->
      let s = to_chars t in
      of_list of_chars (split_lines (if to_bool u then universal s else s)) | _ -> raise (Bad "arity"));
  register "print_dimacs" (function [h; names; n; f] ->
      of_chars (print_dimacs (to_opt (to_list (to_pair to_chars to_chars)) h)
                  (to_opt (to_list to_chars) names) (to_zbig n) (to_cnf_big f))
                                  | _ -> raise (Bad "arity"));
  (* the writer before the repair of D4 (commit 7278321): kept to recognise a regression *)
  register "print_dimacs_as_found" (function [h; names; n; f] ->
      of_chars (print_dimacs_as_found (to_opt (to_list (to_pair to_chars to_chars)) h)
                  (to_opt (to_list to_chars) names) (to_zbig n) (to_cnf_big f))
                                  | _ -> raise (Bad "arity"));
  register "within_comment" (function [p; t] -> of_chars (within_comment (to_chars p) (to_chars t)) | _ -> raise (Bad "arity"));
  register "parse_dimacs" (function [u; t] -> of_result (parse_dimacs (to_bool u) (to_chars t)) | _ -> raise (Bad "arity"))
