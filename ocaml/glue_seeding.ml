open Model
open Sx
let to_event = function
  | A "draw" -> EDraw
  | L [A "seed"; s] -> ESeed (to_z s)
  | _ -> raise (Bad "event")
let () =
  register "disciplined" (function [s; tr] -> of_bool (disciplined (to_z s) (to_list to_event tr)) | _ -> raise (Bad "arity"))
