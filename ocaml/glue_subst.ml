(* driver commands for coq/Subst.v:
   (subst <name> N F arg ...) -> (ok numvar clauses) | (valueerror) *)
open Model
open Sx

let sres_out = function
  | TOk (n, f) -> L [A "ok"; of_z n; of_cnf f]
  | TValueErr -> L [A "valueerror"]
let pair_out (n, f) = L [A "ok"; of_z n; of_cnf f]
let scop_of = function
  | "<=" -> CLe | ">=" -> CGe | "<" -> CLt | ">" -> CGt | "==" -> CEq | "!=" -> CNe
  | s -> raise (Bad ("operator " ^ s))

let () =
  register "subst" (function
    | name :: n :: f :: rest ->
      let n = to_z n and f = to_cnf f in
      (match to_str name, rest with
       | "flip", [] -> pair_out (flip_polarity n f)
       | "ite", [] -> pair_out (ite_substitution n f)
       | "xor", [k] -> sres_out (xor_substitution n (to_z k) f)
       | "or", [k] -> sres_out (or_substitution n (to_z k) f)
       | "maj", [k] -> sres_out (majority_substitution n (to_z k) f)
       | "one", [k] -> sres_out (exactly_one_substitution n (to_z k) f)
       | "eq", [k] -> sres_out (all_equal_substitution n (to_z k) false f)
       | "eq_invert", [k] -> sres_out (all_equal_substitution n (to_z k) true f)
       | "neq", [k] -> sres_out (not_all_equal_substitution n (to_z k) f)
       | "linear", [k; o; c] -> sres_out (linear_substitution n (to_z k) (scop_of (to_str o)) (to_z c) f)
       | "atleast", [k; c] -> sres_out (at_least_k_substitution n (to_z k) (to_z c) f)
       | "atmost", [k; c] -> sres_out (at_most_k_substitution n (to_z k) (to_z c) f)
       | "exact", [k; c] -> sres_out (exactly_k_substitution n (to_z k) (to_z c) f)
       | "anybut", [k; c] -> sres_out (anything_but_k_substitution n (to_z k) (to_z c) f)
       | "lift", [k] -> sres_out (formula_lifting n (to_z k) f)
       | "xorcomp", [r; adj] -> sres_out (variable_compression n f (to_z r) (to_cnf adj) CompXor)
       | "majcomp", [r; adj] -> sres_out (variable_compression n f (to_z r) (to_cnf adj) CompMaj)
       | "othercomp", [r; adj] -> sres_out (variable_compression n f (to_z r) (to_cnf adj) CompOther)
       | s, _ -> raise (Bad ("subst: unknown transformation or arity: " ^ s)))
    | _ -> raise (Bad "arity"))
