(* driver commands of the whole-program models with the output options (coq/PipelineTex.v, properties C12 / C06 / C19):
     (tex_pipeline "VERSION" ("-q" "-l" "php" "3" "2" "-T" "xor" "2"))  ->  (out "...") | (clierror) | (crash) | (outside)
     (tex_pipeline_ref "VERSION" ARGV)     the same through IR.to_cnf instead of FamFast.to_cnf_f
     (tex_pb_pipeline "VERSION" ARGV)      the model of pbgen
   VERSION is info['version'] of the installation, ARGV is sys.argv[1:] as a list of quoted strings. *)
open Model
open Sx

let plt_of_result = function
  | POut t -> L [A "out"; of_chars t]
  | PCliError -> L [A "clierror"]
  | PCrash -> L [A "crash"]
  | POutside -> L [A "outside"]
let plt_to_argv = to_list to_chars

let () =
  register "tex_pipeline" (function [v; argv] -> plt_of_result (cnfgen_main_tex_fast (to_chars v) (plt_to_argv argv)) | _ -> raise (Bad "arity"));
  register "tex_pipeline_ref" (function [v; argv] -> plt_of_result (cnfgen_main_tex (to_chars v) (plt_to_argv argv)) | _ -> raise (Bad "arity"));
  register "tex_pb_pipeline" (function [v; argv] -> plt_of_result (pbgen_main_tex (to_chars v) (plt_to_argv argv)) | _ -> raise (Bad "arity"))
