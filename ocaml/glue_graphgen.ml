(* driver commands of property C15: graph constructions of the command line (coq/GraphGen.v) *)
open Model
open Sx

let gg_kind_of = function
  | "simple" -> GioSimple | "directed" -> GioDirected | "bipartite" -> GioBipartite
  | s -> raise (Bad ("kind " ^ s))
let gg_kind_str = function GioSimple -> "simple" | GioDirected -> "directed" | GioBipartite -> "bipartite"
let gg_exn_str = function
  | EValueError -> "ValueError" | EStopIteration -> "StopIteration" | EIndexError -> "IndexError"
  | ETypeError -> "TypeError" | ENotModelled -> "NotModelled"

(* graphs travel without their name: (kind n r edges) *)
let gg_of_graph (g : iograph) =
  L [A (gg_kind_str g.io_kind); of_z g.io_n; of_z g.io_r; of_list (of_pair of_z of_z) g.io_edges]
let gg_to_graph = function
  | L [k; n; r; es] ->
    { io_kind = gg_kind_of (to_str k); io_name = []; io_n = to_z n; io_r = to_z r;
      io_edges = to_list (to_pair to_z to_z) es }
  | _ -> raise (Bad "graph")
let gg_of_res f = function
  | GGOk a -> L [A "ok"; f a]
  | GGRaise e -> L [A "raise"; Q (gg_exn_str e)]
  | GGZeroDiv -> L [A "raise"; Q "ZeroDivisionError"]
  | GGBadOracle -> L [A "badoracle"]
  | GGNoFuel -> L [A "nofuel"]
(* (graph, rest of the stream) *)
let gg_of_gs (g, s) = L [gg_of_graph g; of_zl s]
let gg_of_gres r = gg_of_res gg_of_graph r
let gg_to_optargs x = to_opt to_zl x
let bad () = raise (Bad "arity")

let () =
  register "gg_left_regular" (function [l; r; d; s] -> gg_of_res gg_of_gs (gg_left_regular (to_z l) (to_z r) (to_z d) (to_zl s)) | _ -> bad ());
  (* the boolean of gg_m_edges / gg_random_regular / gg_obtain: true = the current code, false = the code as found;
     the boolean of gg_shift: true = the code as found (sort in place) *)
  register "gg_m_edges" (function [spec; l; r; m; s] -> gg_of_res gg_of_gs (gg_m_edges_gen (to_bool spec) (to_z l) (to_z r) (to_z m) (to_zl s)) | _ -> bad ());
  register "gg_random_regular" (function [rep; fuel; l; r; d; s] ->
      gg_of_res gg_of_gs (gg_random_regular_gen (to_bool rep) (to_nat fuel) (to_z l) (to_z r) (to_z d) (to_zl s)) | _ -> bad ());
  register "gg_bip_random" (function [l; r; pok; s] -> gg_of_res gg_of_gs (gg_bip_random (to_z l) (to_z r) (to_bool pok) (to_zl s)) | _ -> bad ());
  register "gg_tnp" (function [t; n; s] -> gg_of_res gg_of_gs (gg_tnp (to_z t) (to_z n) (to_zl s)) | _ -> bad ());
  register "gg_shift" (function [inplace; n; m; pat] ->
      gg_of_res (fun (g, p) -> L [gg_of_graph g; of_zl p]) (gg_shift_gen (to_bool inplace) (to_z n) (to_z m) (to_zl pat)) | _ -> bad ());
  register "gg_complete_bipartite" (function [l; r] -> gg_of_gres (gg_complete_bipartite (to_z l) (to_z r)) | _ -> bad ());
  register "gg_empty_bipartite" (function [l; r] -> gg_of_gres (gg_empty_bipartite (to_z l) (to_z r)) | _ -> bad ());
  register "gg_complete_simple" (function [n] -> gg_of_gres (gg_complete_simple (to_z n)) | _ -> bad ());
  register "gg_empty_simple" (function [n] -> gg_of_gres (gg_empty_simple (to_z n)) | _ -> bad ());
  register "gg_dag_pyramid" (function [h] -> gg_of_gres (gg_dag_pyramid (to_z h)) | _ -> bad ());
  register "gg_dag_tree" (function [h] -> gg_of_gres (gg_dag_tree (to_z h)) | _ -> bad ());
  register "gg_dag_path" (function [h] -> gg_of_gres (gg_dag_path (to_z h)) | _ -> bad ());
  register "gg_plantclique" (function [g; k; s] -> gg_of_res gg_of_gs (gg_plantclique (gg_to_graph g) (to_z k) (to_zl s)) | _ -> bad ());
  register "gg_plantbiclique" (function [g; a; b; s] -> gg_of_res gg_of_gs (gg_plantbiclique (gg_to_graph g) (to_z a) (to_z b) (to_zl s)) | _ -> bad ());
  register "gg_add_missing" (function [g; m; s] -> gg_of_res gg_of_gs (gg_add_missing (gg_to_graph g) (to_z m) (to_zl s)) | _ -> bad ());
  register "gg_split_edges" (function [g; k; s] -> gg_of_res gg_of_gs (gg_split_edges (gg_to_graph g) (to_z k) (to_zl s)) | _ -> bad ());
  (* options: none | (some (args)) for plant, addedges, splitedges *)
  register "gg_modify" (function [p; a; sp; g; s] ->
      gg_of_res gg_of_gs (gg_modify { gg_o_plant = gg_to_optargs p; gg_o_add = gg_to_optargs a; gg_o_split = gg_to_optargs sp }
                            (gg_to_graph g) (to_zl s)) | _ -> bad ());
  (* guards: name, integer arguments, p_ok *)
  register "gg_guard" (function [name; args; pok] ->
      let a = to_zl args and p = to_bool pok in
      of_bool (match to_str name with
          | "gnd" -> gg_guard_gnd a | "gnd-as-found" -> gg_guard_gnd_as_found a | "gnp" -> gg_guard_gnp a p | "gnm" -> gg_guard_gnm a
          | "complete-simple" -> gg_guard_complete_simple a | "empty-simple" -> gg_guard_empty_simple a
          | "grid" | "torus" -> gg_guard_grid a | "grid-as-found" -> gg_guard_grid_as_found a | "glrp" -> gg_guard_glrp a p | "glrm" -> gg_guard_glrm a
          | "glrd" -> gg_guard_glrd a | "regular" -> gg_guard_regular a | "shift" -> gg_guard_shift a
          | "complete-bipartite" | "empty-bipartite" -> gg_guard_two_positive a
          | "path" | "tree" | "pyramid" | "plantclique" | "addedges" | "splitedges" -> gg_guard_one_nonneg a
          | "plantbiclique" -> gg_guard_two_nonneg a
          | s -> raise (Bad ("guard " ^ s))) | _ -> bad ());
  (* obtain_* of the in-house constructions: name, integer arguments, spec/repair flag, restart fuel, stream *)
  register "gg_obtain" (function [name; args; flag; fuel; s] ->
      let a = to_zl args and st = to_zl s and fl = to_bool flag in
      let plain r = gg_of_res gg_of_gs (match r with GGOk g -> GGOk (g, st) | GGRaise e -> GGRaise e | GGZeroDiv -> GGZeroDiv
                                                 | GGBadOracle -> GGBadOracle | GGNoFuel -> GGNoFuel) in
      (match to_str name with
       | "glrm" -> gg_of_res gg_of_gs (gg_obtain_glrm_gen fl a st)
       | "glrd" -> gg_of_res gg_of_gs (gg_obtain_glrd a st)
       | "regular" -> gg_of_res gg_of_gs (gg_obtain_regular_gen fl (to_nat fuel) a st)
       | "shift" -> plain (gg_obtain_shift a)
       | "complete-bipartite" -> plain (gg_obtain_complete_bipartite a)
       | "empty-bipartite" -> plain (gg_obtain_empty_bipartite a)
       | "complete-simple" -> plain (gg_obtain_complete_simple a)
       | "empty-simple" -> plain (gg_obtain_empty_simple a)
       | "path" -> plain (gg_obtain_dag Z0 a)
       | "tree" -> plain (gg_obtain_dag (z_of_int 1) a)
       | "pyramid" -> plain (gg_obtain_dag (z_of_int 2) a)
       | s -> raise (Bad ("obtain " ^ s))) | _ -> bad ())
