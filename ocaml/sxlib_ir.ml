(* shared encoders for constraint operators, pseudo-Boolean constraints and the IR *)
open Model
open Sx

let cop_of = function
  | "<=" -> CLe | ">=" -> CGe | "<" -> CLt | ">" -> CGt | "==" -> CEq | "!=" -> CNe
  | s -> raise (Bad ("operator " ^ s))
let cop_str = function CLe -> "<=" | CGe -> ">=" | CLt -> "<" | CGt -> ">" | CEq -> "==" | CNe -> "!="
let pbop_of = function
  | "<=" -> PLe | ">=" -> PGe | "<" -> PLt | ">" -> PGt | "==" -> PEq
  | s -> raise (Bad ("operator " ^ s))
let pbop_str = function PLe -> "<=" | PGe -> ">=" | PLt -> "<" | PGt -> ">" | PEq -> "=="
let of_pbc (c : pbc) = L [of_list (of_pair of_z of_z) c.pb_terms; Q (pbop_str c.pb_op); of_z c.pb_deg]
let to_pbc = function
  | L [ts; o; d] -> { pb_terms = to_list (to_pair to_z to_z) ts; pb_op = pbop_of (to_str o); pb_deg = to_z d }
  | _ -> raise (Bad "pbc")
let of_opb = of_list of_pbc

let of_ir = function
  | IClause c -> L [A "clause"; of_zl c]
  | ILin (ls, o, k) -> L [A "lin"; of_zl ls; Q (cop_str o); of_z k]
  | IParity (ls, c) -> L [A "parity"; of_zl ls; of_z c]
  | ILooseMaj ls -> L [A "loose_majority"; of_zl ls]
  | ILooseMin ls -> L [A "loose_minority"; of_zl ls]
  | IStrictMaj ls -> L [A "strict_majority"; of_zl ls]
  | IStrictMin ls -> L [A "strict_minority"; of_zl ls]
let to_ir = function
  | L [A "clause"; c] -> IClause (to_zl c)
  | L [A "lin"; ls; o; k] -> ILin (to_zl ls, cop_of (to_str o), to_z k)
  | L [A "parity"; ls; c] -> IParity (to_zl ls, to_z c)
  | L [A "loose_majority"; ls] -> ILooseMaj (to_zl ls)
  | L [A "loose_minority"; ls] -> ILooseMin (to_zl ls)
  | L [A "strict_majority"; ls] -> IStrictMaj (to_zl ls)
  | L [A "strict_minority"; ls] -> IStrictMin (to_zl ls)
  | _ -> raise (Bad "ir")
let of_irs = of_list of_ir

(* standard reply of a family command: (numvar  clauses-of-the-CNF-class  constraints-of-the-OPB-class) *)
let formula_reply (numvar : z) (irs : ir list) : sx =
  L [of_z numvar; of_cnf (Model.to_cnf irs); of_opb (Model.to_opb irs)]

let () =
  register "to_cnf" (function [l] -> of_cnf (Model.to_cnf (to_list to_ir l)) | _ -> raise (Bad "arity"));
  register "to_opb" (function [l] -> of_opb (Model.to_opb (to_list to_ir l)) | _ -> raise (Bad "arity"))
