(* driver commands of the whole-program model of `cnfgen` (coq/Pipeline.v, property C17/C18).
     (pipeline ("-q" "php" "3" "2" "-T" "xor" "2"))   ->  (out "p cnf ...")  | (clierror) | (crash) | (outside)
     (pipeline_ref ARGV)       the same through IR.to_cnf instead of FamFast.to_cnf_f (slow beyond ~20 literals per constraint)
     (pipeline_formula ARGV)   ->  (ok numvar clauses) | (clierror) | (crash) | (outside)
     (pipeline_env "VERSION" ARGV)   the program with or without -q; VERSION is info['version'] of the installation
   ARGV is sys.argv[1:] as a list of quoted strings. *)
open Model
open Sx

let of_result = function
  | POut t -> L [A "out"; of_chars t]
  | PCliError -> L [A "clierror"]
  | PCrash -> L [A "crash"]
  | POutside -> L [A "outside"]
let of_fres = function
  | FrOk (n, f) -> L [A "ok"; of_z n; of_cnf f]
  | FrErr -> L [A "clierror"]
  | FrCrash -> L [A "crash"]
  | FrOutside -> L [A "outside"]
let to_argv = to_list to_chars

let () =
  register "pipeline" (function [argv] -> of_result (cnfgen_main_fast (to_argv argv)) | _ -> raise (Bad "arity"));
  register "pipeline_ref" (function [argv] -> of_result (cnfgen_main (to_argv argv)) | _ -> raise (Bad "arity"));
  register "pipeline_env" (function [v; argv] -> of_result (cnfgen_main_env_fast (to_chars v) (to_argv argv)) | _ -> raise (Bad "arity"));
  register "pipeline_formula" (function [argv] -> of_fres (pl_formula_fast (to_argv argv)) | _ -> raise (Bad "arity"))
