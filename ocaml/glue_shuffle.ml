(* driver commands for coq/Shuffle.v:
   (shuffle N F flips perm cperm)   each argument is  fixed | (given (z ...))
   -> (ok numvar clauses) | (valueerror "flips"|"variables"|"clauses") *)
open Model
open Sx

let sharg_of = function
  | A "fixed" -> ShFixed
  | L [A "given"; l] -> ShGiven (to_zl l)
  | _ -> raise (Bad "sharg: fixed | (given (...))")

let () =
  register "shuffle" (function
    | [n; f; fl; pm; cp] ->
      (match shuffle (to_z n) (to_cnf f) (sharg_of fl) (sharg_of pm) (sharg_of cp) with
       | ShOk (nv, out) -> L [A "ok"; of_z nv; of_cnf out]
       | ShErrFlips -> L [A "valueerror"; Q "flips"]
       | ShErrVars -> L [A "valueerror"; Q "variables"]
       | ShErrClauses -> L [A "valueerror"; Q "clauses"])
    | _ -> raise (Bad "arity"));
  register "count_models" (function
    | [n; f] -> of_nat (count_models (to_z n) (to_cnf f))
    | _ -> raise (Bad "arity"))
