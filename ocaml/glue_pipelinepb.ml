(* driver commands of the whole-program model of `pbgen` (coq/PipelinePb.v, property C08/C17).
     (pb_pipeline ("-q" "php" "3" "2"))      ->  (out "* #variable= ...")  | (clierror) | (crash) | (outside)
     (pb_pipeline_env "VERSION" ARGV)        the program with or without -q
     (pb_pipeline_formula ARGV)              ->  (ok numvar constraints) | (clierror) | (crash) | (outside)
   ARGV is sys.argv[1:] as a list of quoted strings. *)
open Model
open Sx

let plb_of_result = function
  | POut t -> L [A "out"; of_chars t]
  | PCliError -> L [A "clierror"]
  | PCrash -> L [A "crash"]
  | POutside -> L [A "outside"]
let plb_of_fres = function
  | PbOk (n, c) -> L [A "ok"; of_z n; Sxlib_ir.of_opb c]
  | PbErr -> L [A "clierror"]
  | PbCrash -> L [A "crash"]
  | PbOutside -> L [A "outside"]
let plb_to_argv = to_list to_chars

let () =
  register "pb_pipeline" (function [argv] -> plb_of_result (pbgen_main (plb_to_argv argv)) | _ -> raise (Bad "arity"));
  register "pb_pipeline_env" (function [v; argv] -> plb_of_result (pbgen_main_env (to_chars v) (plb_to_argv argv)) | _ -> raise (Bad "arity"));
  register "pb_pipeline_formula" (function [argv] -> plb_of_fres (plb_formula (plb_to_argv argv)) | _ -> raise (Bad "arity"))
