(* driver commands of the C03 families (contradictions and Ramsey-type benchmarks).
   Reply: (numvar clauses opb_constraints)  or  (raises "<ExceptionClass>"). *)
open Model
open Sx
open Sxlib_ir

let exn_name = function
  | C3ValueError -> "ValueError" | C3ZeroDivisionError -> "ZeroDivisionError"
  | C3IndexError -> "IndexError" | C3NetworkXError -> "NetworkXError"
let reply = function
  | C3Ok (nv, irs) -> formula_reply nv irs
  | C3Err e -> L [A "raises"; Q (exn_name e)]
let to_zll = to_list to_zl
let to_edges = to_list (to_pair to_z to_z)
let variant x = match to_str x with
  | "as_is" -> false | "spec" -> true | s -> raise (Bad ("variant " ^ s))
(* pitfall: (repaired shift, argument checks of commit cc7a963) *)
let variant2 x = match to_str x with
  | "as_is" -> (false, true) | "spec" -> (true, true)
  | "as_is_unvalidated" -> (false, false) | "spec_unvalidated" -> (true, false)
  | s -> raise (Bad ("variant " ^ s))

let () =
  register "fam_op" (function [n; t; s; p; kn] -> reply (op_formula (to_z n) (to_bool t) (to_bool s) (to_bool p) (to_z kn)) | _ -> raise (Bad "arity"));
  register "fam_gop" (function [nb; t; s; p; kn] -> reply (gop_formula (to_zll nb) (to_bool t) (to_bool s) (to_bool p) (to_z kn)) | _ -> raise (Bad "arity"));
  register "fam_peb" (function [d] -> reply (peb_formula (to_zll d)) | _ -> raise (Bad "arity"));
  register "fam_stone" (function [d; r] -> reply (stone_formula (to_zll d) (to_z r)) | _ -> raise (Bad "arity"));
  register "fam_sstone" (function [d; b; r] -> reply (sstone_formula (to_zll d) (to_zll b) (to_z r)) | _ -> raise (Bad "arity"));
  register "fam_cpls" (function [a; b; c] -> reply (cpls_formula (to_z a) (to_z b) (to_z c)) | _ -> raise (Bad "arity"));
  register "fam_pitfall" (function [var; v; d; ny; nz; k; e] ->
      let (fx, vl) = variant2 var in
      reply (pitfall_formula fx vl (to_z v) (to_z d) (to_z ny) (to_z nz) (to_z k) (to_edges e)) | _ -> raise (Bad "arity"));
  register "fam_ram" (function [s; k; n] -> reply (ram_formula (to_z s) (to_z k) (to_z n)) | _ -> raise (Bad "arity"));
  register "fam_vdw" (function [var; n; ks] ->
      reply ((if variant var then vdw_spec_formula else vdw_formula) (to_z n) (to_zl ks)) | _ -> raise (Bad "arity"));
  register "fam_ptn" (function [n] -> reply (ptn_formula (to_z n)) | _ -> raise (Bad "arity"))
