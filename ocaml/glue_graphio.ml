(* driver commands of property C14: graph file readers / writers (coq/GraphIO.v, coq/GText.v) *)
open Model
open Sx

let kind_of = function
  | "simple" -> GioSimple | "directed" -> GioDirected | "bipartite" -> GioBipartite
  | s -> raise (Bad ("kind " ^ s))
let kind_str = function GioSimple -> "simple" | GioDirected -> "directed" | GioBipartite -> "bipartite"
let gtype_of = function
  | "simple" -> TSimple | "digraph" -> TDigraph | "dag" -> TDag | "bipartite" -> TBipartite
  | s -> raise (Bad ("graph type " ^ s))
let fmt_of = function
  | "kthlist" -> FKthlist | "gml" -> FGml | "dot" -> FDot | "dimacs" -> FDimacs | "matrix" -> FMatrix
  | s -> raise (Bad ("format " ^ s))
let exn_str = function
  | EValueError -> "ValueError" | EStopIteration -> "StopIteration" | EIndexError -> "IndexError"
  | ETypeError -> "TypeError" | ENotModelled -> "NotModelled"

let of_graph (g : iograph) =
  L [A (kind_str g.io_kind); of_chars g.io_name; of_z g.io_n; of_z g.io_r; of_list (of_pair of_z of_z) g.io_edges]
let to_graph = function
  | L [k; nm; n; r; es] ->
    { io_kind = kind_of (to_str k); io_name = to_chars nm; io_n = to_z n; io_r = to_z r;
      io_edges = to_list (to_pair to_z to_z) es }
  | _ -> raise (Bad "graph")
let of_res f = function
  | GOk a -> L [A "ok"; f a]
  | GRaise e -> L [A "raise"; Q (exn_str e)]

let () =
  register "gio_read" (function [hd; t; f; txt] ->
      of_res of_graph (gio_read_graph (to_bool hd) (gtype_of (to_str t)) (fmt_of (to_str f)) (to_chars txt))
                               | _ -> raise (Bad "arity"));
  (* the readers as found, before the repairs of D6, D7, D8 *)
  register "gio_read_as_found" (function [hd; t; f; txt] ->
      of_res of_graph (gio_read_graph_as_found (to_bool hd) (gtype_of (to_str t)) (fmt_of (to_str f)) (to_chars txt))
                               | _ -> raise (Bad "arity"));
  register "gio_write" (function [hd; t; f; g] ->
      of_res of_chars (gio_write_graph (to_bool hd) (gtype_of (to_str t)) (fmt_of (to_str f)) (to_graph g))
                                | _ -> raise (Bad "arity"));
  register "gio_dot" (function [g] -> of_opt (of_res of_graph) (gio_dot_roundtrip (to_graph g)) | _ -> raise (Bad "arity"));
  register "gio_dot_as_found" (function [g] -> of_opt (of_res of_graph) (gio_dot_roundtrip_as_found (to_graph g)) | _ -> raise (Bad "arity"));
  (* cnfgen's step after read_dot on arbitrary labels: kind name nodes edges *)
  register "gio_dot_norm" (function [k; nm; nodes; edges] ->
      of_opt (of_res of_graph)
        (gio_dot_normalize (kind_of (to_str k)) (to_chars nm) (to_list to_chars nodes)
           (to_list (to_pair to_chars to_chars) edges))
                                   | _ -> raise (Bad "arity"));
  register "gio_dot_norm_as_found" (function [k; nm; nodes; edges] ->
      of_opt (of_res of_graph)
        (gio_dot_normalize_as_found (kind_of (to_str k)) (to_chars nm) (to_list to_chars nodes)
           (to_list (to_pair to_chars to_chars) edges))
                                   | _ -> raise (Bad "arity"));
  register "gio_dot_bip_norm" (function [nm; nodes; edges] ->
      of_opt (of_res of_graph)
        (gio_dot_bip_normalize (to_chars nm) (to_list (to_pair to_chars to_z) nodes)
           (to_list (to_pair to_chars to_chars) edges))
                                       | _ -> raise (Bad "arity"));
  register "gio_gml" (function [g] -> of_opt (of_res of_graph) (gio_gml_roundtrip (to_graph g)) | _ -> raise (Bad "arity"));
  (* from_networkx on string labels: kind name nodes edges *)
  register "gio_from_nx_str" (function [k; nm; nodes; edges] ->
      of_opt (of_res of_graph)
        (gio_from_nx gt_str_ltb gt_str_eqb (kind_of (to_str k)) (to_chars nm) (to_list to_chars nodes)
           (to_list (to_pair to_chars to_chars) edges))
                                      | _ -> raise (Bad "arity"));
  register "gio_bip_from_nx_str" (function [nm; nodes; edges] ->
      of_res of_graph
        (gio_bip_from_nx gt_str_eqb (to_chars nm) (to_list (to_pair to_chars to_z) nodes)
           (to_list (to_pair to_chars to_chars) edges))
                                          | _ -> raise (Bad "arity"));
  (* from_networkx on integer labels (gml ids): kind name nodes edges *)
  register "gio_from_nx_int" (function [k; nm; nodes; edges] ->
      of_opt (of_res of_graph)
        (gio_from_nx Z.ltb Z.eqb (kind_of (to_str k)) (to_chars nm) (to_list to_z nodes)
           (to_list (to_pair to_z to_z) edges))
                                      | _ -> raise (Bad "arity"));
  register "gio_bip_from_nx_int" (function [nm; nodes; edges] ->
      of_res of_graph
        (gio_bip_from_nx Z.eqb (to_chars nm) (to_list (to_pair to_z to_z) nodes)
           (to_list (to_pair to_z to_z) edges))
                                          | _ -> raise (Bad "arity"));
  (* primitives *)
  register "gt_int" (function [s] -> of_opt of_z (gt_int (to_chars s)) | _ -> raise (Bad "arity"));
  register "gt_print" (function [z] -> of_chars (gt_print_Z (to_z z)) | _ -> raise (Bad "arity"));
  register "gt_split" (function [s] -> of_list of_chars (gt_split_ws (to_chars s)) | _ -> raise (Bad "arity"));
  register "gt_split_on" (function [c; s] ->
      (match to_chars c with [ch] -> of_list of_chars (gt_split_on ch (to_chars s)) | _ -> raise (Bad "separator"))
                                  | _ -> raise (Bad "arity"));
  register "gt_lines" (function [s] -> of_list of_chars (gt_lines (to_chars s)) | _ -> raise (Bad "arity"));
  register "gt_strip" (function [s] -> of_chars (gt_strip (to_chars s)) | _ -> raise (Bad "arity"))
