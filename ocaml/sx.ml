(* S-expressions and conversions between OCaml values and the extracted model's
   datatypes (Z, positive, nat stay the extracted inductive types). *)
open Model

type sx = A of string | Q of string | L of sx list   (* atom | quoted string | list *)

exception Bad of string

(* ---- parsing ---- *)
let parse (s : string) : sx =
  let n = String.length s in
  let pos = ref 0 in
  let rec skip () = if !pos < n && (s.[!pos] = ' ' || s.[!pos] = '\t' || s.[!pos] = '\n' || s.[!pos] = '\r') then (incr pos; skip ()) in
  let rec item () =
    skip ();
    if !pos >= n then raise (Bad "eof")
    else if s.[!pos] = '(' then begin
      incr pos;
      let acc = ref [] in
      let rec loop () =
        skip ();
        if !pos >= n then raise (Bad "unclosed")
        else if s.[!pos] = ')' then incr pos
        else (acc := item () :: !acc; loop ()) in
      loop (); L (List.rev !acc)
    end else if s.[!pos] = '"' then begin
      incr pos;
      let b = Buffer.create 16 in
      let rec loop () =
        if !pos >= n then raise (Bad "unclosed string")
        else match s.[!pos] with
          | '"' -> incr pos
          | '\\' ->
            (match s.[!pos+1] with
             | 'n' -> Buffer.add_char b '\n'; pos := !pos + 2
             | 't' -> Buffer.add_char b '\t'; pos := !pos + 2
             | 'r' -> Buffer.add_char b '\r'; pos := !pos + 2
             | 'x' -> Buffer.add_char b (Char.chr (int_of_string ("0x" ^ String.sub s (!pos+2) 2))); pos := !pos + 4
             | c -> Buffer.add_char b c; pos := !pos + 2);
            loop ()
          | c -> Buffer.add_char b c; incr pos; loop () in
      loop (); Q (Buffer.contents b)
    end else begin
      let st = !pos in
      while !pos < n && not (List.mem s.[!pos] [' '; '\t'; '\n'; '\r'; '('; ')']) do incr pos done;
      A (String.sub s st (!pos - st))
    end in
  item ()

let escape (s : string) : string =
  let b = Buffer.create (String.length s + 2) in
  Buffer.add_char b '"';
  String.iter (fun c -> match c with
      | '"' -> Buffer.add_string b "\\\""
      | '\\' -> Buffer.add_string b "\\\\"
      | '\n' -> Buffer.add_string b "\\n"
      | '\t' -> Buffer.add_string b "\\t"
      | '\r' -> Buffer.add_string b "\\r"
      | c when Char.code c < 32 || Char.code c > 126 -> Buffer.add_string b (Printf.sprintf "\\x%02x" (Char.code c))
      | c -> Buffer.add_char b c) s;
  Buffer.add_char b '"'; Buffer.contents b

let rec print (b : Buffer.t) (x : sx) : unit =
  match x with
  | A s -> Buffer.add_string b s
  | Q s -> Buffer.add_string b (escape s)
  | L l -> Buffer.add_char b '(';
    List.iteri (fun i y -> if i > 0 then Buffer.add_char b ' '; print b y) l;
    Buffer.add_char b ')'

(* ---- integers ---- *)
let rec pos_of_int (n : int) : positive =
  if n = 1 then XH else if n land 1 = 0 then XO (pos_of_int (n lsr 1)) else XI (pos_of_int (n lsr 1))
let z_of_int (n : int) : z = if n = 0 then Z0 else if n > 0 then Zpos (pos_of_int n) else Zneg (pos_of_int (-n))
let rec int_of_pos (p : positive) : int = match p with XH -> 1 | XO q -> 2 * int_of_pos q | XI q -> 2 * int_of_pos q + 1
let int_of_z (x : z) : int = match x with Z0 -> 0 | Zpos p -> int_of_pos p | Zneg p -> - (int_of_pos p)
let rec nat_of_int (n : int) : nat = let rec go n acc = if n <= 0 then acc else go (n-1) (Model.S acc) in go n O
let int_of_nat (n : nat) : int = let rec go n acc = match n with Model.O -> acc | Model.S m -> go m (acc+1) in go n 0

(* ---- decoders ---- *)
let to_int = function A s -> (try int_of_string s with _ -> raise (Bad ("int: " ^ s))) | _ -> raise (Bad "int expected")
let to_z x = z_of_int (to_int x)
let to_nat x = nat_of_int (to_int x)
let to_bool = function A "true" | A "1" -> true | A "false" | A "0" -> false | _ -> raise (Bad "bool expected")
let to_list f = function L l -> List.map f l | _ -> raise (Bad "list expected")
let to_pair f g = function L [a; b] -> (f a, g b) | _ -> raise (Bad "pair expected")
let to_sym = function A s -> s | _ -> raise (Bad "symbol expected")
let to_str = function Q s -> s | A s -> s | _ -> raise (Bad "string expected")
let to_chars x = List.of_seq (String.to_seq (to_str x))
let to_opt f = function A "none" -> None | L [A "some"; x] -> Some (f x) | _ -> raise (Bad "option expected")

(* ---- encoders ---- *)
let of_int n = A (string_of_int n)
let of_z x = of_int (int_of_z x)
let of_nat n = of_int (int_of_nat n)
let of_bool b = A (if b then "true" else "false")
let of_list f l = L (List.map f l)
let of_pair f g (a, b) = L [f a; g b]
let of_chars cs = Q (String.of_seq (List.to_seq cs))
let of_opt f = function None -> A "none" | Some x -> L [A "some"; f x]
let of_zl = of_list of_z
let of_cnf = of_list of_zl
let to_zl = to_list to_z
let to_cnf = to_list to_zl

(* ---- command table ---- *)
let table : (string, sx list -> sx) Hashtbl.t = Hashtbl.create 64
let register (name : string) (f : sx list -> sx) : unit = Hashtbl.replace table name f
