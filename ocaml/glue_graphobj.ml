(* Driver commands for the graph-object state machines (coq/GraphObj.v).

   (graph_run KIND A B (OP ...))       KIND = simple | directed | bipartite ; A = n or L ; B = R (ignored otherwise)
       OP = (add u v) | (remove u v) | (raise k) | (addfrom ((u v) ...))
     -> (init-error)                                    the constructor raises ValueError
      | (ok VIEW ((OUTCOME VIEW) ...))                  snapshot after construction, then outcome and snapshot per op
   (graph_roundtrip KIND A B (OP ...)) run the ops, then to_networkx / from_networkx on the model
     -> (init-error) | (ok OUTCOME VIEW)
   VIEW = (order count edges edges2 has nbr1 nbr2 deg1 deg2 dag), has = positions (row col) of the true entries of the
   has_edge matrix over the query range -1 .. n+2 (position p = vertex p - 1) ; OUTCOME = ok | ValueError | NoMethod | Crash
   (graph_probe KIND A B Q ((OP Q) ...))   the same run with views restricted to the queries the caller names (large graphs:
       the full has_edge matrix is quadratic); Q = (FULL (u ...) (v ...) ((u v) ...))
     -> (init-error) | (ok PVIEW ((OUTCOME PVIEW) ...))
   PVIEW = (order count edges edges2 has nbr1 nbr2 deg1 deg2 dag): edges / edges2 are (some LISTING) when FULL is true and none
   otherwise; has = has_edge on the listed pairs (booleans, in order); nbr1 / deg1 = neighbors|successors|right_neighbors and
   degree|out_degree|right_degree on the first vertex list; nbr2 / deg2 = --|predecessors|left_neighbors and --|in_degree|
   left_degree on the second one (empty for simple graphs).  Only view functions of coq/GraphObj.v are called. *)
open Model
open Sx

let kind_of = function
  | "simple" -> KSimple | "directed" -> KDirected | "bipartite" -> KBipartite
  | s -> raise (Bad ("graph kind " ^ s))

let op_of = function
  | L [A "add"; u; v] -> AddEdge (to_z u, to_z v)
  | L [A "remove"; u; v] -> RemoveEdge (to_z u, to_z v)
  | L [A "raise"; k] -> RaiseN (to_z k)
  | L [A "addfrom"; l] -> AddEdgesFrom (to_list (to_pair to_z to_z) l)
  | _ -> raise (Bad "graph op")

let of_outcome = function Ok -> A "ok" | ValueError -> A "ValueError" | NoMethod -> A "NoMethod" | Crash -> A "Crash"
let of_edges = of_list (of_pair of_z of_z)
(* the has_edge matrix as the list of (row col) positions that are true; position p stands for vertex p - 1 *)
let of_has (m : bool list list) =
  let acc = ref [] in
  List.iteri (fun i row -> List.iteri (fun j b -> if b then acc := L [of_int i; of_int j] :: !acc) row) m;
  L (List.rev !acc)
let of_view (v : view) =
  L [of_z v.vw_order; of_z v.vw_count; of_edges v.vw_edges; of_edges v.vw_edges2;
     of_has v.vw_has;
     of_list (of_opt of_zl) v.vw_nbr1; of_list (of_opt of_zl) v.vw_nbr2;
     of_list (of_opt of_z) v.vw_deg1; of_list (of_opt of_z) v.vw_deg2; of_bool v.vw_dag]

let to_query = function
  | L [full; qu; qv; pairs] -> (to_bool full, to_zl qu, to_zl qv, to_list (to_pair to_z to_z) pairs)
  | _ -> raise (Bad "graph query")

let probe_view (st : anystate) (full, qu, qv, pairs) =
  let opt_edges f = if full then L [A "some"; of_edges (f ())] else A "none" in
  let nb f q = of_list (of_opt of_zl) (List.map f q) and dg f q = of_list (of_opt of_z) (List.map f q) in
  let hs f = of_list (fun (u, v) -> of_bool (f u v)) pairs in
  match st with
  | SG s -> L [of_z s.g_n; of_z s.g_m; opt_edges (fun () -> g_edges s); opt_edges (fun () -> []); hs (g_has_edge s);
               nb (g_neighbors s) qu; L []; dg (g_degree s) qu; L []; of_bool false]
  | SD s -> L [of_z s.d_n; of_z s.d_m; opt_edges (fun () -> d_edges s); opt_edges (fun () -> d_edges_by_dest s); hs (d_has_edge s);
               nb (d_successors s) qu; nb (d_predecessors s) qv; dg (d_out_degree s) qu; dg (d_in_degree s) qv; of_bool s.d_dag]
  | SB s -> L [of_z (Z.add s.b_l s.b_r); of_z (b_number_of_edges s); opt_edges (fun () -> b_edges s); opt_edges (fun () -> []);
               hs (b_has_edge s); nb (b_right_neighbors s) qu; nb (b_left_neighbors s) qv;
               dg (b_right_degree s) qu; dg (b_left_degree s) qv; of_bool false]

let rec probe_trace st = function
  | [] -> []
  | (o, q) :: r -> let (st', out) = any_step st o in L [of_outcome out; probe_view st' q] :: probe_trace st' r

let rec run_all s = function
  | [] -> s
  | o :: r -> run_all (fst (any_step s o)) r

let () =
  register "graph_run" (function
      | [k; a; b; ops] ->
        (match graph_run (kind_of (to_sym k)) (to_z a) (to_z b) (to_list op_of ops) with
         | None -> L [A "init-error"]
         | Some (v0, tr) -> L [A "ok"; of_view v0; of_list (fun (o, v) -> L [of_outcome o; of_view v]) tr])
      | _ -> raise (Bad "arity"));
  register "graph_probe" (function
      | [k; a; b; q0; steps] ->
        (match any_init (kind_of (to_sym k)) (to_z a) (to_z b) with
         | None -> L [A "init-error"]
         | Some s ->
           let steps = to_list (function L [o; q] -> (op_of o, to_query q) | _ -> raise (Bad "graph step")) steps in
           L [A "ok"; probe_view s (to_query q0); L (probe_trace s steps)])
      | _ -> raise (Bad "arity"));
  register "graph_roundtrip" (function
      | [k; a; b; ops] ->
        (match any_init (kind_of (to_sym k)) (to_z a) (to_z b) with
         | None -> L [A "init-error"]
         | Some s ->
           (match any_roundtrip (run_all s (to_list op_of ops)) with
            | None -> L [A "init-error"]
            | Some (o, v) -> L [A "ok"; of_outcome o; of_view v]))
      | _ -> raise (Bad "arity"))
