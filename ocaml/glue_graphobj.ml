(* Driver commands for the graph-object state machines (coq/GraphObj.v).

   (graph_run KIND A B (OP ...))       KIND = simple | directed | bipartite ; A = n or L ; B = R (ignored otherwise)
       OP = (add u v) | (remove u v) | (raise k) | (addfrom ((u v) ...))
     -> (init-error)                                    the constructor raises ValueError
      | (ok VIEW ((OUTCOME VIEW) ...))                  snapshot after construction, then outcome and snapshot per op
   (graph_roundtrip KIND A B (OP ...)) run the ops, then to_networkx / from_networkx on the model
     -> (init-error) | (ok OUTCOME VIEW)
   VIEW = (order count edges edges2 has nbr1 nbr2 deg1 deg2 dag), has = positions (row col) of the true entries of the
   has_edge matrix over the query range -1 .. n+2 (position p = vertex p - 1) ; OUTCOME = ok | ValueError | NoMethod | Crash *)
open Model
open Sx

let kind_of = function
  | "simple" -> KSimple | "directed" -> KDirected | "bipartite" -> KBipartite
  | s -> raise (Bad ("graph kind " ^ s))

let op_of = function
  | L [A "add"; u; v] -> AddEdge (to_z u, to_z v)
  | L [A "remove"; u; v] -> RemoveEdge (to_z u, to_z v)
  | L [A "raise"; k] -> RaiseN (to_z k)
  | L [A "addfrom"; l] -> AddEdgesFrom (to_list (to_pair to_z to_z) l)
  | _ -> raise (Bad "graph op")

let of_outcome = function Ok -> A "ok" | ValueError -> A "ValueError" | NoMethod -> A "NoMethod" | Crash -> A "Crash"
let of_edges = of_list (of_pair of_z of_z)
(* the has_edge matrix as the list of (row col) positions that are true; position p stands for vertex p - 1 *)
let of_has (m : bool list list) =
  let acc = ref [] in
  List.iteri (fun i row -> List.iteri (fun j b -> if b then acc := L [of_int i; of_int j] :: !acc) row) m;
  L (List.rev !acc)
let of_view (v : view) =
  L [of_z v.vw_order; of_z v.vw_count; of_edges v.vw_edges; of_edges v.vw_edges2;
     of_has v.vw_has;
     of_list (of_opt of_zl) v.vw_nbr1; of_list (of_opt of_zl) v.vw_nbr2;
     of_list (of_opt of_z) v.vw_deg1; of_list (of_opt of_z) v.vw_deg2; of_bool v.vw_dag]

let rec run_all s = function
  | [] -> s
  | o :: r -> run_all (fst (any_step s o)) r

let () =
  register "graph_run" (function
      | [k; a; b; ops] ->
        (match graph_run (kind_of (to_sym k)) (to_z a) (to_z b) (to_list op_of ops) with
         | None -> L [A "init-error"]
         | Some (v0, tr) -> L [A "ok"; of_view v0; of_list (fun (o, v) -> L [of_outcome o; of_view v]) tr])
      | _ -> raise (Bad "arity"));
  register "graph_roundtrip" (function
      | [k; a; b; ops] ->
        (match any_init (kind_of (to_sym k)) (to_z a) (to_z b) with
         | None -> L [A "init-error"]
         | Some s ->
           (match any_roundtrip (run_all s (to_list op_of ops)) with
            | None -> L [A "init-error"]
            | Some (o, v) -> L [A "ok"; of_outcome o; of_view v]))
      | _ -> raise (Bad "arity"))
