open Model
open Sx
let outcome_str = function OFormula -> "OFormula" | OCliError -> "OCliError" | OCrash -> "OCrash"
let () =
  register "run_cli" (function [planted; name; args] ->
      A (outcome_str (run_cli (Model.table (to_bool planted)) (to_chars name) (to_list (to_opt to_z) args)))
    | _ -> raise (Bad "arity"));
  register "run_cli_as_found" (function [planted; name; args] ->
      A (outcome_str (run_cli (table_as_found (to_bool planted)) (to_chars name) (to_list (to_opt to_z) args)))
    | _ -> raise (Bad "arity"));
  register "split_T" (function [argv] -> of_list (of_list of_chars) (split_T (to_list to_chars argv)) | _ -> raise (Bad "arity"))
