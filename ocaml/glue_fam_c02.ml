(* driver commands of the graph-problem families (property C02).
   A graph is passed as  n ((u v) ...)  : order and sorted edge list (u < v).
   Reply: (numvar clauses opb_constraints), or (raises "ValueError") when the
   model says the generator raises ValueError. *)
open Model
open Sx
open Sxlib_ir

let to_edges = to_list (to_pair to_z to_z)
(* same reply as Sxlib_ir.formula_reply, through the pruned rendering to_cnf_f (coq/FamFastFacts.v:
   to_cnf_f l = to_cnf l), as the C01 commands do: to_cnf enumerates all subsets for a cardinality constraint,
   which is exponential in the degree of a hub (Tiling on a star with 33 vertices did not finish) *)
let formula_reply (numvar : z) (irs : ir list) : sx =
  L [of_z numvar; of_cnf (Model.to_cnf_f irs); of_opb (Model.to_opb irs)]
let raises = L [A "raises"; Q "ValueError"]
let reply_opt nv = function None -> raises | Some irs -> formula_reply nv irs
let bad_arity = Bad "arity"

let () =
  register "fam_tseitin" (function
      | [n; e; ch] ->
        let ch = to_opt (to_list to_bool) ch in
        formula_reply (tseitin_numvar (to_edges e)) (tseitin_ir (to_z n) (to_edges e) ch)
      | _ -> raise bad_arity);
  register "fam_kcolor" (function
      | [n; e; k; fn] -> reply_opt (kcolor_numvar (to_z n) (to_z k)) (kcolor_ir (to_z n) (to_edges e) (to_z k) (to_bool fn))
      | _ -> raise bad_arity);
  register "fam_ec" (function
      | [n; e] -> reply_opt (ec_numvar (to_edges e)) (ec_ir (to_z n) (to_edges e))
      | _ -> raise bad_arity);
  register "fam_domset" (function
      | [n; e; d; alt] -> reply_opt (domset_numvar (to_z n) (to_z d)) (domset_ir (to_z n) (to_edges e) (to_z d) (to_bool alt))
      | _ -> raise bad_arity);
  register "fam_tiling" (function
      | [n; e] -> formula_reply (tiling_numvar (to_z n)) (tiling_ir (to_z n) (to_edges e))
      | _ -> raise bad_arity);
  (* (fam_iso n1 E1 n2 E2) isomorphism;  (fam_iso n E) automorphism *)
  register "fam_iso" (function
      | [n1; e1; n2; e2] -> formula_reply (iso_numvar (to_z n1) (to_z n2)) (iso_ir (to_z n1) (to_edges e1) (to_z n2) (to_edges e2))
      | [n; e] -> formula_reply (iso_numvar (to_z n) (to_z n)) (auto_ir (to_z n) (to_edges e))
      | _ -> raise bad_arity);
  register "fam_iso_nontrivial" (function
      | [n1; e1; n2; e2] -> formula_reply (iso_numvar (to_z n1) (to_z n2)) (iso_nontrivial_ir (to_z n1) (to_edges e1) (to_z n2) (to_edges e2))
      | _ -> raise bad_arity);
  (* (fam_subgraph N EG k EH induced symbreak) *)
  register "fam_subgraph" (function
      | [n; eg; k; eh; ind; sb] ->
        formula_reply (subgraph_numvar (to_z n) (to_z k))
          (subgraph_ir (to_z n) (to_edges eg) (to_z k) (to_edges eh) (to_bool ind) (to_bool sb))
      | _ -> raise bad_arity);
  register "fam_kclique" (function
      | [n; e; k; sb] -> reply_opt (kclique_numvar (to_z n) (to_z k)) (kclique_ir (to_z n) (to_edges e) (to_z k) (to_bool sb))
      | _ -> raise bad_arity);
  register "fam_kcliquebin" (function
      | [n; e; k; sb] -> reply_opt (kcliquebin_numvar (to_z n) (to_z k)) (kcliquebin_ir (to_z n) (to_edges e) (to_z k) (to_bool sb))
      | _ -> raise bad_arity);
  (* (fam_ramlb N E k s symbreak variant)  variant = as_is | spec *)
  register "fam_ramlb" (function
      | [n; e; k; s; sb; A "as_is"] ->
        reply_opt (ramlb_as_is_numvar (to_z n) (to_z k) (to_z s)) (ramlb_as_is (to_z n) (to_edges e) (to_z k) (to_z s) (to_bool sb))
      | [n; e; k; s; sb; A "spec"] ->
        reply_opt (ramlb_spec_numvar (to_z n) (to_z k) (to_z s)) (ramlb_spec (to_z n) (to_edges e) (to_z k) (to_z s) (to_bool sb))
      | _ -> raise bad_arity);
  register "graph_wf" (function [n; e] -> of_bool (graph_wf (to_z n) (to_edges e)) | _ -> raise bad_arity)
