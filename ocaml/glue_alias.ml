(* driver command for coq/Alias.v (aliasing model of property C19):
   (alias_trace ITER_LIVE PAIR_LIVE (OP ...))  ->  ((RES (OBJ ...) (HELD ...)) ...)   one entry per operation, the state AFTER it
     ITER_LIVE  true = iteration / slices hand out the stored lists (code as found), false = copies
     PAIR_LIVE  true = add_constraint keeps a pair given as a list by reference (code as found), false = fresh tuples
     OP    (newlist (z ...)) | (newpb (TERM ...) "op" d) | (newformula KIND HDR) | (newfrom KIND HDR (h ...))
         | (addclause f h CHECK) | (addclauses f (h ...) CHECK) | (addlinear f h "op" c CHECK) | (addparity f h c CHECK)
         | (addconstraint f h CHECK) | (addconstraints f (h ...) CHECK)
         | (getitem f i) | (iter f) | (slice f a b) | (hdrset f KEY "v") | (hdrdel f KEY)
         | (transform T f)   T = (flip) | (xor k) | (or k) | (shuffle OPT OPT OPT)   OPT = none | (some h)
         | (mut h M)         M = (append x) (set i x) (neg i) (clear) (pop) (reverse) (termset i c l) (termins c l) (termdel) (setop "op") (setdeg d)
     TERM  (t c l) | (r h)          KIND cnf | opb         KEY (t i) | (o "s")       HDR ((KEY "v") ...)
     RES   ok | err | bad
     OBJ   (KIND numvar (CVAL ...) HDR)       CVAL (l z ...) | (p ((z ...) ...) "op" d)
     HELD  CVAL of every list the client holds, by handle *)
open Model
open Sx
open Sxlib_ir

let to_key = function
  | L [A "t"; i] -> KT (to_nat i)
  | L [A "o"; s] -> KO (to_chars s)
  | _ -> raise (Bad "header key")
let of_key = function
  | KT i -> L [A "t"; of_nat i]
  | KO s -> L [A "o"; of_chars s]
let to_hdr = to_list (to_pair to_key to_chars)
let of_hdr = of_list (of_pair of_key of_chars)
let to_kind = function A "cnf" -> KCnf | A "opb" -> KOpb | _ -> raise (Bad "kind")
let of_kind = function KCnf -> A "cnf" | KOpb -> A "opb"
let to_term = function
  | L [A "t"; c; l] -> TsTup (to_z c, to_z l)
  | L [A "r"; h] -> TsRef (to_nat h)
  | _ -> raise (Bad "term")
let to_mut = function
  | L [A "append"; x] -> MAppend (to_z x)
  | L [A "set"; i; x] -> MSet (to_nat i, to_z x)
  | L [A "neg"; i] -> MNeg (to_nat i)
  | L [A "clear"] -> MClear
  | L [A "pop"] -> MPop
  | L [A "reverse"] -> MReverse
  | L [A "termset"; i; c; l] -> MTermSet (to_nat i, to_z c, to_z l)
  | L [A "termins"; c; l] -> MTermIns (to_z c, to_z l)
  | L [A "termdel"] -> MTermDel
  | L [A "setop"; o] -> MSetOp (pbop_of (to_str o))
  | L [A "setdeg"; d] -> MSetDeg (to_z d)
  | _ -> raise (Bad "mutation")
let to_transf = function
  | L [A "flip"] -> TFlip
  | L [A "xor"; k] -> TXor (to_z k)
  | L [A "or"; k] -> TOr (to_z k)
  | L [A "shuffle"; a; b; c] -> TShuffle (to_opt to_nat a, to_opt to_nat b, to_opt to_nat c)
  | _ -> raise (Bad "transformation")
let to_aop = function
  | L [A "newlist"; xs] -> ONewList (to_zl xs)
  | L [A "newpb"; ts; o; d] -> ONewPb (to_list to_term ts, pbop_of (to_str o), to_z d)
  | L [A "newformula"; k; h] -> ONewFormula (to_kind k, to_hdr h)
  | L [A "newfrom"; k; h; hs] -> ONewFrom (to_kind k, to_hdr h, to_list to_nat hs)
  | L [A "addclause"; f; h; c] -> OAddClause (to_nat f, to_nat h, to_bool c)
  | L [A "addclauses"; f; hs; c] -> OAddClausesFrom (to_nat f, to_list to_nat hs, to_bool c)
  | L [A "addlinear"; f; h; o; c; ck] -> OAddLinear (to_nat f, to_nat h, cop_of (to_str o), to_z c, to_bool ck)
  | L [A "addparity"; f; h; c; ck] -> OAddParity (to_nat f, to_nat h, to_z c, to_bool ck)
  | L [A "addconstraint"; f; h; c] -> OAddConstraint (to_nat f, to_nat h, to_bool c)
  | L [A "addconstraints"; f; hs; c] -> OAddConstraintsFrom (to_nat f, to_list to_nat hs, to_bool c)
  | L [A "getitem"; f; i] -> OGetItem (to_nat f, to_nat i)
  | L [A "iter"; f] -> OIter (to_nat f)
  | L [A "slice"; f; a; b] -> OSlice (to_nat f, to_nat a, to_nat b)
  | L [A "hdrset"; f; k; v] -> OHdrSet (to_nat f, to_key k, to_chars v)
  | L [A "hdrdel"; f; k] -> OHdrDel (to_nat f, to_key k)
  | L [A "transform"; t; f] -> OTransform (to_transf t, to_nat f)
  | L [A "mut"; h; m] -> OMut (to_nat h, to_mut m)
  | _ -> raise (Bad "operation")
let of_cval = function
  | VLits xs -> L (A "l" :: List.map of_z xs)
  | VPb (ts, o, d) -> L [A "p"; of_list of_zl ts; Q (pbop_str o); of_z d]
let of_res = function AOk -> A "ok" | AErr -> A "err" | ABad -> A "bad"
let of_state (s : astate) : sx list =
  let n = List.length s.s_objs in
  let objs = List.init n (fun g ->
      match aval s (nat_of_int g) with
      | Some (((k, nv), cs), h) -> L [of_kind k; of_z nv; of_list of_cval cs; of_hdr h]
      | None -> A "none") in
  [L objs; of_list of_cval (client_view s)]

let () =
  register "alias_trace" (function
    | [li; lp; ops] ->
      let tr = al_trace { lv_iter = to_bool li; lv_pair = to_bool lp } al_init (to_list to_aop ops) in
      L (List.map (fun (s, r) -> L (of_res r :: of_state s)) tr)
    | _ -> raise (Bad "arity"))
