(* driver commands for Rand.v (property C13) *)
open Model
open Sx

let to_draw = function
  | L (A "s" :: idx) -> DSample (List.map to_nat idx)
  | L [A "c"; z] -> DChoice (to_z z)
  | L [A "i"; z] -> DInt (to_z z)
  | _ -> raise (Bad "draw")
let to_draws = to_list to_draw
let of_parity (x, b) = L [of_zl x; of_z b]
let of_rres f = function
  | ROk a -> L (A "ok" :: f a)
  | RValueError -> L [A "valueerror"]
  | ROracleEnd -> L [A "oracle_end"]
  | ROracleBad -> L [A "oracle_bad"]
let nleft s = of_int (List.length s)

let () =
  register "random_kcnf" (function [k; n; m; pl; ds] ->
      of_rres (fun ((nv, cl), rest) -> [of_z nv; of_cnf cl; nleft rest])
        (random_kcnf (to_z k) (to_z n) (to_z m) (to_cnf pl) (to_draws ds)) | _ -> raise (Bad "arity"));
  register "random_kxor" (function [k; n; m; pl; ds] ->
      of_rres (fun (((nv, ps), cl), rest) -> [of_z nv; of_list of_parity ps; of_cnf cl; nleft rest])
        (random_kxor (to_z k) (to_z n) (to_z m) (to_cnf pl) (to_draws ds)) | _ -> raise (Bad "arity"));
  register "rand_cmd" (function [k; n; m; p; ds] ->
      of_rres (fun ((nv, cl), rest) -> [of_z nv; of_cnf cl; nleft rest])
        (rand_cmd (to_z k) (to_z n) (to_z m) (to_bool p) (to_draws ds)) | _ -> raise (Bad "arity"));
  register "randxor_cmd" (function [k; n; m; p; ds] ->
      of_rres (fun (((nv, ps), cl), rest) -> [of_z nv; of_list of_parity ps; of_cnf cl; nleft rest])
        (randxor_cmd (to_z k) (to_z n) (to_z m) (to_bool p) (to_draws ds)) | _ -> raise (Bad "arity"));
  register "sample_clauses" (function [k; n; m; pl; ds] ->
      of_rres (fun (cl, rest) -> [of_cnf cl; nleft rest])
        (sample_clauses (to_z k) (to_z n) (to_z m) (to_cnf pl) (to_draws ds)) | _ -> raise (Bad "arity"));
  register "sample_parities" (function [k; n; m; pl; ds] ->
      of_rres (fun (ps, rest) -> [of_list of_parity ps; nleft rest])
        (sample_parities (to_z k) (to_z n) (to_z m) (to_cnf pl) (to_draws ds)) | _ -> raise (Bad "arity"));
  register "all_clauses" (function [k; n; pl] -> of_cnf (all_clauses (to_z k) (to_z n) (to_cnf pl)) | _ -> raise (Bad "arity"));
  register "all_good_parities" (function [k; n; pl] ->
      of_opt (of_list of_parity) (all_good_parities (to_z k) (to_z n) (to_cnf pl)) | _ -> raise (Bad "arity"));
  register "clause_satisfied" (function [c; pl] -> of_bool (clause_satisfied (to_zl c) (to_cnf pl)) | _ -> raise (Bad "arity"));
  register "parity_satisfied" (function [x; b; pl] -> of_opt of_bool (parity_satisfied (to_zl x) (to_z b) (to_cnf pl)) | _ -> raise (Bad "arity"))
