(* driver commands of the C01 families.  Reply: (numvar clauses opb_constraints), or
   (raises "ValueError") when the model's validity predicate fails (cnfgen raises
   ValueError on those arguments). *)
open Model
open Sx
open Sxlib_ir

(* same reply as Sxlib_ir.formula_reply, through the pruned rendering to_cnf_f
   (coq/FamFastFacts.v: to_cnf_f l = to_cnf l) *)
let formula_reply (numvar : z) (irs : ir list) : sx =
  L [of_z numvar; of_cnf (Model.to_cnf_f irs); of_opb (Model.to_opb irs)]

let raises = L [A "raises"; Q "ValueError"]
let to_adj = to_list to_zl
let to_edges = to_list (to_pair to_z to_z)

(* The range 1..n built from native integers.  Model.upto goes through Z.of_nat on a unary number and is
   quadratic in n (58 s for n = 66000).  gphp_ir_fast / subsetcard_ir_fast are the bodies of Model.gphp_ir /
   Model.subsetcard_ir (coq/Fam_php.v, Fam_subsetcard.v, FamTab.v sm_complete ... sm_functional) with that one function replaced; every
   other piece (tables, row_ids, col_ids, renderings) is the extracted code.  harness/c01.py compares the
   *_fast commands with fam_gphp / fam_subsetcard on every stream instance with R <= 3000, in every run, and
   uses them alone only for right sides of 65535 vertices and more. *)
let upto_fast (n : z) : z list = List.init (max 0 (int_of_z n)) (fun i -> z_of_int (i + 1))
let one = z_of_int 1
let two = z_of_int 2
let gphp_ir_fast adj r functional onto : ir list =
  let t = gphp_tab adj in
  let l = len adj in
  List.map (fun u -> IClause (row_ids t u)) (upto_fast l)
  @ (if onto then List.map (fun v -> IClause (col_ids t v)) (upto_fast r) else [])
  @ List.map (fun v -> ILin (col_ids t v, CLe, one)) (upto_fast r)
  @ (if functional then List.map (fun u -> ILin (row_ids t u, CLe, one)) (upto_fast l) else [])
let subsetcard_ir_fast adj r equalities : ir list =
  let t = subsetcard_tab adj in
  List.map (fun u -> let ls = row_ids t u in
             if equalities then ILin (ls, CEq, Z.div (Z.add (len ls) one) two) else ILooseMaj ls) (upto_fast (len adj))
  @ List.map (fun v -> let ls = col_ids t v in
               if equalities then ILin (ls, CEq, Z.div (len ls) two) else ILooseMin ls) (upto_fast r)

let () =
  register "fam_gphp_fast" (function [adj; r; f; o] ->
      let adj = to_adj adj and r = to_z r in
      if bip_wf adj r then formula_reply (gphp_numvar adj) (gphp_ir_fast adj r (to_bool f) (to_bool o))
      else raise (Bad "not a well-formed bipartite graph")
    | _ -> raise (Bad "arity"));
  register "fam_subsetcard_fast" (function [adj; r; eq] ->
      let adj = to_adj adj and r = to_z r in
      if bip_wf adj r then formula_reply (subsetcard_numvar adj) (subsetcard_ir_fast adj r (to_bool eq))
      else raise (Bad "not a well-formed bipartite graph")
    | _ -> raise (Bad "arity"));
  register "fam_php" (function [m; n; f; o] ->
      let m = to_z m and n = to_z n in
      if php_valid m n then formula_reply (php_numvar m n) (php_ir m n (to_bool f) (to_bool o)) else raises
    | _ -> raise (Bad "arity"));
  register "fam_gphp" (function [adj; r; f; o] ->
      let adj = to_adj adj and r = to_z r in
      if bip_wf adj r then formula_reply (gphp_numvar adj) (gphp_ir adj r (to_bool f) (to_bool o))
      else raise (Bad "not a well-formed bipartite graph")
    | _ -> raise (Bad "arity"));
  register "fam_bphp" (function [m; n] ->
      let m = to_z m and n = to_z n in
      if bphp_valid m n then formula_reply (bphp_numvar m n) (bphp_ir m n) else raises
    | _ -> raise (Bad "arity"));
  register "fam_bphp_spec" (function [m; n] ->
      let m = to_z m and n = to_z n in
      if bphp_spec_valid m n then formula_reply (bphp_spec_numvar m n) (bphp_spec_ir m n) else raises
    | _ -> raise (Bad "arity"));
  register "fam_rphp" (function [m; r; n] ->
      let m = to_z m and r = to_z r and n = to_z n in
      if rphp_valid m r n then formula_reply (rphp_numvar m r n) (rphp_ir m r n) else raises
    | _ -> raise (Bad "arity"));
  register "fam_count" (function [m; p] ->
      let m = to_z m and p = to_z p in
      if count_valid m p then formula_reply (count_numvar m p) (count_ir m p) else raises
    | _ -> raise (Bad "arity"));
  register "fam_matching" (function [n; es] ->
      let n = to_z n and es = to_edges es in
      if simple_graph_wf n es then formula_reply (matching_numvar es) (matching_ir n es)
      else raise (Bad "not a well-formed simple graph")
    | _ -> raise (Bad "arity"));
  register "fam_subsetcard" (function [adj; r; eq] ->
      let adj = to_adj adj and r = to_z r in
      if bip_wf adj r then formula_reply (subsetcard_numvar adj) (subsetcard_ir adj r (to_bool eq))
      else raise (Bad "not a well-formed bipartite graph")
    | _ -> raise (Bad "arity"));
  register "fam_cliquecol" (function [n; k; c] ->
      let n = to_z n and k = to_z k and c = to_z c in
      if cc_valid n k c then formula_reply (cc_numvar n k c) (cliquecol_ir n k c) else raises
    | _ -> raise (Bad "arity"))
