(* driver commands of the C01 families.  Reply: (numvar clauses opb_constraints), or
   (raises "ValueError") when the model's validity predicate fails (cnfgen raises
   ValueError on those arguments). *)
open Model
open Sx
open Sxlib_ir

(* same reply as Sxlib_ir.formula_reply, through the pruned rendering to_cnf_f
   (coq/FamFastFacts.v: to_cnf_f l = to_cnf l) *)
let formula_reply (numvar : z) (irs : ir list) : sx =
  L [of_z numvar; of_cnf (Model.to_cnf_f irs); of_opb (Model.to_opb irs)]

let raises = L [A "raises"; Q "ValueError"]
let to_adj = to_list to_zl
let to_edges = to_list (to_pair to_z to_z)

let () =
  register "fam_php" (function [m; n; f; o] ->
      let m = to_z m and n = to_z n in
      if php_valid m n then formula_reply (php_numvar m n) (php_ir m n (to_bool f) (to_bool o)) else raises
    | _ -> raise (Bad "arity"));
  register "fam_gphp" (function [adj; r; f; o] ->
      let adj = to_adj adj and r = to_z r in
      if bip_wf adj r then formula_reply (gphp_numvar adj) (gphp_ir adj r (to_bool f) (to_bool o))
      else raise (Bad "not a well-formed bipartite graph")
    | _ -> raise (Bad "arity"));
  register "fam_bphp" (function [m; n] ->
      let m = to_z m and n = to_z n in
      if bphp_valid m n then formula_reply (bphp_numvar m n) (bphp_ir m n) else raises
    | _ -> raise (Bad "arity"));
  register "fam_bphp_spec" (function [m; n] ->
      let m = to_z m and n = to_z n in
      if bphp_spec_valid m n then formula_reply (bphp_spec_numvar m n) (bphp_spec_ir m n) else raises
    | _ -> raise (Bad "arity"));
  register "fam_rphp" (function [m; r; n] ->
      let m = to_z m and r = to_z r and n = to_z n in
      if rphp_valid m r n then formula_reply (rphp_numvar m r n) (rphp_ir m r n) else raises
    | _ -> raise (Bad "arity"));
  register "fam_count" (function [m; p] ->
      let m = to_z m and p = to_z p in
      if count_valid m p then formula_reply (count_numvar m p) (count_ir m p) else raises
    | _ -> raise (Bad "arity"));
  register "fam_matching" (function [n; es] ->
      let n = to_z n and es = to_edges es in
      if simple_graph_wf n es then formula_reply (matching_numvar es) (matching_ir n es)
      else raise (Bad "not a well-formed simple graph")
    | _ -> raise (Bad "arity"));
  register "fam_subsetcard" (function [adj; r; eq] ->
      let adj = to_adj adj and r = to_z r in
      if bip_wf adj r then formula_reply (subsetcard_numvar adj) (subsetcard_ir adj r (to_bool eq))
      else raise (Bad "not a well-formed bipartite graph")
    | _ -> raise (Bad "arity"));
  register "fam_cliquecol" (function [n; k; c] ->
      let n = to_z n and k = to_z k and c = to_z c in
      if cc_valid n k c then formula_reply (cc_numvar n k c) (cliquecol_ir n k c) else raises
    | _ -> raise (Bad "arity"))
