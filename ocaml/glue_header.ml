open Model
open Sx
let to_key = function
  | L [A "t"; i] -> KT (to_nat i)
  | L [A "o"; s] -> KO (to_chars s)
  | _ -> raise (Bad "header key")
let of_key = function
  | KT i -> L [A "t"; of_nat i]
  | KO s -> L [A "o"; of_chars s]
let () =
  register "header_chain" (function [h; steps] ->
      let h0 = to_list (to_pair to_key to_chars) h in
      let step h = function
        | L [A "shuffle"; _] -> shuffle_header h
        | L [A _; t] -> add_description h (to_chars t)
        | _ -> raise (Bad "step") in
      let hk = List.fold_left step h0 (match steps with L l -> l | _ -> raise (Bad "steps")) in
      of_list (of_pair of_key of_chars) hk
    | _ -> raise (Bad "arity"))
