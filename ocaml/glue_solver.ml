(* driver commands for Solver.v (property C20) *)
open Model
open Sx

let of_crash = function IndexError -> A "IndexError" | IntValueError -> A "ValueError"
let of_sres = function
  | SOk (b, w) -> L [A "ok"; of_bool b; of_opt of_zl w]
  | SRuntimeError -> L [A "runtimeerror"]
  | SCrash e -> L [A "crash"; of_crash e]
let of_iface = function StdinStdout -> A "stdin_stdout" | FileinStdout -> A "filein_stdout" | FileinFileout -> A "filein_fileout"
let to_quirks = function
  | L [a; b; c] -> { q_empty_none = to_bool a; q_crash = to_bool b; q_leak = to_bool c }
  | _ -> raise (Bad "quirks")
let of_outcome q o =
  match o with
  | OResult (r, i, c) -> L [A "result"; of_sres r; of_iface i; of_chars c; of_nat (temp_left q o)]
  | OValueError -> L [A "valueerror"]
  | ORuntimeUnsupported -> L [A "runtimeerror"; A "unsupported"]
  | ORuntimeNotInstalled -> L [A "runtimeerror"; A "notinstalled"]
  | ORuntimeNoSolver -> L [A "runtimeerror"; A "nosolver"]
let of_pysolve = function
  | PyPair (b, w) -> L [A "pair"; of_bool b; of_opt of_zl w]
  | PyValueError -> L [A "valueerror"]
  | PyRuntimeError -> L [A "runtimeerror"]
  | PyCrash e -> L [A "crash"; of_crash e]
let of_pybool = function
  | PyBool b -> L [A "bool"; of_bool b]
  | PyBValueError -> L [A "valueerror"]
  | PyBRuntimeError -> L [A "runtimeerror"]
  | PyBCrash e -> L [A "crash"; of_crash e]

(* installed: list of names; outputs: list of (first token of the command, text) *)
let mk_installed names = let ns = to_list to_chars names in fun n -> List.mem n ns
let mk_world outs =
  let al = to_list (to_pair to_chars to_chars) outs in
  fun _ c -> match sv_split_ws c with
    | [] -> []
    | s :: _ -> (try List.assoc s al with Not_found -> [])

let () =
  register "parse_stdout" (function [q; t] -> of_sres (parse_stdout (to_quirks q) (to_chars t)) | _ -> raise (Bad "arity"));
  register "parse_minisat" (function [q; t] -> of_sres (parse_minisat (to_quirks q) (to_chars t)) | _ -> raise (Bad "arity"));
  register "sat_solve" (function [q; c; s; inst; outs] ->
      of_outcome (to_quirks q) (sat_solve (to_quirks q) (to_opt to_chars c) (to_opt to_chars s) (mk_installed inst) (mk_world outs)) | _ -> raise (Bad "arity"));
  register "solve" (function [q; c; s; inst; outs] ->
      of_pysolve (solve (to_quirks q) (to_opt to_chars c) (to_opt to_chars s) (mk_installed inst) (mk_world outs)) | _ -> raise (Bad "arity"));
  register "is_satisfiable" (function [q; c; s; inst; outs] ->
      of_pybool (is_satisfiable (to_quirks q) (to_opt to_chars c) (to_opt to_chars s) (mk_installed inst) (mk_world outs)) | _ -> raise (Bad "arity"));
  register "splitlines" (function [t] -> of_list of_chars (splitlines (to_chars t)) | _ -> raise (Bad "arity"));
  register "sv_split_ws" (function [t] -> of_list of_chars (sv_split_ws (to_chars t)) | _ -> raise (Bad "arity"));
  register "sv_parse_int" (function [t] -> of_opt of_z (sv_parse_int (to_chars t)) | _ -> raise (Bad "arity"));
  register "sort_abs" (function [l] -> of_zl (sort_abs (to_zl l)) | _ -> raise (Bad "arity"))
