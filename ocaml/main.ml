(* driver: one request per line "(cmd arg ...)", one reply per line *)
let () =
  let buf = Buffer.create 65536 in
  (try
     while true do
       let line = input_line stdin in
       Buffer.clear buf;
       (try
          match Sx.parse line with
          | Sx.L (Sx.A cmd :: args) ->
            (match Hashtbl.find_opt Sx.table cmd with
             | Some f -> Sx.print buf (f args)
             | None -> Sx.print buf (Sx.L [Sx.A "error"; Sx.Q ("unknown command " ^ cmd)]))
          | _ -> Sx.print buf (Sx.L [Sx.A "error"; Sx.Q "bad request"])
        with
        | Sx.Bad m -> Buffer.clear buf; Sx.print buf (Sx.L [Sx.A "error"; Sx.Q ("bad argument: " ^ m)])
        | Stack_overflow -> Buffer.clear buf; Sx.print buf (Sx.L [Sx.A "error"; Sx.Q "stack overflow"])
        | e -> Buffer.clear buf; Sx.print buf (Sx.L [Sx.A "error"; Sx.Q (Printexc.to_string e)]));
       print_string (Buffer.contents buf); print_newline ()
     done
   with End_of_file -> ())
