(* driver commands of the whole-program model of `cnfgen` with randomness (coq/PipelineRand.v, property C07 / C17).
     (pipeline_rand ARGV (draw ...))
        ARGV  : sys.argv[1:] as a list of quoted strings;  draws: the values getrandbits returned, in call order
        -> (done RESULT UNREAD SEED RANDOM)   RESULT = (out "bytes") | (clierror) | (crash) | (outside);
                                       UNREAD = number of draws the run did not read; SEED = none | (some S);
                                       RANDOM = true when the command line has a random part (PipelineRand.plr_uses_random)
         | (end K)                     the draws ended; the next call would be getrandbits(K)
         | (bad)                       a value getrandbits could not have returned
     (plr_sample N K (draw ...)) -> (ok (position ...) UNREAD) | (end K) | (bad)      random.sample, CPython 3.12.1 *)
open Model
open Sx

let plr_of_result = function
  | POut t -> L [A "out"; of_chars t]
  | PCliError -> L [A "clierror"]
  | PCrash -> L [A "crash"]
  | POutside -> L [A "outside"]

let () =
  register "pipeline_rand" (function
    | [argv; oracle] ->
      let a = to_list to_chars argv in
      (match cnfgen_main_rand a (to_zl oracle) with
       | PdOk (r, rest) -> L [A "done"; plr_of_result r; of_int (List.length rest); of_opt of_z (plr_seed a);
                              of_bool (plr_uses_random a)]
       | PdEnd k -> L [A "end"; of_z k]
       | PdBad -> L [A "bad"])
    | _ -> raise (Bad "arity"));
  register "plr_sample" (function
    | [n; k; o] ->
      (match plr_sample (to_z n) (to_z k) (to_zl o) with
       | PdOk (ps, rest) -> L [A "ok"; of_zl ps; of_int (List.length rest)]
       | PdEnd k -> L [A "end"; of_z k]
       | PdBad -> L [A "bad"])
    | _ -> raise (Bad "arity"))
