(* driver commands for coq/Mapping.v *)
open Model
open Sx
open Sxlib_ir

let to_mapping = function
  | L [A "unary"; adj; r] -> MUnary (to_list to_zl adj, to_z r)
  | L [A "binary"; n; m] -> MBinary (to_z n, to_z m)
  | _ -> raise (Bad "mapping")

let () =
  (* (mapping_constraints mapping off which) -> (raised clauses-of-CNF constraints-of-OPB) *)
  register "mapping_constraints" (function [mp; off; which] ->
      let mp = to_mapping mp and off = to_z off in
      let (irs, raised) = match to_str which with
        | "complete" -> (vm_force_complete off mp, false)
        | "functional" -> (vm_force_functional off mp, false)
        | "surjective" -> vm_force_surjective off mp
        | "injective" -> (vm_force_injective off mp, false)
        | "nondecreasing" -> (vm_force_nondecreasing off mp, false)
        | s -> raise (Bad ("constraint " ^ s)) in
      L [of_bool raised; of_cnf (Model.to_cnf irs); of_opb (Model.to_opb irs)]
                                         | _ -> raise (Bad "arity"));
  register "forbid" (function [off; n; m; i; j] -> of_opt of_zl (vmap_forbid (to_z off) (to_z n) (to_z m) (to_z i) (to_z j)) | _ -> raise (Bad "arity"))
