(* driver commands of the OPB / LaTeX slice (C12) *)
open Model
open Sx
open Glue_dimacs

let pbop_of_s = function
  | ">=" -> PGe | "==" | "=" -> PEq | "<=" -> PLe | "<" -> PLt | ">" -> PGt
  | s -> raise (Bad ("operator " ^ s))
let pbop_s = function PGe -> ">=" | PEq -> "==" | PLe -> "<=" | PLt -> "<" | PGt -> ">"
let to_pbc_big = function
  | L [ts; o; d] -> { pb_terms = to_list (to_pair to_zbig to_zbig) ts; pb_op = pbop_of_s (to_str o); pb_deg = to_zbig d }
  | _ -> raise (Bad "constraint")
let of_pbc_big (c : pbc) = L [of_list (of_pair of_zbig of_zbig) c.pb_terms; Q (pbop_s c.pb_op); of_zbig c.pb_deg]
let to_formula = function
  | L [A "cnf"; n; f] -> FCnf (to_zbig n, to_cnf_big f)
  | L [A "opb"; n; c] -> FOpb (to_zbig n, to_list to_pbc_big c)
  | _ -> raise (Bad "formula")
let to_header = to_opt (to_list (to_pair to_chars to_chars))
let to_names = to_list to_chars
let opb_err_name = function
  | ONoSpec -> "NoSpec" | OBadSpec -> "BadSpec" | OBadLine -> "BadLine" | OWrongCount -> "WrongCount" | OVarRange -> "VarRange"
let of_lrow = function
  | RSquare -> L [A "square"]
  | RClause ts -> L [A "clause"; of_list of_chars ts]
  | RConstraint (ts, o, v) -> L [A "constraint"; of_list of_chars ts; Q (pbop_s o); of_chars v]
  | RBad -> L [A "bad"]

let of_pol_name = of_pair of_bool of_chars
let of_litrow = function
  | LSquare -> L [A "square"]
  | LClause ls -> L [A "clause"; of_list of_pol_name ls]
  | LConstraint (ts, o, v) -> L [A "constraint"; of_list (of_pair of_chars of_pol_name) ts; Q (pbop_s o); of_chars v]

let () =
  (* the rows of a LaTeX text read as literals: (top?, [row | none]) *)
  register "latex_litrows" (function [opb; t] ->
      let (top, rows) = rows_of_latex (to_bool opb) (to_chars t) in
      L [of_bool top; of_list (fun r -> of_opt of_litrow (decode_lrow r)) rows] | _ -> raise (Bad "arity"));
  register "formula_litrows" (function [names; f] ->
      of_opt (of_list of_litrow) (formula_litrows (to_names names) (to_formula f)) | _ -> raise (Bad "arity"));
  register "decode_lit" (function [t] -> of_opt of_pol_name (decode_lit (to_chars t)) | _ -> raise (Bad "arity"));
  register "print_opb" (function [h; names; f] ->
      of_chars (print_opb (to_header h) (to_opt to_names names) (to_formula f)) | _ -> raise (Bad "arity"));
  register "print_opb_as_found" (function [h; names; f] ->
      of_chars (print_opb_as_found (to_header h) (to_opt to_names names) (to_formula f)) | _ -> raise (Bad "arity"));
  register "parse_opb" (function [t] ->
      (match parse_opb (to_chars t) with
       | OOk (n, c) -> L [A "ok"; of_zbig n; of_list of_pbc_big c]
       | OErr (e, k) -> L [A "err"; A (opb_err_name e); of_zbig k]) | _ -> raise (Bad "arity"));
  register "print_latex" (function [names; split; compact; f] ->
      of_opt of_chars (print_latex (to_names names) (to_zbig split) (to_bool compact) (to_formula f)) | _ -> raise (Bad "arity"));
  register "print_latex_document" (function [title; h; extra; names; f] ->
      of_opt of_chars (print_latex_document (to_chars title) (to_header h) (to_chars extra) (to_names names) (to_formula f))
                                          | _ -> raise (Bad "arity"));
  register "rows_of_latex" (function [opb; t] ->
      let (top, rows) = rows_of_latex (to_bool opb) (to_chars t) in L [of_bool top; of_list of_lrow rows] | _ -> raise (Bad "arity"));
  register "formula_lrows" (function [names; f] ->
      of_opt (of_list of_lrow) (formula_lrows (to_names names) (to_formula f)) | _ -> raise (Bad "arity"))
