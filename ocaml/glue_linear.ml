open Model
open Sx

open Sxlib_ir

let () =
  register "add_linear" (function [ls; o; k] -> of_cnf (add_linear (to_zl ls) (cop_of (to_str o)) (to_z k)) | _ -> raise (Bad "arity"));
  register "add_parity" (function [ls; k] -> of_cnf (add_parity (to_zl ls) (to_z k)) | _ -> raise (Bad "arity"));
  register "add_loose_majority" (function [ls] -> of_cnf (add_loose_majority (to_zl ls)) | _ -> raise (Bad "arity"));
  register "add_loose_minority" (function [ls] -> of_cnf (add_loose_minority (to_zl ls)) | _ -> raise (Bad "arity"));
  register "add_strict_majority" (function [ls] -> of_cnf (add_strict_majority (to_zl ls)) | _ -> raise (Bad "arity"));
  register "add_strict_minority" (function [ls] -> of_cnf (add_strict_minority (to_zl ls)) | _ -> raise (Bad "arity"));
  register "normalize_opb" (function [c] -> of_pbc (normalize_opb (to_pbc c)) | _ -> raise (Bad "arity"));
  register "opb_linear" (function [ls; o; k] -> of_opb (opb_linear (to_zl ls) (cop_of (to_str o)) (to_z k)) | _ -> raise (Bad "arity"));
  register "opb_parity" (function [ls; k] -> of_opb (opb_parity (to_zl ls) (to_z k)) | _ -> raise (Bad "arity"));
  register "opb_loose_majority" (function [ls] -> of_opb (opb_loose_majority (to_zl ls)) | _ -> raise (Bad "arity"));
  register "opb_loose_minority" (function [ls] -> of_opb (opb_loose_minority (to_zl ls)) | _ -> raise (Bad "arity"));
  register "opb_strict_majority" (function [ls] -> of_opb (opb_strict_majority (to_zl ls)) | _ -> raise (Bad "arity"));
  register "opb_strict_minority" (function [ls] -> of_opb (opb_strict_minority (to_zl ls)) | _ -> raise (Bad "arity"));
  register "combs" (function [ls; k] -> of_cnf (combs (to_zl ls) (to_nat k)) | _ -> raise (Bad "arity"))
