(* driver commands for coq/Vars.v (variable groups, manager history machine, labels) *)
open Model
open Sx

let to_zll = to_list to_zl
let of_idxs = of_list of_zl
let to_fmt x = to_list to_chars x
let of_strs = of_list of_chars

let wkind_of = function
  | "combinations" -> WComb | "combinations_with_replacement" -> WCombRepl
  | "permutations" -> WPerm | "words" -> WWord
  | s -> raise (Bad ("word kind " ^ s))

let to_shape = function
  | L [A "single"] -> GSingle
  | L [A "block"; rs] -> GBlock (to_zl rs)
  | L [A "words"; k; n; kk] -> GWords (wkind_of (to_str k), to_z n, to_z kk)
  | L [A "bip"; adj; r] -> BipEdges (to_zll adj, to_z r)
  | L [A "di"; succ; b] -> DiEdges (to_zll succ, to_bool b)
  | L [A "graph"; adj] -> GraphEdges (to_zll adj)
  | L [A "umap"; n; m] -> UMap (to_z n, to_z m)
  | L [A "binmap"; n; m] -> BinMap (to_z n, to_z m)
  | _ -> raise (Bad "shape")

let to_group = function
  | L [s; fmt] -> { g_shape = to_shape s; g_fmt = to_fmt fmt }
  | _ -> raise (Bad "group")

let of_creation = function Created -> A "created" | CrValueError -> A "ValueError" | CrCrash -> A "Crash"
let of_outcome = function
  | VmDone -> L [A "done"] | VmAllocated off -> L [A "allocated"; of_z off]
  | VmValueError -> L [A "ValueError"] | VmCrash -> L [A "Crash"]

let to_pat = to_list (function A "none" -> None | x -> Some (to_z x))

let to_op = function
  | L [A "new"; g] -> OpNewGroup (to_group g)
  | L [A "clause"; c; chk] -> OpAddClause (to_zl c, to_bool chk)
  | L [A "raise"; k] -> OpRaiseNumvar (to_z k)
  | _ -> raise (Bad "op")

let ids_of off s l = List.map (fun i -> vg_to_id off s i) l

let () =
  (* (group_describe fixD2 group off) -> (creation size indices ids labels) *)
  register "group_describe" (function [fix; g; off] ->
      let g = to_group g and off = to_z off in
      let s = g.g_shape in
      (match vg_create (to_bool fix) g with
       | Created ->
         let ix = vg_indices s in
         L [A "created"; of_z (gsize s); of_idxs ix; of_list (of_opt of_z) (ids_of off s ix); of_strs (vg_labels g)]
       | c -> L [of_creation c])
                                     | _ -> raise (Bad "arity"));
  register "group_to_id" (function [s; off; i] -> of_opt of_z (vg_to_id (to_z off) (to_shape s) (to_zl i)) | _ -> raise (Bad "arity"));
  register "group_to_index" (function [s; off; lit] -> of_opt of_zl (vg_to_index (to_z off) (to_shape s) (to_z lit)) | _ -> raise (Bad "arity"));
  register "group_label" (function [g; i] -> of_chars (label_of_index (to_group g) (to_zl i)) | _ -> raise (Bad "arity"));
  (* (group_pattern shape off pattern) -> none | (some (indices ids)) *)
  register "group_pattern" (function [s; off; pat] ->
      let s = to_shape s and off = to_z off in
      (match pattern_indices s (to_pat pat) with
       | None -> A "none"
       | Some l -> L [A "some"; L [of_idxs l; of_list (of_opt of_z) (ids_of off s l)]])
                                   | _ -> raise (Bad "arity"));
  (* (history_run fixD2 fixD3 fixD34 default-format ops) -> per step (outcome numvar offsets labels expected-labels clauses) *)
  register "history_run" (function [f2; f3; f34; dflt; ops] ->
      let v = { fixD2 = to_bool f2; fixD34 = to_bool f34 } and f3 = to_bool f3 and dflt = to_fmt dflt in
      let tr = vm_trace v vm_init (to_list to_op ops) in
      of_list (fun (st, out) ->
          L [of_outcome out; of_z st.st_numvar; of_list (fun (off, _) -> of_z off) st.st_groups;
             of_strs (all_variable_labels f3 dflt st);
             of_strs (List.map (fun v -> vg_label_of dflt st v) (zrange (z_of_int 1) (Z.add st.st_numvar (z_of_int 1))));
             of_cnf st.st_clauses]) tr
                                 | _ -> raise (Bad "arity"));
  register "bitlength" (function [m] -> of_z (bitlength (to_z m)) | _ -> raise (Bad "arity"))
