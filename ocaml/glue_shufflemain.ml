(* driver commands of the whole-program model of `cnfshuffle` (coq/ShuffleMain.v, property C09 / C07).
     (shufflemain REPAIRED "VERSION" (("name" "content") ...) ("unwritable name" ...) ARGV "STDIN" (draw ...))
        REPAIRED : true | false      the tool after / before the repair of the OverflowError
        ARGV     : sys.argv[1:] as a list of quoted strings;  draws: the values getrandbits returned, in order
        -> (out DEST "bytes" USED)   DEST = none | (some "file"); USED = number of draws read, or none
         | (clierror) | (crash) | (outside) | (oracle_end) | (oracle_bad)
     (shm_parse_args FILES NOWRITE ARGV)  -> (ok nop nov noc quiet SEED INPUT OUTPUT) | (error) | (help) | (outside)
     (shm_randbelow N (draw ...)) -> (ok R (rest ...)) | (end) | (bad)
     (shm_shuffle_list (j ...) (x ...)) -> (y ...)      random.shuffle of x with the given _randbelow results
     (shm_bounds nop nov noc N M) -> (bound ...) *)
open Model
open Sx

let shm_of_result used = function
  | ShmOut (d, t) -> L [A "out"; of_opt of_chars d; of_chars t; of_opt of_z used]
  | ShmCliError -> L [A "clierror"]
  | ShmCrash -> L [A "crash"]
  | ShmOutside -> L [A "outside"]
  | ShmOracleEnd -> L [A "oracle_end"]
  | ShmOracleBad -> L [A "oracle_bad"]
let shm_to_argv = to_list to_chars

let () =
  register "shufflemain" (function
    | [rep; v; files; nowrite; argv; stdin; oracle] ->
      let env = { shm_version = to_chars v;
                  shm_files = to_list (to_pair to_chars to_chars) files;
                  shm_nowrite = to_list to_chars nowrite } in
      let a = shm_to_argv argv and s = to_chars stdin and o = to_zl oracle in
      let r = cnfshuffle_main_gen (to_bool rep) env a s o in
      let used = (match r with ShmOut _ -> shm_draws_used env a s o | _ -> None) in
      shm_of_result used r
    | _ -> raise (Bad "arity"));
  register "shm_parse_args" (function
    | [files; nowrite; argv] ->
      (match shm_parse_args { shm_version = []; shm_files = to_list (to_pair to_chars to_chars) files;
                              shm_nowrite = to_list to_chars nowrite } (shm_to_argv argv) with
       | PaOk o -> L [A "ok"; of_bool o.so_nop; of_bool o.so_nov; of_bool o.so_noc; of_bool o.so_quiet;
                      of_opt of_chars o.so_seed; of_opt of_chars o.so_input; of_opt of_chars o.so_output]
       | PaError -> L [A "error"]
       | PaHelp -> L [A "help"]
       | PaOutside -> L [A "outside"])
    | _ -> raise (Bad "arity"));
  register "shm_randbelow" (function
    | [n; o] ->
      (match shm_randbelow (to_z n) (to_zl o) with
       | DrOk (r, rest) -> L [A "ok"; of_z r; of_zl rest]
       | DrEnd -> L [A "end"]
       | DrBad -> L [A "bad"])
    | _ -> raise (Bad "arity"));
  register "shm_shuffle_list" (function
    | [js; x] -> of_zl (shm_shuffle_list (to_zl js) (to_zl x))
    | _ -> raise (Bad "arity"));
  register "shm_bounds" (function
    | [p; v; c; n; m] -> of_zl (shm_bounds (to_bool p) (to_bool v) (to_bool c) (to_z n) (to_z m))
    | _ -> raise (Bad "arity"))
