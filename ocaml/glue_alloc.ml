open Model
open Sx
let to_aop = function
  | L [A "group"; n] -> AGroup (to_z n)
  | L [A "clause"; c; chk] -> AClause (to_zl c, to_bool chk)
  | L [A "raise"; k] -> ARaise (to_z k)
  | _ -> raise (Bad "aop")
let () =
  register "alloc_history" (function [ops] ->
      (match arun ast0 (to_list to_aop ops) with
       | Some s -> of_z s.a_numvar
       | None -> A "none")
    | _ -> raise (Bad "arity"))
