(* driver commands of coq/GraphSpec.v (graph argument of the command line) *)
open Model
open Sx
let gs_str cs = Q (String.of_seq (List.to_seq cs))
(* integers as decimal strings of any size (double-and-add on a decimal digit array, most significant bit first) *)
let gs_pos_bits p = let rec go p acc = match p with XH -> true :: acc | XO q -> go q (false :: acc) | XI q -> go q (true :: acc) in go p []
let gs_pos_dec p =
  let bits = gs_pos_bits p in
  let n = (List.length bits * 31) / 100 + 2 in
  let d = Array.make n 0 in
  List.iter (fun b ->
      let carry = ref (if b then 1 else 0) in
      for i = 0 to n - 1 do
        let v = 2 * d.(i) + !carry in
        if v >= 10 then (d.(i) <- v - 10; carry := 1) else (d.(i) <- v; carry := 0)
      done) bits;
  let top = ref (n - 1) in
  while !top > 0 && d.(!top) = 0 do decr top done;
  String.init (!top + 1) (fun i -> Char.chr (48 + d.(!top - i)))
let gs_zs z = Q (match z with Z0 -> "0" | Zpos p -> gs_pos_dec p | Zneg p -> "-" ^ gs_pos_dec p)
let gs_gtype = function
  | A "simple" | Q "simple" -> GSSimple | A "bipartite" | Q "bipartite" -> GSBipartite
  | A "dag" | Q "dag" -> GSDag | A "digraph" | Q "digraph" -> GSDigraph
  | _ -> raise (Bad "graph type expected")
let gs_toks x = to_list to_chars x
let gs_otext = function None -> A "none" | Some t -> L [A "some"; gs_str t]
let gs_perr = function
  | PEEmpty -> "PEEmpty" | PEFilenameExpected -> "PEFilenameExpected" | PEFormatElsewhere -> "PEFormatElsewhere"
  | PEConstructionElsewhere -> "PEConstructionElsewhere" | PENoNeed -> "PENoNeed" | PEOptionalBefore -> "PEOptionalBefore"
  | PEInvalidOption -> "PEInvalidOption" | PEMultiple -> "PEMultiple" | PESaveMissing -> "PESaveMissing"
  | PESaveMissingFile -> "PESaveMissingFile"
let gs_verr = function
  | VRaw -> "VRaw" | VGnpArgs -> "VGnpArgs" | VGnmArgs -> "VGnmArgs" | VGndArgs -> "VGndArgs" | VGndParity -> "VGndParity"
  | VCompleteSimple -> "VCompleteSimple" | VEmptySimple -> "VEmptySimple" | VGrid -> "VGrid" | VTorus -> "VTorus"
  | VPlantCliqueArgs -> "VPlantCliqueArgs" | VPlantCliqueLarge -> "VPlantCliqueLarge" | VAddEdges -> "VAddEdges"
  | VSplitEdges -> "VSplitEdges" | VGlrp -> "VGlrp" | VGlrm -> "VGlrm" | VGlrd -> "VGlrd" | VRegular -> "VRegular"
  | VShiftFew -> "VShiftFew" | VShiftArgs -> "VShiftArgs" | VCompleteBip -> "VCompleteBip" | VEmptyBip -> "VEmptyBip"
  | VPlantBicliqueArgs -> "VPlantBicliqueArgs" | VPlantBicliqueFit -> "VPlantBicliqueFit" | VTree -> "VTree"
  | VPyramid -> "VPyramid" | VPath -> "VPath" | VFileNoExt -> "VFileNoExt" | VFileBadExt -> "VFileBadExt"
  | VReadFormat -> "VReadFormat" | VSaveExt -> "VSaveExt" | VSaveFormat -> "VSaveFormat"
let gs_xclass = function
  | KValue -> "ValueError" | KType -> "TypeError" | KAssert -> "AssertionError" | KIndex -> "IndexError"
  | KZeroDiv -> "ZeroDivisionError" | KKey -> "KeyError"
let gs_parsed_sx p =
  L [A "ok"; gs_str (gs_gtype_name p.p_gtype); gs_otext p.p_construction;
     (match p.p_args with None -> A "none" | Some a -> L [A "some"; of_list gs_str a]);
     of_bool p.p_argskey; gs_otext p.p_filename; gs_otext p.p_fileformat;
     of_list (fun (k, v) -> L [gs_str k; of_list gs_str v]) p.p_opts]
let gs_pres_sx = function
  | GSPOk p -> gs_parsed_sx p
  | GSPErr e -> L [A "err"; A (gs_perr e)]
  | GSPCrash -> L [A "crash"]
let gs_fval_sx = function
  | GSNan -> L [A "nan"]
  | GSInf neg -> L [A "inf"; of_bool neg]
  | GSDec (neg, m, e) -> L [A "dec"; of_bool neg; gs_zs m; gs_zs e]
let gs_call_sx = function
  | GCGnp (n, p, t) -> L [A "gnp"; gs_zs n; gs_fval_sx p; gs_zs t]
  | GCGnm (n, m) -> L [A "gnm"; gs_zs n; gs_zs m]
  | GCGnd (n, d) -> L [A "gnd"; gs_zs n; gs_zs d]
  | GCGrid (per, dims) -> L [A (if per then "torus" else "grid"); of_list gs_zs dims]
  | GCCompleteS (n, b) -> L [A "complete_simple"; gs_zs n; (match b with None -> A "none" | Some b -> L [A "some"; gs_zs b])]
  | GCEmptyS n -> L [A "empty_simple"; gs_zs n]
  | GCGlrp (l, r, p) -> L [A "glrp"; gs_zs l; gs_zs r; gs_fval_sx p]
  | GCGlrm (l, r, m) -> L [A "glrm"; gs_zs l; gs_zs r; gs_zs m]
  | GCGlrd (l, r, d) -> L [A "glrd"; gs_zs l; gs_zs r; gs_zs d]
  | GCRegular (l, r, d) -> L [A "regular"; gs_zs l; gs_zs r; gs_zs d]
  | GCShift (l, r, pat) -> L [A "shift"; gs_zs l; gs_zs r; of_list gs_zs pat]
  | GCCompleteB (l, r) -> L [A "complete_bipartite"; gs_zs l; gs_zs r]
  | GCEmptyB (l, r) -> L [A "empty_bipartite"; gs_zs l; gs_zs r]
  | GCTree h -> L [A "tree"; gs_zs h]
  | GCPyramid h -> L [A "pyramid"; gs_zs h]
  | GCPath h -> L [A "path"; gs_zs h]
  | GCRead (f, fmt) -> L [A "read"; gs_str f; gs_str fmt]
let gs_step_sx = function
  | SGen c -> gs_call_sx c
  | SPlantClique k -> L [A "plantclique"; gs_zs k]
  | SPlantBiclique (a, b) -> L [A "plantbiclique"; gs_zs a; gs_zs b]
  | SAddEdges k -> L [A "addedges"; gs_zs k]
  | SSplitEdges k -> L [A "splitedges"; gs_zs k]
  | SSave (fmt, f) -> L [A "save"; gs_str fmt; gs_str f]
let gs_vres_sx = function
  | GSVOk plan -> L [A "ok"; of_list gs_step_sx plan]
  | GSVErr t -> L [A "err"; A (gs_verr t)]
  | GSVCrash k -> L [A "crash"; A (gs_xclass k)]
let gs_to_otext = function A "none" -> None | L [A "some"; x] -> Some (to_chars x) | _ -> raise (Bad "optional text expected")
let gs_to_parsed = function
  | L [g; c; args; key; f; fmt; opts] ->
    { p_gtype = gs_gtype g; p_construction = gs_to_otext c;
      p_args = (match args with A "none" -> None | L [A "some"; a] -> Some (gs_toks a) | _ -> raise (Bad "args"));
      p_argskey = to_bool key; p_filename = gs_to_otext f; p_fileformat = gs_to_otext fmt;
      p_opts = to_list (function L [k; v] -> (to_chars k, gs_toks v) | _ -> raise (Bad "option")) opts }
  | _ -> raise (Bad "parsed record expected")
let () =
  register "graphspec_tables" (function [] ->
      of_list (fun g -> L [gs_str (gs_gtype_name g); of_list gs_str (gs_constructions g); of_list gs_str (gs_options g);
                           of_list gs_str (gs_formats g)]) gs_all_types
    | _ -> raise (Bad "arity"));
  register "graphspec_float" (function [t] ->
      (match gs_float (to_chars t) with
       | None -> A "none"
       | Some v -> L [A "some"; gs_fval_sx v; of_bool (gs_ge_zero v); of_bool (gs_le_one v)])
    | _ -> raise (Bad "arity"));
  register "graphspec_int" (function [t] ->
      (match gs_int (to_chars t) with None -> A "none" | Some z -> L [A "some"; gs_zs z])
    | _ -> raise (Bad "arity"));
  register "graphspec_ext" (function [t] -> gs_str (gs_ext (to_chars t)) | _ -> raise (Bad "arity"));
  register "graphspec_parse" (function [g; toks] ->
      (match gs_parse (gs_gtype g) (gs_toks toks) with
       | GSPOk p -> L [gs_parsed_sx p; of_list gs_str (gs_render p); of_bool (gs_wf p)]
       | other -> L [gs_pres_sx other])
    | _ -> raise (Bad "arity"));
  (* make_graph_from_spec: (parse <parse result>) when parsing fails, else the validation result *)
  register "graphspec_validate" (function [fl; fr; g; toks] ->
      (match gs_make (to_z fl, to_z fr) (gs_gtype g) (gs_toks toks) with
       | Inl v -> gs_vres_sx v
       | Inr p -> L [A "parse"; gs_pres_sx p])
    | _ -> raise (Bad "arity"));
  register "graphspec_validate_parsed" (function [fl; fr; p] ->
      let p = gs_to_parsed p in
      L [gs_vres_sx (gs_validate (to_z fl, to_z fr) p); of_bool (gs_wf p)]
    | _ -> raise (Bad "arity"))
