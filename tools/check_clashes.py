#!/usr/bin/env python3
"""Fail when a glue file refers to a function or constructor name that the single extraction had to
disambiguate (foo / foo0): the glue would silently pick the first module's version."""
import glob, os, re, sys
root = os.path.dirname(os.path.dirname(os.path.abspath(__file__)))
mli = open(os.path.join(root, 'ocaml', 'model.mli')).read()
vals = set(re.findall(r'^val ([A-Za-z_0-9\']+) :', mli, re.M))
ctors = set(re.findall(r'^\| ([A-Z][A-Za-z_0-9\']*)', mli, re.M))
bad = []
for n in sorted(vals | ctors):
    m = re.match(r'^(.*?)(\d+)$', n)
    if not m or m.group(1) not in (vals | ctors):
        continue
    base = m.group(1)
    for f in glob.glob(os.path.join(root, 'ocaml', 'glue_*.ml')) + glob.glob(os.path.join(root, 'ocaml', 'sxlib_*.ml')):
        src = re.sub(r'\(\*.*?\*\)', '', open(f).read(), flags=re.S)
        src = re.sub(r'"(?:\\.|[^"\\])*"', '""', src)
        if re.search(r'(?<![A-Za-z_0-9.\'])' + re.escape(base) + r'(?![A-Za-z_0-9\'])', src):
            bad.append('%s uses %s, which the extraction duplicated as %s' % (os.path.basename(f), base, n))
for b in bad:
    print('CLASH:', b)
sys.exit(1 if bad else 0)
