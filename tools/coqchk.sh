#!/bin/bash
# Independent re-check of every compiled property file and its dependencies; prints the axioms they rely on.
cd "$(dirname "$0")/../coq" || exit 1
mods=$(ls Prop_*.vo | sed 's/\.vo$//; s/^/Cnfgen./' | tr '\n' ' ')
timeout 7200 coqchk -silent -o -R . Cnfgen $mods
