#!/venv/bin/python
"""Write seeded/README.md: which check catches which seeded change (from seeded/*/meta.json)."""
import glob, json, os, re
ROOT = os.path.dirname(os.path.dirname(os.path.abspath(__file__)))
rows = []
for d in sorted(glob.glob(os.path.join(ROOT, 'seeded', '*', 'meta.json'))):
    m = json.load(open(d))
    name = os.path.basename(os.path.dirname(d))
    diff = open(os.path.join(os.path.dirname(d), 'patch.diff')).read()
    files = sorted(set(l.split(' b/')[1] for l in diff.split('\n') if l.startswith('diff --git')))
    need = re.sub(r'\s+', ' ', m.get('needs_to_manifest', ''))[:260]
    for prop, c in m['checks'].items():
        first = (c.get('first') or {})
        rows.append('| %s | %s | %s | %s | %s | %s |' % (name, ', '.join(f.replace('cnfgen/', '') for f in files), prop,
                    'yes' if c['caught'] else ('n/a (no longer breaks the property: see meta.json)' if m.get('obsolete') else '**no**'),
                    '+'.join(c['kinds']) or '-', (first.get('what') or '')[:110].replace('|', '/')))
out = ['# Seeded changes and the checks that catch them', '',
       'Each directory holds `patch.diff` (the change, written by an independent sub-agent that saw only the property text and a scratch worktree),',
       '`demo.py` (fails with the change, passes without) and `meta.json` (what it needs to manifest, what was run to confirm it:',
       'applies to /repo HEAD, 518/518 baseline unchanged, demo exit 0 on /repo and non-zero on the patched tree, and the result of the check).',
       'Confirmed and re-run with `tools/seed_collect.py` / `tools/seedtest.py` (scratch worktree, `VERIF_REPO`, `VERIF_OUT`).', '',
       '| change | files | check | caught (quick tier) | kind of report | first report |', '|---|---|---|---|---|---|'] + rows
open(os.path.join(ROOT, 'seeded', 'README.md'), 'w').write('\n'.join(out) + '\n')
print(len(rows), 'rows')
