#!/venv/bin/python
"""Run the repository's pinned test suite (guard OFF) and compare with /root/.vp/BASELINE.json.
Exit 0 iff every stable_pass test still passes."""
import json, os, subprocess, sys, tempfile, xml.etree.ElementTree as ET
repo = os.environ.get('VERIF_REPO', '/repo')
base = json.load(open('/root/.vp/BASELINE.json'))
fd, path = tempfile.mkstemp(suffix='.xml'); os.close(fd)
env = dict(os.environ); env.pop('CNFGEN_VERIF', None)
subprocess.run(['/venv/bin/python', '-m', 'pytest', '-ra', '-q', '-p', 'no:cacheprovider', '--timeout=900',
                '--continue-on-collection-errors', '--junitxml=' + path], cwd=repo, env=env,
               stdout=subprocess.DEVNULL, stderr=subprocess.DEVNULL)
passed = set()
for tc in ET.parse(path).getroot().iter('testcase'):
    if not any(ch.tag in ('failure', 'error', 'skipped') for ch in tc):
        passed.add('%s::%s' % (tc.get('classname'), tc.get('name')))
os.unlink(path)
missing = [t for t in base['stable_pass'] if t not in passed]
print('baseline: %d/%d stable tests pass' % (len(base['stable_pass']) - len(missing), len(base['stable_pass'])))
for t in missing[:20]:
    print('  MISSING', t)
sys.exit(1 if missing else 0)
