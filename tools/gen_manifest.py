#!/venv/bin/python
"""Regenerate MANIFEST.json from the META dict of every harness/cNN.py."""
import importlib, json, os, sys
ROOT = os.path.dirname(os.path.dirname(os.path.abspath(__file__)))
sys.path.insert(0, os.path.join(ROOT, 'harness'))
props = [json.loads(l)['id'] for l in open(os.path.join(ROOT, 'properties.jsonl'))]
NA_REASON = {}
checks, na = [], []
for p in props:
    f = os.path.join(ROOT, 'harness', p.lower() + '.py')
    if not os.path.exists(f):
        na.append(dict(property_id=p, reason=NA_REASON.get(p, 'not claimed yet: the Coq model and correspondence check for this property are still being built (see DESIGN.md section 5 for the plan)')))
        continue
    mod = importlib.import_module(p.lower())
    req = getattr(mod, 'REQUIRES_ANY', None)
    if req and not any(os.path.exists(os.path.join(ROOT, r)) for r in req):
        na.append(dict(property_id=p, reason='not claimed yet: the harness exists but the family models it compares against are not merged yet'))
        continue
    m = mod.META
    checks.append(dict(
        property_id=p,
        quick_cmd='./check %s --tier quick' % p,
        thorough_cmd='./check %s --tier thorough' % p,
        evidence_file='/verif/evidence/%s.json' % p,
        replay_cmd_template='./check %s --replay {path}' % p,
        engine='coq-model+correspondence',
        level_claimed=dict(category=m['category'], text=m['text'], design_ref='DESIGN.md section ' + m.get('design_ref', '5')),
        level_note=m['note'],
        technique=m['technique']))
man = dict(
    version=1,
    setup_cmd='./setup.sh',
    hooks=dict(guard='CNFGEN_VERIF', enable='export CNFGEN_VERIF=1 (the checks set it themselves before importing cnfgen from /repo; pure Python, nothing to build)',
               baseline_off_cmd='/verif/tools/baseline.py',
               source_commits=json.load(open(os.path.join(ROOT, 'hooks.json')))['source_commits'] if os.path.exists(os.path.join(ROOT, 'hooks.json')) else [],
               add_only=True),
    engines=[dict(name='coq-model+correspondence', path='/verif/check',
                  serves_properties=[c['property_id'] for c in checks],
                  kind_free_text='Coq 8.16.1 development in /verif/coq (model *.v, lemmas *Facts.v, property statements Prop_Cxx.v); '
                                 'model extracted to OCaml (build/driver); Python harness in /verif/harness runs /repo and the model on the same inputs')],
    checks=checks,
    notes='Every check: incremental `make` of the Coq development, recompilation of coq/Prop_<id>.v with Print Assumptions, '
          'correspondence run against /repo working tree, failing-input search on any break, known-findings filter (known_findings.json).',
    not_applicable=na)
json.dump(man, open(os.path.join(ROOT, 'MANIFEST.json'), 'w'), indent=1)
print('MANIFEST: %d checks, %d not claimed' % (len(checks), len(na)))
