#!/bin/bash
# Run every registered check (quick tier unless TIER=thorough) against /repo and summarise.
cd "$(dirname "$0")/.."
TIER=${TIER:-quick}
for p in $(python3 -c "import json;print(' '.join(c['property_id'] for c in json.load(open('MANIFEST.json'))['checks']))"); do
  s=$(date +%s)
  ./check $p --tier $TIER --no-build > build/out_$p.txt 2>&1
  rc=$?
  echo "$p rc=$rc $(( $(date +%s)-s ))s viol=$(grep -c '^VIOLATION' build/out_$p.txt) known=$(grep -c '^KNOWN-FINDING' build/out_$p.txt)"
done
