#!/venv/bin/python
"""tools/seed_collect.py <PROP> <agent-outdir> [extra props...]: confirm each m<i>.diff of a seeding agent with
tools/seedtest.py and keep the confirmed ones under /verif/seeded/<PROP>-m<i>/ (patch.diff, demo.py, meta.json)."""
import glob, json, os, re, shutil, subprocess, sys
from concurrent.futures import ThreadPoolExecutor
prop, outdir, extra = sys.argv[1], sys.argv[2], sys.argv[3:]
notes = open(os.path.join(outdir, 'notes.md')).read() if os.path.exists(os.path.join(outdir, 'notes.md')) else ''
def one(diff):
    i = re.search(r'm(\d+)\.diff$', diff).group(1)
    demo = os.path.join(outdir, 'm%s_demo.py' % i)
    p = subprocess.run([os.path.join(os.path.dirname(os.path.abspath(__file__)), 'seedtest.py'), diff, demo if os.path.exists(demo) else '-', prop] + extra, capture_output=True, text=True)
    t = p.stdout
    r = json.loads(t[t.index('{'):])
    confirmed = r.get('applies') and r.get('baseline_ok') and r.get('demo_pristine_rc') == 0 and r.get('demo_patched_rc') not in (0, None)
    caught = {q: (c['rc'] != 0) for q, c in r['checks'].items()}
    kinds = {q: sorted(set(v.get('kind') for v in c['violations'])) for q, c in r['checks'].items()}
    d = '/verif/seeded/%s-%s%s' % (prop, os.environ.get('SEED_PREFIX', 'm'), i)
    if confirmed:
        os.makedirs(d, exist_ok=True)
        shutil.copy(diff, os.path.join(d, 'patch.diff'))
        shutil.copy(demo, os.path.join(d, 'demo.py'))
        sec = re.split(r'(?m)^#+ ', notes)
        mine = [s for s in sec if re.match(r'(m|M|Change |change )?%s\b' % i, s.strip()[:12])]
        meta = dict(property=prop, breaks=prop, needs_to_manifest=(mine[0][:1500] if mine else 'see the seeding agent notes (not kept)'),
                    confirmed=dict(applies=True, baseline=r['baseline'], demo_exit_pristine=r['demo_pristine_rc'], demo_exit_patched=r['demo_patched_rc'],
                                   how='tools/seedtest.py: scratch worktree of /repo + git apply; tools/baseline.py; demo with PYTHONPATH=/repo and =patched tree; checks with VERIF_REPO=patched tree'),
                    checks={q: dict(caught=caught[q], kinds=kinds[q], first=(c['violations'][0] if c['violations'] else None)) for q, c in r['checks'].items()})
        json.dump(meta, open(os.path.join(d, 'meta.json'), 'w'), indent=1)
    return 'm%s confirmed=%s baseline=%s demo=%s/%s caught=%s kinds=%s' % (i, bool(confirmed), r.get('baseline'), r.get('demo_pristine_rc'), r.get('demo_patched_rc'), caught, kinds)
with ThreadPoolExecutor(3) as ex:
    for line in ex.map(one, sorted(glob.glob(os.path.join(outdir, 'm*.diff')))):
        print(prop, line)
