#!/venv/bin/python
"""Run only the pipeline stream of C12 (harness/c12_pipeline.py) and print what it found:
   tools/run_pipeline_stream.py [quick|thorough] [seed]"""
import json
import os
import sys
import time
ROOT = os.path.dirname(os.path.dirname(os.path.abspath(__file__)))
sys.path.insert(0, os.path.join(ROOT, 'harness'))
import lib  # noqa
import c12_pipeline  # noqa

tier = sys.argv[1] if len(sys.argv) > 1 else 'quick'
seed = int(sys.argv[2]) if len(sys.argv) > 2 else int(os.environ.get('VERIF_SEED', '20261001'))
ctx = lib.Ctx('C12', tier, seed)
t0 = time.time()
c12_pipeline.run_latex_pipeline(ctx)
print('wall %.1fs  evaluations %d  distinct non-trivial %d' % (time.time() - t0, ctx.evaluations, len(ctx.nontrivial)))
for n in ctx.notes:
    print('note:', n)
for k in sorted(ctx.dist):
    if k.startswith("tex"):
        print(k, json.dumps(ctx.dist[k], sort_keys=True))
for hid, h in ctx.known_hits.items():
    print('KNOWN-FINDING', hid, h['n'])
for v in ctx.violations:
    print('VIOLATION', v['kind'], v['site'], v['cls'], 'x%d' % v['count'], v['what'])
    print('   ', json.dumps(v['replay'], default=str)[:700])
sys.exit(1 if ctx.violations else 0)
