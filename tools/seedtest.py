#!/venv/bin/python
"""Try one seeded change:  tools/seedtest.py <patch.diff> <demo.py|-> <Cxx> [Cyy ...]

Creates a scratch worktree of /repo, applies the patch there, runs the pinned
baseline (must stay 518/518), the demonstration (must pass on /repo, fail on the
patched tree) and the named checks with VERIF_REPO pointing at the patched tree
(evidence/replays redirected to the scratch directory).  Removes the worktree."""
import json, os, shutil, subprocess, sys, tempfile
ROOT = os.path.dirname(os.path.dirname(os.path.abspath(__file__)))
patch, demo, props = sys.argv[1], sys.argv[2], sys.argv[3:]
tier = os.environ.get('SEED_TIER', 'quick')
work = tempfile.mkdtemp(prefix='seedtest-')
tree = os.path.join(work, 'repo')
out = os.path.join(work, 'out')
res = dict(patch=patch, checks={})
try:
    subprocess.run(['git', '-C', '/repo', 'worktree', 'add', '-q', '--detach', tree, 'HEAD'], check=True)
    a = subprocess.run(['git', '-C', tree, 'apply', os.path.abspath(patch)], capture_output=True, text=True)
    if a.returncode != 0:
        a = subprocess.run(['patch', '-p1', '-s', '-d', tree, '-i', os.path.abspath(patch)], capture_output=True, text=True)
    res['applies'] = a.returncode == 0
    if not res['applies']:
        res['apply_error'] = (a.stderr or a.stdout)[-300:]
    else:
        if os.environ.get('SEED_SKIP_BASELINE'):          # re-check of a change that was confirmed before
            res['baseline'], res['baseline_ok'] = 'skipped (confirmed when collected)', True
        else:
            b = subprocess.run([os.path.join(ROOT, 'tools', 'baseline.py')], env=dict(os.environ, VERIF_REPO=tree), capture_output=True, text=True)
            res['baseline'] = b.stdout.strip().split('\n')[0]
            res['baseline_ok'] = b.returncode == 0
        if demo != '-':
            env = dict(os.environ)
            d0 = subprocess.run(['/venv/bin/python', '-W', 'ignore', demo], env=dict(env, PYTHONPATH='/repo'), capture_output=True, text=True, cwd=work, timeout=600)
            d1 = subprocess.run(['/venv/bin/python', '-W', 'ignore', demo], env=dict(env, PYTHONPATH=tree), capture_output=True, text=True, cwd=work, timeout=600)
            res['demo_pristine_rc'] = d0.returncode
            res['demo_patched_rc'] = d1.returncode
            res['demo_patched_tail'] = (d1.stdout + d1.stderr).strip()[-300:]
        for p in props:
            c = subprocess.run([os.path.join(ROOT, 'check'), p, '--tier', tier, '--no-build'], env=dict(os.environ, VERIF_REPO=tree, VERIF_OUT=out), capture_output=True, text=True, cwd=ROOT)
            lines = [l for l in c.stdout.split('\n') if l.startswith(('VIOLATION', 'KNOWN-FINDING'))]
            viol = []
            for l in lines:
                if l.startswith('VIOLATION'):
                    rp = l.split('replay=')[1].split()[0]
                    try:
                        r = json.load(open(rp))
                        viol.append(dict(line=l.replace(out, '<out>'), kind=r.get('kind'), what=r.get('what', '')[:200], site=r.get('site'), cls=r.get('input_class')))
                    except Exception:
                        viol.append(dict(line=l))
            res['checks'][p] = dict(rc=c.returncode, violations=viol, known=[l[:120] for l in lines if l.startswith('KNOWN')])
finally:
    subprocess.run(['git', '-C', '/repo', 'worktree', 'remove', '--force', tree], capture_output=True)
    shutil.rmtree(work, ignore_errors=True)
print(json.dumps(res, indent=1))
