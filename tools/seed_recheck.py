#!/venv/bin/python
"""tools/seed_recheck.py [name-prefix ...]: re-run the TARGET check of every kept seeded change (seeded/<PROP>-<x><i>/) against the
current machinery (patch applied in a scratch worktree, demo re-run, quick tier) and update meta.json: checks[PROP].  The 518-test
baseline of a change was confirmed when it was collected and is not repeated here."""
import glob, json, os, subprocess, sys
from concurrent.futures import ThreadPoolExecutor
ROOT = os.path.dirname(os.path.dirname(os.path.abspath(__file__)))
sel = sys.argv[1:]
dirs = [d for d in sorted(glob.glob(os.path.join(ROOT, 'seeded', '*-*'))) if os.path.exists(os.path.join(d, 'meta.json'))
        and (not sel or any(os.path.basename(d).startswith(x) for x in sel))]


def one(d):
    name = os.path.basename(d)
    prop = name.split('-')[0]
    p = subprocess.run([os.path.join(ROOT, 'tools', 'seedtest.py'), os.path.join(d, 'patch.diff'), os.path.join(d, 'demo.py'), prop],
                       capture_output=True, text=True, env=dict(os.environ, SEED_SKIP_BASELINE='1'))
    t = p.stdout
    try:
        r = json.loads(t[t.index('{'):])
    except Exception:
        return name + ' ERROR ' + (p.stderr or t)[-200:]
    if not r.get('applies'):
        return name + ' DOES NOT APPLY any more: ' + r.get('apply_error', '')[:150]
    c = r['checks'][prop]
    m = json.load(open(os.path.join(d, 'meta.json')))
    m['checks'][prop] = dict(caught=c['rc'] != 0, kinds=sorted(set(v.get('kind') for v in c['violations'])), first=(c['violations'][0] if c['violations'] else None))
    m['confirmed']['demo_exit_pristine'], m['confirmed']['demo_exit_patched'] = r.get('demo_pristine_rc'), r.get('demo_patched_rc')
    json.dump(m, open(os.path.join(d, 'meta.json'), 'w'), indent=1)
    return '%s demo=%s/%s caught=%s %s' % (name, r.get('demo_pristine_rc'), r.get('demo_patched_rc'), c['rc'] != 0, m['checks'][prop]['kinds'])


with ThreadPoolExecutor(int(os.environ.get('SEED_JOBS', '4'))) as ex:
    for line in ex.map(one, dirs):
        print(line, flush=True)
