import sys,random,itertools,math
sys.path.insert(0,'/repo')
import warnings; warnings.simplefilter('ignore')
from cnfgen import *
bad=[]
def allcl(k,n,planted):
    res=[]
    for dom in itertools.combinations(range(1,n+1),k):
        for pol in itertools.product([-1,1],repeat=k):
            c=[p*v for p,v in zip(pol,dom)]
            if all(any(l in a for l in c) for a in planted): res.append(c)
    return res
rnd=random.Random(2)
cnt=0
for k in range(0,4):
  for n in range(0,5):
    for npl in range(0,3):
      planted=[[rnd.choice([-1,1])*v for v in range(1,n+1)] for _ in range(npl)]
      mx=len(allcl(k,n,planted)) if k<=n else 0
      for m in list(range(0,mx+2)):
        for seed in range(3):
            cnt+=1
            try:
                F=RandomKCNF(k,n,m,seed=seed,planted_assignments=planted)
                ok = (k<=n and m<=mx)
                if not ok: bad.append(('accepted',k,n,m,npl)); continue
                cl=[tuple(c) for c in F]
                if F.number_of_variables()!=n or len(cl)!=m or len(set(cl))!=m: bad.append(('shape',k,n,m,npl,cl))
                for c in cl:
                    if len(c)!=k or len({abs(l) for l in c})!=k or not all(1<=abs(l)<=n for l in c): bad.append(('clause',k,n,m,c))
                    if not all(any(l in a for l in c) for a in planted): bad.append(('planted',k,n,m,c))
            except ValueError:
                if k<=n and m<=mx: bad.append(('refused',k,n,m,npl,mx))
            except Exception as e:
                bad.append(('exc',k,n,m,npl,type(e).__name__,str(e)))
print(cnt,"kcnf bad",len(bad),bad[:6])
bad=[]
def allpar(k,n,planted):
    res=[]
    for X in itertools.combinations(range(1,n+1),k):
        for b in (0,1):
            if all(sum(1 for x in X if x in a)%2==b for a in planted): res.append((X,b))
    return res
for k in range(0,4):
  for n in range(0,5):
    for npl in range(0,3):
      planted=[[rnd.choice([-1,1])*v for v in range(1,n+1)] for _ in range(npl)]
      mx=len(allpar(k,n,planted)) if k<=n else 0
      for m in range(0,mx+2):
        for seed in range(3):
            try:
                F=RandomKXOR(k,n,m,seed=seed,planted_assignments=planted)
                if not (k<=n and m<=mx): bad.append(('accepted',k,n,m,npl)); continue
                if F.number_of_variables()!=n: bad.append(('nv',k,n,m))
                per=2**(k-1) if k>0 else None
                if k>0 and len(F)!=m*per: bad.append(('len',k,n,m,len(F)))
                # all planted satisfy
                for a in planted:
                    aset=set(a)
                    if not all(any(l in aset for l in c) for c in F): bad.append(('planted',k,n,m))
                # count models equals solutions of m distinct parities? check distinct groups
                if k>0:
                    groups=[tuple(sorted({abs(l) for l in c})) for c in F]
                    # each parity contributes per clauses with same var set; distinct (X,b)
                    from collections import Counter
                    cc=Counter()
                    for c in F:
                        X=tuple(sorted(abs(l) for l in c)); neg=sum(1 for l in c if l<0)
                        b=(neg+1)%2 if True else 0
                        cc[(X,(k-neg)%2)]+=1
            except ValueError:
                if k<=n and m<=mx: bad.append(('refused',k,n,m,npl,mx))
            except Exception as e:
                bad.append(('exc',k,n,m,npl,type(e).__name__,str(e)))
print("kxor bad",len(bad),bad[:6])
