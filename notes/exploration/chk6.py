import json, itertools, z3, sys
from collections import Counter
recs=json.load(open('fams.json'))
def sat(n,cls):
    s=z3.Solver(); v=[None]+[z3.Bool('x%d'%i) for i in range(1,n+1)]
    for c in cls: s.add(z3.Or([v[l] if l>0 else z3.Not(v[-l]) for l in c]) if c else z3.BoolVal(False))
    return s.check()==z3.sat
def adj(n,E):
    A={v:set() for v in range(1,n+1)}
    for u,v in E: A[u].add(v); A[v].add(u)
    return A
def has_clique(n,E,k):
    Es=set(map(tuple,E))|set((v,u) for u,v in E)
    return any(all((a,b) in Es for a,b in itertools.combinations(S,2)) for S in itertools.combinations(range(1,n+1),k))
def has_indep(n,E,k):
    Es=set(map(tuple,E))|set((v,u) for u,v in E)
    return any(all((a,b) not in Es for a,b in itertools.combinations(S,2)) for S in itertools.combinations(range(1,n+1),k))
def comps(n,E):
    A=adj(n,E); seen=set(); res=[]
    for v in range(1,n+1):
        if v in seen: continue
        st=[v]; c=set()
        while st:
            x=st.pop()
            if x in c: continue
            c.add(x); st.extend(A[x]-c)
        seen|=c; res.append(c)
    return res
def bip_matching_size(L,R,E):
    # max matching brute force
    best=0
    E=[tuple(e) for e in E]
    for k in range(min(L,R),0,-1):
        for S in itertools.combinations(E,k):
            if len(set(u for u,v in S))==k and len(set(v for u,v in S))==k: return k
    return 0
def expected(r):
    nm=r['name']; p=r['params']
    if nm=='php':
        m,n,fn,on=p
        # placement: each pigeon >=1 hole (exactly 1 if fn), holes at most 1 pigeon, onto: each hole >=1
        if m>n: return False
        if on and n>m: return False   # each hole has >=1 pigeon and at most 1 => n<=... holes n each exactly one pigeon; pigeons can sit in several holes unless functional
        return True
    if nm=='bphp': m,n=p; return m<=n
    if nm=='rphp': m,rr,n=p; return m<=rr and m<=n
    if nm=='count': M,pp=p; return M%pp==0
    if nm=='matching':
        n,E=p
        # perfect matching exists?
        E=[tuple(e) for e in E]
        if n%2: return False
        return any(len(set(x for e in S for x in e))==n for S in itertools.combinations(E,n//2))
    if nm=='tiling':
        n,E=p; A=adj(n,E)
        for k in range(n+1):
            for S in itertools.combinations(range(1,n+1),k):
                S=set(S)
                if all(len(({v}|A[v])&S)==1 for v in range(1,n+1)): return True
        return False
    if nm=='kcolor':
        n,E,k=p
        return any(all(col[u-1]!=col[v-1] for u,v in E) for col in itertools.product(range(k),repeat=n))
    if nm=='domset':
        n,E,d,alt=p; A=adj(n,E)
        for k in range(min(d,n)+1):
            for S in itertools.combinations(range(1,n+1),k):
                S=set(S)
                if all((({v}|A[v])&S) for v in range(1,n+1)): return True
        return False
    if nm in('kclique','kcliquebin'):
        n,E,k,sb=p; return has_clique(n,E,k)
    if nm=='ramlb':
        n,E,k,s=p; return has_clique(n,E,k) or has_indep(n,E,s)
    if nm=='ec':
        n,E=p
        return all(sum(1 for u,v in E if u in c)%2==0 for c in comps(n,E))
    if nm=='auto':
        n,E=p; Es=set(map(tuple,E))|set((v,u) for u,v in E)
        for perm in itertools.permutations(range(1,n+1)):
            if all(perm[i]==i+1 for i in range(n)): continue
            if all(((perm[u-1],perm[v-1]) in Es)==((u,v) in Es) for u,v in itertools.combinations(range(1,n+1),2)): return True
        return False
    if nm=='tseitin':
        n,E,ch=p
        return all(sum(ch[v-1] for v in c)%2==0 for c in comps(n,E))
    if nm=='iso':
        n,E1,n2,E2=p
        if n!=n2: return False
        A=set(map(tuple,E1))|set((v,u) for u,v in E1); B=set(map(tuple,E2))|set((v,u) for u,v in E2)
        return any(all(((perm[u-1],perm[v-1]) in B)==((u,v) in A) for u,v in itertools.combinations(range(1,n+1),2)) for perm in itertools.permutations(range(1,n+1)))
    if nm=='subgraph':
        n,E1,k,E2,ind=p  # H=(k,E2) subgraph of G=(n,E1)
        A=set(map(tuple,E1))|set((v,u) for u,v in E1); B=set(map(tuple,E2))|set((v,u) for u,v in E2)
        for f in itertools.permutations(range(1,n+1),k):
            ok=True
            for i,j in itertools.combinations(range(1,k+1),2):
                h=(i,j) in B; g=(f[i-1],f[j-1]) in A
                if h and not g: ok=False
                if ind and g and not h: ok=False
            if ok: return True
        return False
    if nm in ('op','gop'):
        if nm=='op': n,tot,sm,pl,kn=p; E=list(itertools.combinations(range(1,n+1),2))
        else: n,E,tot,sm,pl,kn=p
        if n==0: return True
        if not pl: return False
        # planted: vertex n may be minimum: sat iff exists (partial/total) order where every v!=n has a smaller neighbour
        A=adj(n,E)
        for perm in itertools.permutations(range(1,n+1)):
            pos={v:i for i,v in enumerate(perm)}
            if all(any(pos[u]<pos[v] for u in A[v]) for v in range(1,n)): return True
        return False
    if nm=='ram':
        s,k,N=p
        pairs=list(itertools.combinations(range(1,N+1),2))
        for mask in range(2**len(pairs)):
            E=[pp for i,pp in enumerate(pairs) if mask>>i&1]
            if not has_indep(N,E,s) and not has_clique(N,E,k): return True
        return False
    if nm=='vdw':
        N=p[0]; K=p[1:]
        def aps(k):
            for d in range(1,N+1):
                for i in range(1,N+1):
                    if i+(k-1)*d<=N: yield [i+d*t for t in range(k)]
        for col in itertools.product(range(len(K)),repeat=N):
            if all(not all(col[x-1]==c for x in ap) for c,k in enumerate(K) for ap in aps(k)): return True
        return False
    if nm=='ptn':
        N=p[0]; T=[(x,y,z) for x in range(1,N+1) for y in range(x+1,N+1) for z in range(1,N+1) if x*x+y*y==z*z]
        if N>20: return None
        return any(all(len({col[x-1],col[y-1],col[z-1]})>1 for x,y,z in T) for col in itertools.product([0,1],repeat=N))
    if nm=='cliquecoloring':
        n,k,c=p; return k<=c and k<=n
    if nm=='cpls': return False
    if nm=='gphp':
        L,R,E,fn,on=p
        # exists E' subset: each left >=1 (exactly 1 if fn), each right <=1 (exactly one if on)
        E=[tuple(e) for e in E]
        for k in range(len(E)+1):
            for S in itertools.combinations(E,k):
                dl=Counter(u for u,v in S); dr=Counter(v for u,v in S)
                if all(dl[u]>=1 for u in range(1,L+1)) and all(dr[v]<=1 for v in range(1,R+1)) and (not fn or all(dl[u]==1 for u in range(1,L+1))) and (not on or all(dr[v]==1 for v in range(1,R+1))): return True
        return False
    if nm=='subsetcard':
        L,R,E,eq=p; E=[tuple(e) for e in E]
        degl=Counter(u for u,v in E); degr=Counter(v for u,v in E)
        for k in range(len(E)+1):
            for S in itertools.combinations(E,k):
                dl=Counter(u for u,v in S); dr=Counter(v for u,v in S)
                if eq: ok=all(dl[u]==(degl[u]+1)//2 for u in range(1,L+1)) and all(dr[v]==degr[v]//2 for v in range(1,R+1))
                else: ok=all(2*dl[u]>=degl[u] for u in range(1,L+1)) and all(2*dr[v]<=degr[v] for v in range(1,R+1))
                if ok: return True
        return False
    if nm in('peb','stone','sstone'): return False
    return None
bad=Counter(); tot=Counter()
examples={}
for r in recs:
    e=expected(r)
    if e is None: continue
    if r['n']>40: continue
    s=sat(r['n'],r['cls'])
    tot[r['name']]+=1
    if s!=e:
        bad[r['name']]+=1
        examples.setdefault(r['name'],[]).append((r['params'],'sat' if s else 'unsat','expected', e))
for k in tot: print(k, tot[k], 'bad', bad[k])
for k,v in examples.items():
    print('==',k); 
    for x in v[:8]: print('   ',x)
