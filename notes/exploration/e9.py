import sys,os,glob,tempfile
sys.path.insert(0,'/repo')
import warnings; warnings.simplefilter('ignore')
os.environ['PATH']='/tmp/exp/bin:'+os.environ['PATH']
from cnfgen import CNF
before=set(os.listdir(tempfile.gettempdir()))
F=CNF()
print("zero var:", F.solve(cmd='fakesat',sameas='lingeling'))
F=CNF([[1,-2],[3]])
print("filein_stdout:", F.solve(cmd='fakefile',sameas='sat4j'))
print("minisat:", F.solve(cmd='fakeminisat',sameas='minisat'))
after=set(os.listdir(tempfile.gettempdir()))
print("leaked:", sorted(after-before))
try: F.solve(cmd='nonexistent_solver_xyz')
except Exception as e: print(type(e).__name__, e)
try: F.solve(cmd='fakesat',sameas='foo')
except Exception as e: print(type(e).__name__, e)
try: F.solve()
except Exception as e: print(type(e).__name__, e)
