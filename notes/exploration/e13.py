import sys,random,itertools,copy
sys.path.insert(0,'/repo')
import warnings; warnings.simplefilter('ignore')
from cnfgen import *
from cnfgen.graphs import *
import networkx
rnd=random.Random(11)
bad=[]
# ---------- C16 graph objects fuzz
def check_graph(G,E,n,kind):
    if kind=='simple':
        und={tuple(sorted(e)) for e in E}
        assert G.number_of_edges()==len(und),('m',G.number_of_edges(),len(und))
        assert list(G.edges())==sorted(und),('edges',list(G.edges()),sorted(und))
        assert G.number_of_vertices()==n
        for u in range(1,n+1):
            nb=sorted({b for a,b in und if a==u}|{a for a,b in und if b==u})
            assert list(G.neighbors(u))==nb,('nb',u)
            assert G.degree(u)==len(nb)
        for u in range(0,n+2):
            for v in range(0,n+2):
                assert G.has_edge(u,v)==((min(u,v),max(u,v)) in und and u!=v),('has',u,v)
    elif kind=='di':
        assert G.number_of_edges()==len(E)
        assert list(G.edges())==sorted(E)
        assert sorted(G.edges_ordered_by_successors())==sorted(E)
        for u in range(1,n+1):
            assert list(G.successors(u))==sorted(b for a,b in E if a==u)
            assert list(G.predecessors(u))==sorted(a for a,b in E if b==u)
            assert G.out_degree(u)==len([1 for a,b in E if a==u]); assert G.in_degree(u)==len([1 for a,b in E if b==u])
        assert G.is_dag()==all(a<b for a,b in E)
        for u in range(0,n+2):
            for v in range(0,n+2): assert G.has_edge(u,v)==((u,v) in E)
    else:
        L,R=n
        assert G.number_of_edges()==len(E); assert list(G.edges())==sorted(E)
        for u in range(1,L+1): assert list(G.right_neighbors(u))==sorted(b for a,b in E if a==u); assert G.right_degree(u)==len([1 for a,b in E if a==u])
        for v in range(1,R+1): assert list(G.left_neighbors(v))==sorted(a for a,b in E if b==v)
for it in range(400):
    kind=rnd.choice(['simple','di','bip'])
    try:
        if kind=='simple':
            n=rnd.randint(0,5); G=Graph(n); E=set()
            for step in range(rnd.randint(0,25)):
                op=rnd.choice(['add','add','add','rem','grow'])
                u=rnd.randint(-1,n+1); v=rnd.randint(-1,n+1)
                if op=='add':
                    ok=1<=u<=n and 1<=v<=n and u!=v
                    try:
                        G.add_edge(u,v); assert ok,('accepted',u,v,n)
                        E.add(tuple(sorted((u,v))))
                    except ValueError: assert not ok,('refused',u,v,n)
                elif op=='rem':
                    G.remove_edge(u,v); E.discard(tuple(sorted((u,v))))
                else:
                    k=rnd.randint(0,n+2); G.update_vertex_number(k); n=max(n,k)
                check_graph(G,E,n,'simple')
            H=Graph.from_networkx(G.to_networkx()); assert list(H.edges())==list(G.edges()) and H.number_of_vertices()==n
        elif kind=='di':
            n=rnd.randint(0,5); G=DirectedGraph(n); E=set()
            for step in range(rnd.randint(0,25)):
                u=rnd.randint(-1,n+1); v=rnd.randint(-1,n+1)
                ok=1<=u<=n and 1<=v<=n
                try:
                    G.add_edge(u,v); assert ok; E.add((u,v))
                except ValueError: assert not ok
                check_graph(G,E,n,'di')
            H=DirectedGraph.from_networkx(G.to_networkx()); assert list(H.edges())==list(G.edges()) and H.number_of_vertices()==n
        else:
            L=rnd.randint(0,4); R=rnd.randint(0,4); G=BipartiteGraph(L,R); E=set()
            for step in range(rnd.randint(0,25)):
                u=rnd.randint(-1,L+1); v=rnd.randint(-1,R+1)
                ok=1<=u<=L and 1<=v<=R
                try:
                    G.add_edge(u,v); assert ok; E.add((u,v))
                except ValueError: assert not ok
                check_graph(G,E,(L,R),'bip')
            H=BipartiteGraph.from_networkx(G.to_networkx()); assert list(H.edges())==list(G.edges()) and (H.left_order(),H.right_order())==(L,R)
    except AssertionError as e:
        bad.append((kind,e.args)); 
    except Exception as e:
        bad.append((kind,type(e).__name__,str(e)))
print("C16 bad:",len(bad), bad[:5])
