From Coq Require Import ZArith List Bool Lia Arith.
Import ListNotations.
Open Scope nat_scope.

(* variables as nat here for the probe; literals as Z *)
Definition lit_true (a : nat -> bool) (l : Z) : bool :=
  if (l >? 0)%Z then a (Z.to_nat l) else negb (a (Z.to_nat (- l))).
Definition clause_sat a (c : list Z) := existsb (lit_true a) c.
Definition cnf_sat a (F : list (list Z)) := forallb (clause_sat a) F.

Definition var (n i j : nat) : nat := (i - 1) * n + j.      (* 1<=i<=m, 1<=j<=n *)
Definition pos (v : nat) : Z := Z.of_nat v.
Definition neg (v : nat) : Z := (- Z.of_nat v)%Z.

Fixpoint pairs {A} (l : list A) : list (A * A) :=
  match l with [] => [] | x :: t => map (pair x) t ++ pairs t end.

Definition complete (m n : nat) : list (list Z) :=
  map (fun i => map (fun j => pos (var n i j)) (seq 1 n)) (seq 1 m).
Definition atmost1 (vs : list nat) : list (list Z) :=
  map (fun p => [neg (fst p); neg (snd p)]) (pairs vs).
Definition injective (m n : nat) : list (list Z) :=
  flat_map (fun j => atmost1 (map (fun i => var n i j) (seq 1 m))) (seq 1 n).
Definition php m n := complete m n ++ injective m n.

Lemma lit_pos a v : v <> 0 -> lit_true a (pos v) = a v.
Proof. intros. unfold lit_true, pos. destruct (Z.gtb_spec (Z.of_nat v) 0); [now rewrite Nat2Z.id | exfalso; lia]. Qed.
Lemma lit_neg a v : v <> 0 -> lit_true a (neg v) = negb (a v).
Proof. intros. unfold lit_true, neg. destruct (Z.gtb_spec (- Z.of_nat v) 0); [exfalso; lia|]. now rewrite Z.opp_involutive, Nat2Z.id. Qed.

Lemma var_pos n i j : 1 <= i -> 1 <= j -> var n i j <> 0.
Proof. unfold var; intros; pose proof (Nat.le_0_l ((i-1)*n)); lia. Qed.

Lemma In_pairs {A} (l : list A) x y : In (x,y) (pairs l) -> In x l /\ In y l.
Proof. induction l as [|z t IH]; cbn; [tauto|]. rewrite in_app_iff, in_map_iff.
  intros [[w [E H]]|H]. inversion E; subst; tauto. apply IH in H; tauto. Qed.

Lemma pairs_map_seq_in {B} (f : nat -> B) : forall k a i1 i2, a <= i1 -> i1 < i2 -> i2 < a + k ->
  In (f i1, f i2) (pairs (map f (seq a k))).
Proof.
  induction k as [|k IH]; intros a i1 i2 H1 H2 H3; [lia|]. cbn. apply in_or_app.
  destruct (Nat.eq_dec i1 a) as [->|Hne].
  - left. apply in_map. apply in_map. apply in_seq. lia.
  - right. apply IH; lia.
Qed.
Lemma pairs_map_seq_inv {B} (f : nat -> B) : forall k a x y, In (x,y) (pairs (map f (seq a k))) ->
  exists i1 i2, a <= i1 /\ i1 < i2 /\ i2 < a + k /\ x = f i1 /\ y = f i2.
Proof.
  induction k as [|k IH]; intros a x y H; cbn in H; [tauto|]. apply in_app_or in H as [H|H].
  - apply in_map_iff in H as [w [E Hw]]. inversion E; subst. apply in_map_iff in Hw as [i2 [<- Hi]]. apply in_seq in Hi.
    exists a, i2. repeat split; lia.
  - apply IH in H as [i1 [i2 [? [? [? [? ?]]]]]]. exists i1, i2. repeat split; auto; lia.
Qed.

(* characterisation *)
Definition R (a : nat -> bool) n i j := a (var n i j).

Theorem php_T1 a m n : cnf_sat a (php m n) = true <->
  (forall i, 1 <= i <= m -> exists j, 1 <= j <= n /\ R a n i j = true) /\
  (forall j i1 i2, 1 <= j <= n -> 1 <= i1 -> i1 < i2 -> i2 <= m -> R a n i1 j = true -> R a n i2 j = true -> False).
Proof.
  unfold php, cnf_sat. rewrite forallb_app, andb_true_iff. assert (forall A B C D : Prop, (A<->C) -> (B<->D) -> (A/\B <-> C/\D)) as Hand by tauto. apply Hand.
  - unfold complete. rewrite forallb_forall. split.
    + intros H i Hi. specialize (H (map (fun j => pos (var n i j)) (seq 1 n))).
      assert (In (map (fun j => pos (var n i j)) (seq 1 n)) (map (fun i => map (fun j => pos (var n i j)) (seq 1 n)) (seq 1 m))) as Hin.
      { apply in_map_iff. exists i. split; [reflexivity|]. apply in_seq; lia. }
      apply H in Hin. unfold clause_sat in Hin. apply existsb_exists in Hin as [l [Hl Ht]].
      apply in_map_iff in Hl as [j [<- Hj]]. apply in_seq in Hj. exists j. split; [lia|].
      rewrite lit_pos in Ht by (apply var_pos; lia). exact Ht.
    + intros H c Hc. apply in_map_iff in Hc as [i [<- Hi]]. apply in_seq in Hi.
      destruct (H i ltac:(lia)) as [j [Hj Ht]]. unfold clause_sat. apply existsb_exists.
      exists (pos (var n i j)). split. apply in_map_iff. exists j. split; [reflexivity|apply in_seq; lia].
      rewrite lit_pos by (apply var_pos; lia). exact Ht.
  - unfold injective. rewrite forallb_forall. split.
    + intros H j i1 i2 Hj H1 H12 H2 T1 T2.
      specialize (H [neg (var n i1 j); neg (var n i2 j)]).
      assert (In [neg (var n i1 j); neg (var n i2 j)] (flat_map (fun j0 => atmost1 (map (fun i => var n i j0) (seq 1 m))) (seq 1 n))) as Hin.
      { apply in_flat_map. exists j. split; [apply in_seq; lia|]. unfold atmost1. apply in_map_iff.
        exists (var n i1 j, var n i2 j). split; [reflexivity|].
        apply (pairs_map_seq_in (fun i => var n i j)); lia. }
      apply H in Hin. unfold clause_sat in Hin. cbn in Hin.
      rewrite !lit_neg in Hin by (apply var_pos; lia). unfold R in *. rewrite T1, T2 in Hin. discriminate.
    + intros H c Hc. apply in_flat_map in Hc as [j [Hj Hc]]. apply in_seq in Hj.
      unfold atmost1 in Hc. apply in_map_iff in Hc as [[x y] [<- Hp]].
      apply (pairs_map_seq_inv (fun i => var n i j)) in Hp as [i1 [i2 [A1 [A2 [A3 [-> ->]]]]]].
      unfold clause_sat; cbn. rewrite !lit_neg by (apply var_pos; lia).
      destruct (a (var n i1 j)) eqn:T1; cbn; [|reflexivity].
      destruct (a (var n i2 j)) eqn:T2; cbn; [|reflexivity].
      exfalso. eapply (H j i1 i2); eauto; lia.
Qed.
Print Assumptions php_T1.
