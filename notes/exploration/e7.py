import sys,itertools,random
sys.path.insert(0,'/repo')
import warnings; warnings.simplefilter('ignore')
from cnfgen import *
from cnfgen.graphs import BipartiteGraph
random.seed(3)
def ev(cls,a): return all(any((a[abs(l)] if l>0 else not a[abs(l)]) for l in c) for c in cls)
def rand_cnf():
    n=random.randint(0,3); F=CNF(); F.update_variable_number(n)
    for _ in range(random.randint(0,3)):
        w=random.randint(0,3)
        if n==0: w=0
        F.add_clause([random.choice([-1,1])*random.randint(1,n) for _ in range(w)])
    return F
def blocks(a,N,k): return [[a[(v-1)*k+i] for i in range(1,k+1)] for v in range(1,N+1)]
bad={}
def check(name,F,G,dec,valid=lambda a:True,expect_nv=None):
    N=F.number_of_variables(); M=G.number_of_variables()
    if expect_nv is not None and M!=expect_nv: bad.setdefault(name+'-nv',[]).append((list(F),N,M,expect_nv))
    for bits in itertools.product([False,True],repeat=M):
        a=[None]+list(bits)+[False]*20
        orig=[None]+dec(a)
        want=valid(a) and ev(list(F),orig)
        got=ev(list(G),a)
        if want!=got:
            bad.setdefault(name,[]).append((list(F),N,list(G),bits)); return
for it in range(150):
    F=rand_cnf(); N=F.number_of_variables()
    for k in (1,2,3):
        if N*k>12: continue
        check('xor%d'%k,F,XorSubstitution(F,k),lambda a:[sum(b)%2==1 for b in blocks(a,N,k)],expect_nv=N*k)
        check('or%d'%k,F,OrSubstitution(F,k),lambda a:[any(b) for b in blocks(a,N,k)],expect_nv=N*k)
        check('maj%d'%k,F,MajoritySubstitution(F,k),lambda a:[2*sum(b)>=k for b in blocks(a,N,k)],expect_nv=N*k)
        check('eq%d'%k,F,AllEqualSubstitution(F,k),lambda a:[len(set(b))==1 for b in blocks(a,N,k)],expect_nv=N*k)
        check('neq%d'%k,F,NotAllEqualSubstitution(F,k),lambda a:[len(set(b))>1 for b in blocks(a,N,k)],expect_nv=N*k)
        check('one%d'%k,F,ExactlyOneSubstitution(F,k),lambda a:[sum(b)==1 for b in blocks(a,N,k)],expect_nv=N*k)
        for c in range(-1,k+2):
            check('exact%d_%d'%(k,c),F,ExactlyKSubstitution(F,k,c),lambda a:[sum(b)==c for b in blocks(a,N,k)],expect_nv=N*k)
            check('atleast%d_%d'%(k,c),F,AtLeastKSubstitution(F,k,c),lambda a:[sum(b)>=c for b in blocks(a,N,k)],expect_nv=N*k)
            check('atmost%d_%d'%(k,c),F,AtMostKSubstitution(F,k,c),lambda a:[sum(b)<=c for b in blocks(a,N,k)],expect_nv=N*k)
            check('anybut%d_%d'%(k,c),F,AnythingButKSubstitution(F,k,c),lambda a:[sum(b)!=c for b in blocks(a,N,k)],expect_nv=N*k)
        if 2*N*k<=12:
            def decl(a):
                res=[]
                for v in range(1,N+1):
                    X=[a[(v-1)*2*k+i] for i in range(1,k+1)]; Y=[a[(v-1)*2*k+k+i] for i in range(1,k+1)]
                    res.append(X[Y.index(True)] if sum(Y)==1 else False)
                return res
            def vall(a): return all(sum(a[(v-1)*2*k+k+i] for i in range(1,k+1))==1 for v in range(1,N+1))
            check('lift%d'%k,F,FormulaLifting(F,k),decl,vall,expect_nv=2*N*k)
    check('ite',F,IfThenElseSubstitution(F),lambda a:[(a[N+v] if a[v] else a[2*N+v]) for v in range(1,N+1)],expect_nv=3*N)
    check('flip',F,FlipPolarity(F),lambda a:[not a[v] for v in range(1,N+1)],expect_nv=N)
    R=random.randint(0,4); B=BipartiteGraph(N,R)
    for u in range(1,N+1):
        for v in range(1,R+1):
            if random.random()<0.5: B.add_edge(u,v)
    check('xorcomp',F,VariableCompression(F,B,'xor'),lambda a:[sum(a[v] for v in B.right_neighbors(u))%2==1 for u in range(1,N+1)],expect_nv=R)
    check('majcomp',F,VariableCompression(F,B,'maj'),lambda a:[2*sum(a[v] for v in B.right_neighbors(u))>=len(B.right_neighbors(u)) for u in range(1,N+1)],expect_nv=R)
print({k:len(v) for k,v in bad.items()})
for k,v in list(bad.items())[:6]: print(k, v[0])
