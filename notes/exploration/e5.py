import json, z3
d=json.load(open('/tmp/exp/pit.json'))
for seed,(n,cl) in d.items():
    s=z3.Solver(); v=[None]+[z3.Bool('x%d'%i) for i in range(1,n+1)]
    for c in cl: s.add(z3.Or([v[l] if l>0 else z3.Not(v[-l]) for l in c]))
    print(seed, n, len(cl), s.check(), max(abs(l) for c in cl for l in c))
