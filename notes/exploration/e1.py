import sys, io, traceback
sys.path.insert(0,'/repo')
import warnings; warnings.simplefilter('ignore')
from cnfgen import *
from cnfgen.formula.cnf import CNF
from cnfgen.formula.opb import OPB
from cnfgen.formula.basecnf import BaseCNF
from cnfgen.formula.variables import VariablesManager
from io import StringIO
def t(name, f):
    try:
        r=f()
        print("OK  ",name,"->",repr(r)[:200])
    except Exception as e:
        print("EXC ",name,"->",type(e).__name__,str(e)[:150])

# C04 tuple/range with !=
t("add_linear tuple !=", lambda: (lambda F:(F.add_linear((1,2,3),'!=',1),list(F))[1])(CNF()))
t("add_linear range !=", lambda: (lambda F:(F.add_linear(range(1,4),'!=',1),list(F))[1])(CNF()))
t("opb neq tuple", lambda: (lambda F:(F.cardinality_neq((1,2,3),1),list(F))[1])(OPB()))
t("add_linear range ==", lambda: (lambda F:(F.add_linear(range(1,4),'==',1),list(F))[1])(CNF()))
# C11 comb w/ replacement
t("new_combinations_with_replacement", lambda: len(CNF().new_combinations_with_replacement(3,2)))
# C11 singleton label alignment
def lab():
    F=CNF(); F.update_variable_number(3); x=F.new_variable('X'); b=F.new_block(2,label='b{}')
    return x, list(F.all_variable_labels())
t("labels singleton after anon", lab)
def lab2():
    F=CNF(); F.add_clause([1,2]); x=F.new_variable('X')
    return x, list(F.all_variable_labels())
t("labels singleton after clause", lab2)
# C06 header newline
def hdr():
    F=CNF([[1,2]],description="a\nb"); s=StringIO(); F.to_file(s); s.seek(0)
    return CNF.from_file(s)
t("dimacs header newline", hdr)
t("dimacs int underscore", lambda: list(CNF.from_file(StringIO("p cnf 20 1\n1_0 0\n"))))
t("dimacs p opb", lambda: list(CNF.from_file(StringIO("p opb 2 1\n1 0\n"))))
t("dimacs empty", lambda: list(CNF.from_file(StringIO(""))))
# C14
from cnfgen.graphs import readGraph, writeGraph, Graph, BipartiteGraph, DirectedGraph, bipartite_random_m_edges, bipartite_shift
t("kthlist empty simple", lambda: readGraph(StringIO(""),'simple','kthlist'))
t("kthlist empty bip", lambda: readGraph(StringIO(""),'bipartite','kthlist'))
t("dimacs graph blank line", lambda: readGraph(StringIO("p edge 2 1\n\ne 1 2\n"),'simple','dimacs'))
t("dimacs graph empty", lambda: readGraph(StringIO(""),'simple','dimacs'))
t("kthlist bip dup line", lambda: list(readGraph(StringIO("4\n1 : 3 0\n1 : 4 0\n"),'bipartite','kthlist').edges()))
t("kthlist bip decreasing", lambda: list(readGraph(StringIO("4\n2 : 3 0\n1 : 4 0\n"),'bipartite','kthlist').edges()))
def dotrt():
    G=Graph(12); G.add_edge(1,2); G.add_edge(2,10); G.add_edge(3,11)
    s=StringIO(); writeGraph(G,s,'simple','dot'); s.seek(0)
    H=readGraph(s,'simple','dot'); return H.number_of_vertices(), list(H.edges())
t("dot roundtrip 12", dotrt)
def gmlrt():
    G=Graph(12); G.add_edge(1,2); G.add_edge(2,10); G.add_edge(3,11)
    s=StringIO(); writeGraph(G,s,'simple','gml'); s.seek(0)
    H=readGraph(s,'simple','gml'); return H.number_of_vertices(), list(H.edges())
t("gml roundtrip 12", gmlrt)
def bipdot():
    G=BipartiteGraph(11,3); G.add_edge(10,2); G.add_edge(2,3); G.add_edge(11,1)
    s=StringIO(); writeGraph(G,s,'bipartite','dot'); s.seek(0)
    H=readGraph(s,'bipartite','dot'); return H.left_order(),H.right_order(), list(H.edges())
t("bip dot roundtrip", bipdot)
# C15
import random
t("glrm dense", lambda: bipartite_random_m_edges(3,3,8).number_of_edges())
t("glrm sparse", lambda: bipartite_random_m_edges(3,3,2).number_of_edges())
def shiftmut():
    p=[3,1,2]; bipartite_shift(4,4,p); return p
t("shift mutates pattern", shiftmut)
# C03
t("vdw k=1", lambda: len(VanDerWaerden(5,1,2)))
t("op 0", lambda: len(OrderingPrinciple(0)))
t("pitfall nz=1", lambda: len(PitfallFormula(4,3,2,1,2)))
t("pitfall d=v", lambda: len(PitfallFormula(4,4,2,2,2)))
# C02 ramsey witness k != s
def rw():
    G=Graph(3)  # empty graph on 3 vertices: has 3-independent set, no 2-clique
    F=RamseyWitnessFormula(G,2,3)
    return F.number_of_variables(), len(F)
t("ramlb k=2 s=3", rw)
# C07 kcolor description
t("kcolor descr", lambda: GraphColoringFormula(Graph(2),2).header['description'])
# C20
