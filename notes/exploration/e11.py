import sys,json,random
sys.path.insert(0,'/tmp/exp/patched')
import warnings; warnings.simplefilter('ignore')
from cnfgen import *
out=[]
for (v,d,ny,nz,k) in [(4,2,2,2,2),(4,3,1,2,2),(5,2,3,2,2),(4,2,2,3,4),(6,3,2,2,2),(3,2,1,2,2)]:
    for seed in range(3):
        random.seed(seed)
        F=PitfallFormula(v,d,ny,nz,k)
        out.append(((v,d,ny,nz,k,seed),F.number_of_variables(),[list(c) for c in F],F.debug()))
json.dump(out,open('pit2.json','w'))
