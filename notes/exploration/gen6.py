import sys,json,itertools,random
sys.path.insert(0,'/repo')
import warnings; warnings.simplefilter('ignore')
from cnfgen import *
from cnfgen.graphs import Graph, BipartiteGraph, DirectedGraph
out=[]
def rec(name, params, F, extra=None):
    out.append(dict(name=name, params=params, n=F.number_of_variables(), cls=[list(c) for c in F], extra=extra))
def graphs(n):
    pairs=list(itertools.combinations(range(1,n+1),2))
    for mask in range(2**len(pairs)):
        E=[p for i,p in enumerate(pairs) if mask>>i&1]
        yield E
def mk(n,E):
    G=Graph(n); 
    for u,v in E: G.add_edge(u,v)
    return G
random.seed(1)
# PHP variants
for m in range(0,4):
  for n in range(0,4):
    for fn in (0,1):
      for on in (0,1):
        rec('php',[m,n,fn,on],PigeonholePrinciple(m,n,bool(fn),bool(on)))
    if m>=1 and n>=1: rec('bphp',[m,n],BinaryPigeonholePrinciple(m,n))
    for r in range(0,4):
        rec('rphp',[m,r,n],RelativizedPigeonholePrinciple(m,r,n))
for M in range(0,7):
  for p in range(1,4):
    rec('count',[M,p],CountingPrinciple(M,p))
for n in range(0,5):
  for E in graphs(n):
    if n==4 and random.random()<0.5: continue
    G=mk(n,E)
    rec('matching',[n,E],PerfectMatchingPrinciple(G))
    rec('tiling',[n,E],Tiling(G))
    for k in range(1,4): rec('kcolor',[n,E,k],GraphColoringFormula(G,k))
    for d in range(1,4):
        for alt in (0,1): rec('domset',[n,E,d,alt],DominatingSet(G,d,bool(alt)))
    for k in range(0,4):
        for sb in (0,1):
            rec('kclique',[n,E,k,sb],CliqueFormula(G,k,bool(sb)))
            if n>=1 and k>=1: rec('kcliquebin',[n,E,k,sb],BinaryCliqueFormula(G,k,bool(sb)))
        for s in range(0,4):
            rec('ramlb',[n,E,k,s],RamseyWitnessFormula(G,k,s))
    if all(G.degree(v)%2==0 for v in G.vertices()): rec('ec',[n,E],EvenColoringFormula(G))
    rec('auto',[n,E],GraphAutomorphism(G))
    for ch in itertools.product([0,1],repeat=n):
        if n<=3: rec('tseitin',[n,E,list(ch)],TseitinFormula(G,list(ch)))
    for tot,sm,kn in [(0,0,0),(1,0,0),(0,1,0),(0,0,2),(0,0,3)]:
        for pl in (0,1):
            rec('gop',[n,E,tot,sm,pl,kn],GraphOrderingPrinciple(G,bool(tot),bool(sm),bool(pl),kn))
for n in range(0,4):
  for E1 in graphs(n):
    for n2 in range(0,4):
      for E2 in graphs(n2):
        rec('iso',[n,E1,n2,E2],GraphIsomorphism(mk(n,E1),mk(n2,E2)))
        if n2<=n:
            for ind in (0,1):
                rec('subgraph',[n,E1,n2,E2,ind],SubgraphFormula(mk(n,E1),mk(n2,E2),induced=bool(ind)))
for n in range(0,6):
    for tot,sm,kn in [(0,0,0),(1,0,0),(0,1,0),(0,0,2),(0,0,3),(1,0,2),(1,0,3)]:
        for pl in (0,1): rec('op',[n,tot,sm,pl,kn],OrderingPrinciple(n,bool(tot),bool(sm),bool(pl),kn))
for s in range(1,4):
  for k in range(1,4):
    for N in range(0,6): rec('ram',[s,k,N],RamseyNumber(s,k,N))
for N in range(0,9):
  for k1 in range(2,4):
    for k2 in range(2,4):
        rec('vdw',[N,k1,k2],VanDerWaerden(N,k1,k2))
        rec('vdw',[N,k1,k2,2],VanDerWaerden(N,k1,k2,2))
for N in [0,5,13,26]: rec('ptn',[N],PythagoreanTriples(N))
for n in range(1,4):
  for k in range(1,4):
    for c in range(1,4): rec('cliquecoloring',[n,k,c],CliqueColoring(n,k,c))
for a in range(1,4):
  for b in (1,2,4):
    for c in (1,2,4): rec('cpls',[a,b,c],CPLSFormula(a,b,c))
# bipartite
def bgraphs(L,R):
    pairs=[(u,v) for u in range(1,L+1) for v in range(1,R+1)]
    for mask in range(2**len(pairs)):
        yield [p for i,p in enumerate(pairs) if mask>>i&1]
def mkb(L,R,E):
    B=BipartiteGraph(L,R)
    for u,v in E: B.add_edge(u,v)
    return B
for L in range(0,4):
  for R in range(0,3):
    for E in bgraphs(L,R):
        B=mkb(L,R,E)
        for fn in (0,1):
          for on in (0,1): rec('gphp',[L,R,E,fn,on],GraphPigeonholePrinciple(B,bool(fn),bool(on)))
        for eq in (0,1): rec('subsetcard',[L,R,E,eq],SubsetCardinalityFormula(B,bool(eq)))
# DAGs
def dags(n):
    pairs=list(itertools.combinations(range(1,n+1),2))
    for mask in range(2**len(pairs)):
        yield [p for i,p in enumerate(pairs) if mask>>i&1]
for n in range(1,5):
  for E in dags(n):
    D=DirectedGraph(n)
    for u,v in E: D.add_edge(u,v)
    rec('peb',[n,E],PebblingFormula(D))
    if n<=3:
      for s in range(0,3): rec('stone',[n,E,s],StoneFormula(D,s))
      for R in range(0,3):
        if n<=2 or random.random()<0.05:
          for BE in bgraphs(n,R):
            rec('sstone',[n,E,R,BE],SparseStoneFormula(D,mkb(n,R,BE)))
json.dump(out,open('fams.json','w'))
print(len(out))
