From Coq Require Import ZArith List Bool Lia.
Import ListNotations.
Open Scope Z_scope.

Definition lit_true (a : Z -> bool) (l : Z) : bool := if l >? 0 then a l else negb (a (- l)).
Definition clause_sat a (c : list Z) := existsb (lit_true a) c.
Definition cnf_sat a (F : list (list Z)) := forallb (clause_sat a) F.

Fixpoint combs {A} (l : list A) (k : nat) : list (list A) :=
  match k with
  | O => [[]]
  | S k' => match l with
            | [] => []
            | x :: t => map (cons x) (combs t k') ++ combs t (S k')
            end
  end.

Definition count_false a (l : list Z) : nat := length (filter (fun x => negb (lit_true a x)) l).

Lemma forallb_map {A B} (f:A->B) p l : forallb p (map f l) = forallb (fun x => p (f x)) l.
Proof. induction l; cbn; congruence. Qed.
Lemma forallb_ext {A} (p q:A->bool) l : (forall x, p x = q x) -> forallb p l = forallb q l.
Proof. intros H; induction l; cbn; congruence. Qed.
Lemma combs_nil_S {A} k : @combs A [] (S k) = []. Proof. reflexivity. Qed.

Lemma atleast_core a : forall l j,
  cnf_sat a (combs l j) = (count_false a l <? j)%nat.
Proof.
  induction l as [|x t IH]; intros j.
  - destruct j; reflexivity.
  - destruct j as [|j'].
    + reflexivity.
    + cbn [combs]. unfold cnf_sat in *. rewrite forallb_app, forallb_map.
      unfold count_false in *. cbn [filter].
      destruct (lit_true a x) eqn:Hx; cbn [negb].
      * rewrite IH.
        assert (forallb (fun c => clause_sat a (x :: c)) (combs t j') = true) as ->.
        { apply forallb_forall. intros c _. unfold clause_sat. cbn. now rewrite Hx. }
        reflexivity.
      * cbn [length].
        assert (forallb (fun c => clause_sat a (x :: c)) (combs t j') = forallb (clause_sat a) (combs t j')) as ->.
        { apply forallb_ext. intros c. unfold clause_sat. cbn. now rewrite Hx. }
        rewrite !IH.
        destruct (Nat.ltb_spec (length (filter (fun x0 => negb (lit_true a x0)) t)) j');
        destruct (Nat.ltb_spec (length (filter (fun x0 => negb (lit_true a x0)) t)) (S j'));
        destruct (Nat.ltb_spec (S (length (filter (fun x0 => negb (lit_true a x0)) t))) (S j')); try reflexivity; lia.
Qed.
Print Assumptions atleast_core.

Require Extraction.
Require Import ExtrOcamlBasic.
Extraction "probe.ml" combs cnf_sat.
