import json, z3
for p,n,cl,dbg in json.load(open('/tmp/exp/pit2.json')):
    s=z3.Solver(); v=[None]+[z3.Bool('x%d'%i) for i in range(1,n+1)]
    for c in cl: s.add(z3.Or([v[l] if l>0 else z3.Not(v[-l]) for l in c]))
    print(p, n, len(cl), s.check(), 'debug',dbg)
