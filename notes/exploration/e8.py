import sys,itertools,random
sys.path.insert(0,'/repo')
import warnings; warnings.simplefilter('ignore')
from cnfgen import *
from cnfgen.formula.opb import OPB
from cnfgen.graphs import *
import networkx
random.seed(5)
def rg(n,p):
    G=Graph(n)
    for u,v in itertools.combinations(range(1,n+1),2):
        if random.random()<p: G.add_edge(u,v)
    return G
def rb(L,R,p):
    B=BipartiteGraph(L,R)
    for u in range(1,L+1):
        for v in range(1,R+1):
            if random.random()<p: B.add_edge(u,v)
    return B
def rd(n,p):
    D=DirectedGraph(n)
    for u,v in itertools.combinations(range(1,n+1),2):
        if random.random()<p: D.add_edge(u,v)
    return D
fams=[
 ("php",lambda fc:PigeonholePrinciple(13,9,True,True,formula_class=fc)),
 ("gphp",lambda fc:GraphPigeonholePrinciple(rb(9,7,.4),True,True,formula_class=fc)),
 ("bphp",lambda fc:BinaryPigeonholePrinciple(9,13,formula_class=fc)),
 ("rphp",lambda fc:RelativizedPigeonholePrinciple(5,7,6,formula_class=fc)),
 ("count",lambda fc:CountingPrinciple(9,3,formula_class=fc)),
 ("matching",lambda fc:PerfectMatchingPrinciple(rg(9,.5),formula_class=fc)),
 ("subsetcard",lambda fc:SubsetCardinalityFormula(rb(8,8,.5),formula_class=fc)),
 ("cliquecol",lambda fc:CliqueColoring(7,4,3,formula_class=fc)),
 ("tseitin",lambda fc:TseitinFormula(rg(9,.4),formula_class=fc)),
 ("kcolor",lambda fc:GraphColoringFormula(rg(9,.4),4,formula_class=fc)),
 ("ec",lambda fc:EvenColoringFormula(Graph.complete_graph(7),formula_class=fc)),
 ("domset",lambda fc:DominatingSet(rg(9,.4),3,formula_class=fc)),
 ("domset-alt",lambda fc:DominatingSet(rg(9,.4),3,True,formula_class=fc)),
 ("tiling",lambda fc:Tiling(rg(9,.4),formula_class=fc)),
 ("iso",lambda fc:GraphIsomorphism(rg(6,.4),rg(6,.5),formula_class=fc)),
 ("auto",lambda fc:GraphAutomorphism(rg(6,.4),formula_class=fc)),
 ("subgraph",lambda fc:SubgraphFormula(rg(8,.4),rg(4,.5),formula_class=fc)),
 ("kclique",lambda fc:CliqueFormula(rg(9,.4),4,formula_class=fc)),
 ("kcliquebin",lambda fc:BinaryCliqueFormula(rg(9,.4),4,formula_class=fc)),
 ("ramlb",lambda fc:RamseyWitnessFormula(rg(9,.4),3,4,formula_class=fc)),
 ("op",lambda fc:OrderingPrinciple(8,formula_class=fc)),
 ("op-smart",lambda fc:OrderingPrinciple(8,smart=True,formula_class=fc)),
 ("gop",lambda fc:GraphOrderingPrinciple(rg(8,.5),total=True,knuth=2,formula_class=fc)),
 ("peb",lambda fc:PebblingFormula(dag_pyramid(5),formula_class=fc)),
 ("stone",lambda fc:StoneFormula(dag_pyramid(3),4,formula_class=fc)),
 ("sstone",lambda fc:SparseStoneFormula(dag_pyramid(3),rb(10,5,.5),formula_class=fc)),
 ("cpls",lambda fc:CPLSFormula(3,4,8,formula_class=fc)),
 ("pitfall",lambda fc:PitfallFormula(6,3,4,3,4,formula_class=fc)),
 ("ram",lambda fc:RamseyNumber(3,4,9,formula_class=fc)),
 ("vdw",lambda fc:VanDerWaerden(15,3,4,3,formula_class=fc)),
 ("ptn",lambda fc:PythagoreanTriples(40,formula_class=fc)),
 ("randkcnf",lambda fc:RandomKCNF(3,20,50,formula_class=fc)),
 ("randkxor",lambda fc:RandomKXOR(3,20,10,formula_class=fc)),
]
for name,f in fams:
    for fc in (CNF,OPB):
        try:
            F=f(fc)
            labs=list(F.all_variable_labels())
            print(name, fc.__name__, F.number_of_variables(), len(F), 'debug', F.debug(), 'labels', len(labs), labs[:2], labs[-1:] )
        except Exception as e:
            print(name, fc.__name__, 'EXC', type(e).__name__, e)
