import sys,itertools,math
sys.path.insert(0,'/repo')
import warnings; warnings.simplefilter('ignore')
from cnfgen import *
from cnfgen.graphs import Graph, BipartiteGraph
def nmodels(F):
    n=F.number_of_variables(); cls=[list(c) for c in F]; c=0
    for bits in itertools.product([False,True],repeat=n):
        ok=True
        for cl in cls:
            if not any((bits[l-1] if l>0 else not bits[-l-1]) for l in cl): ok=False;break
        if ok: c+=1
    return c
def graphs(n):
    pairs=list(itertools.combinations(range(1,n+1),2))
    for mask in range(2**len(pairs)): yield [p for i,p in enumerate(pairs) if mask>>i&1]
def mk(n,E):
    G=Graph(n)
    for u,v in E: G.add_edge(u,v)
    return G
def comps(n,E):
    par=list(range(n+1))
    def f(x):
        while par[x]!=x: x=par[x]
        return x
    for u,v in E: par[f(u)]=f(v)
    return len({f(v) for v in range(1,n+1)})
bad=[]
# iso
for n in range(0,4):
    G=list(graphs(n))
    for E1 in G:
        for E2 in G:
            A=set(E1)|{(v,u) for u,v in E1}; B=set(E2)|{(v,u) for u,v in E2}
            isos=sum(1 for p in itertools.permutations(range(1,n+1)) if all(((p[u-1],p[v-1]) in B)==((u,v) in A) for u,v in itertools.combinations(range(1,n+1),2)))
            c=nmodels(GraphIsomorphism(mk(n,E1),mk(n,E2)))
            if c!=isos: bad.append(('iso',n,E1,E2,c,isos))
# tseitin
for n in range(0,5):
    for E in graphs(n):
        if len(E)>6: continue
        for ch in itertools.product([0,1],repeat=n):
            k=comps(n,E)
            # satisfiable iff each comp even
            par={}
            F=TseitinFormula(mk(n,E),list(ch)); c=nmodels(F)
            # expected
            import collections
            adj=collections.defaultdict(set)
            for u,v in E: adj[u].add(v); adj[v].add(u)
            seen=set(); ok=True
            for v in range(1,n+1):
                if v in seen: continue
                st=[v]; comp=set()
                while st:
                    x=st.pop()
                    if x in comp: continue
                    comp.add(x); st.extend(adj[x]-comp)
                seen|=comp
                if sum(ch[x-1] for x in comp)%2: ok=False
            exp=2**(len(E)-n+k) if ok else 0
            if c!=exp: bad.append(('tseitin',n,E,ch,c,exp))
# kcolor functional
for n in range(0,4):
    for E in graphs(n):
        for k in range(1,4):
            exp=sum(1 for col in itertools.product(range(k),repeat=n) if all(col[u-1]!=col[v-1] for u,v in E))
            c=nmodels(GraphColoringFormula(mk(n,E),k))
            if c!=exp: bad.append(('kcolor',n,E,k,c,exp))
# php functional onto = bijections ; functional = injections
for m in range(0,4):
    for n in range(0,4):
        c=nmodels(PigeonholePrinciple(m,n,True,True)); exp=math.factorial(n) if m==n else 0
        if c!=exp: bad.append(('matchingphp',m,n,c,exp))
        c=nmodels(PigeonholePrinciple(m,n,True,False)); exp=math.perm(n,m) if m<=n else 0
        if c!=exp: bad.append(('fphp',m,n,c,exp))
# perfect matching count
for n in range(0,5):
    for E in graphs(n):
        exp=sum(1 for S in itertools.combinations(E,n//2) if len({x for e in S for x in e})==n) if n%2==0 else 0
        c=nmodels(PerfectMatchingPrinciple(mk(n,E)))
        if c!=exp: bad.append(('pm',n,E,c,exp))
# counting principle: partitions of [M] into p-sets
def parts(M,p):
    if M==0: return 1
    if M%p: return 0
    # choose block containing element 1
    return math.comb(M-1,p-1)*parts(M-p,p)
for M in range(0,7):
    for p in range(1,4):
        F=CountingPrinciple(M,p)
        if F.number_of_variables()>20: continue
        c=nmodels(F); exp=parts(M,p)
        if c!=exp: bad.append(('count',M,p,c,exp))
# ramsey/vdw/ptn counts
def has_clique(N,E,k): 
    Es=set(E)|{(v,u) for u,v in E}
    return any(all((a,b) in Es for a,b in itertools.combinations(S,2)) for S in itertools.combinations(range(1,N+1),k))
def has_ind(N,E,k):
    Es=set(E)|{(v,u) for u,v in E}
    return any(all((a,b) not in Es for a,b in itertools.combinations(S,2)) for S in itertools.combinations(range(1,N+1),k))
for s in range(1,4):
    for k in range(1,4):
        for N in range(0,5):
            exp=sum(1 for E in graphs(N) if not has_ind(N,E,s) and not has_clique(N,E,k))
            c=nmodels(RamseyNumber(s,k,N))
            if c!=exp: bad.append(('ram',s,k,N,c,exp))
for N in range(0,8):
    for K in [(2,2),(2,3),(3,3),(3,2,2),(2,2,2)]:
        def aps(k):
            for d in range(1,N+1):
                for i in range(1,N+1):
                    if i+(k-1)*d<=N: yield [i+d*t for t in range(k)]
        exp=sum(1 for col in itertools.product(range(len(K)),repeat=N) if all(not all(col[x-1]==cc for x in ap) for cc,k in enumerate(K) for ap in aps(k)))
        F=VanDerWaerden(N,*K)
        if F.number_of_variables()>20: continue
        c=nmodels(F)
        if c!=exp: bad.append(('vdw',N,K,c,exp))
print(len(bad)); print(bad[:10])
