import sys,random,itertools,copy,re
sys.path.insert(0,'/repo')
import warnings; warnings.simplefilter('ignore')
from cnfgen import *
from cnfgen.formula.opb import OPB
from cnfgen.transformations.shuffle import Shuffle
from io import StringIO
rnd=random.Random(5)
def rand_cnf(nmax=5,mmax=6):
    n=rnd.randint(0,nmax); F=CNF(); F.update_variable_number(n)
    for _ in range(rnd.randint(0,mmax)):
        w=rnd.randint(0,4) if n else 0
        F.add_clause([rnd.choice([-1,1])*rnd.randint(1,n) for _ in range(w)])
    return F
def nmodels(F):
    n=F.number_of_variables(); c=0
    for bits in itertools.product([False,True],repeat=n):
        if all(any((bits[abs(l)-1] if l>0 else not bits[abs(l)-1]) for l in cl) for cl in F): c+=1
    return c
bad=[]
# C09: explicit args
for it in range(300):
    F=rand_cnf(); N=F.number_of_variables(); M=len(F)
    fl=[rnd.choice([-1,1]) for _ in range(N)]; vp=list(range(1,N+1)); rnd.shuffle(vp); cp=list(range(M)); rnd.shuffle(cp)
    G=Shuffle(F,fl,vp,cp)
    exp=[None]*M
    for i,c in enumerate(F): exp[cp[i]]=[ (1 if l>0 else -1)*fl[abs(l)-1]*vp[abs(l)-1] for l in c]
    if list(G)!=exp or G.number_of_variables()!=N: bad.append(('explicit',list(F),fl,vp,cp,list(G)))
    G2=Shuffle(F)   # random
    if G2.number_of_variables()!=N or len(G2)!=M or sorted(map(len,G2))!=sorted(map(len,F)) or nmodels(G2)!=nmodels(F): bad.append(('random',list(F),list(G2)))
    # tuple args
    try:
        G3=Shuffle(F,tuple(fl),tuple(vp),tuple(cp)); 
        if list(G3)!=exp: bad.append(('tuple',))
    except Exception as e: bad.append(('tuple-exc',type(e).__name__,str(e)))
# invalid
F=CNF([[1,-2],[2,3]])
for args in [([1,1],'fixed','fixed'),([1,1,2],'fixed','fixed'),([1,1,0],'fixed','fixed'),('fixed',[1,2],'fixed'),('fixed',[1,2,2],'fixed'),('fixed',[0,1,2],'fixed'),('fixed',[1,2,4],'fixed'),('fixed','fixed',[0]),('fixed','fixed',[0,0]),('fixed','fixed',[1,2]),('fixed','fixed',[0,1,2]),('foo','fixed','fixed'),('fixed','bar','fixed'),('fixed','fixed','baz'),(None,'fixed','fixed'),('fixed',[1.0,2.0,3.0],'fixed'),([1,-1,True],'fixed','fixed')]:
    try:
        G=Shuffle(F,*args); print('accepted',args,list(G))
    except ValueError as e: pass
    except Exception as e: print('EXC',args,type(e).__name__,e)
print("C09 bad",len(bad),bad[:3])
