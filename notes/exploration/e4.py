import sys,subprocess,json
sys.path.insert(0,'/repo')
import warnings; warnings.simplefilter('ignore')
import random
from cnfgen import *
out={}
for seed in range(6):
    random.seed(seed)
    F=PitfallFormula(4,2,2,2,2)
    out[seed]=(F.number_of_variables(),[list(c) for c in F])
json.dump(out,open('pit.json','w'))
# show first hard clauses
F=PitfallFormula(4,2,2,2,2)
print(F.number_of_variables(), len(F))
for c in list(F)[:10]: print(c)
