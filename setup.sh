#!/bin/bash
# Build the whole framework from files on disk (offline): full .vo build of the
# Coq development, extraction, OCaml driver.  Never uses -vos.
set -u
cd "$(dirname "$0")"
ROOT=$(pwd)
J=${VERIF_JOBS:-16}
python3 tools/gen_build.py || exit 1
# hygiene: nothing in the development may declare an axiom or switch off a check
if grep -nE '(^|[^A-Za-z_])(Admitted|admit|Axiom|Axioms|Parameter|Parameters|Conjecture|Hypothesis|Variable|Unset Guard|bypass_check|Admit Obligations|type-in-type|impredicative-set)([^A-Za-z_]|$)' coq/*.v \
   | grep -vE '^\S+:\s*[0-9]+:\s*\(\*' | grep -vE 'Section|End ' ; then
  echo "SETUP: forbidden vernacular found (see lines above)"; exit 1
fi
mkdir -p build
cd coq
coq_makefile -f _CoqProject -o Makefile > /dev/null || exit 1
timeout 3000 make -k -j"$J" > ../build/make.log 2>&1
RC=$?
cd "$ROOT"
if [ ! -f ocaml/model.ml ]; then echo "SETUP: extraction failed"; tail -30 build/make.log; exit 1; fi
cd ocaml
ocamlfind ocamlopt -O3 -w -a -package str model.mli model.ml sx.ml sxlib_*.ml glue_*.ml main.ml -o ../build/driver 2> ../build/ocaml.log \
  || ocamlfind ocamlopt -w -a -package str model.mli model.ml sx.ml sxlib_*.ml glue_*.ml main.ml -o ../build/driver 2> ../build/ocaml.log \
  || { echo "SETUP: driver build failed"; cat ../build/ocaml.log; exit 1; }
cd "$ROOT"
python3 tools/check_clashes.py || { echo "SETUP: extraction name clash used by glue code (rename in the Coq source)"; exit 1; }
if [ $RC -ne 0 ]; then echo "SETUP: coq build had errors"; grep -B2 -A12 'Error' build/make.log | head -60; exit 1; fi
echo "SETUP: ok"
