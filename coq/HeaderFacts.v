(* HeaderFacts.v — a chain of transformations keeps every earlier header entry
   and adds one numbered entry per step, in order (C19). *)
From Coq Require Import List Bool Arith String Lia.
From Cnfgen Require Import Header.
Import ListNotations.

(* the transformation entries of h are numbered exactly 1..n *)
Definition numbered (n : nat) (h : header) : Prop :=
  n <= List.length h /\ forall i, has_key h (KT i) = true <-> 1 <= i <= n.

Lemma has_key_app h1 h2 k : has_key (h1 ++ h2) k = has_key h1 k || has_key h2 k.
Proof. unfold has_key. apply existsb_app. Qed.

Lemma find_seq_first (p : nat -> bool) : forall len a x,
  a <= x < a + len -> p x = true -> (forall y, a <= y < x -> p y = false) ->
  find p (seq a len) = Some x.
Proof.
  induction len as [|len IH]; intros a x Hx Hp Hlt; [lia|]. cbn [seq find].
  destruct (Nat.eq_dec a x) as [->|Hne].
  - now rewrite Hp.
  - rewrite (Hlt a) by lia. apply IH; [lia|assumption|]. intros y Hy. apply Hlt. lia.
Qed.

Lemma first_free_numbered n h : numbered n h -> first_free h = S n.
Proof.
  intros [Hlen Hk]. unfold first_free.
  rewrite (find_seq_first (fun i => negb (has_key h (KT i))) (S (List.length h)) 1 (S n)); [reflexivity|lia| |].
  - destruct (has_key h (KT (S n))) eqn:E; [|reflexivity]. apply Hk in E. lia.
  - intros y Hy. destruct (Hk y) as [_ H2]. rewrite H2 by lia. reflexivity.
Qed.

Lemma no_transformation_numbered h : (forall i, has_key h (KT i) = false) -> numbered 0 h.
Proof.
  intros H. split; [lia|]. intros i. rewrite H. split; [discriminate|lia].
Qed.

Lemma add_description_numbered n h t : numbered n h ->
  add_description h t = h ++ [(KT (S n), t)] /\ numbered (S n) (add_description h t).
Proof.
  intros Hn. unfold add_description. rewrite (first_free_numbered n h Hn). split; [reflexivity|].
  destruct Hn as [Hlen Hk]. split; [rewrite app_length; cbn; lia|].
  intros i. rewrite has_key_app. cbn [has_key existsb fst hkey_eqb]. rewrite orb_false_r.
  split.
  - intros H. apply orb_true_iff in H as [H|H]; [apply Hk in H; lia|]. apply Nat.eqb_eq in H. lia.
  - intros H. destruct (Nat.eq_dec i (S n)) as [->|Hne].
    + rewrite Nat.eqb_refl. apply orb_true_r.
    + apply orb_true_iff. left. apply Hk. lia.
Qed.

(* k transformations: the old header is kept as a prefix, followed by
   transformation n+1 .. n+k with the given texts in order *)
Theorem apply_chain_numbered : forall texts n h, numbered n h ->
  apply_chain h texts = h ++ number_from n texts
  /\ numbered (n + List.length texts) (apply_chain h texts).
Proof.
  unfold apply_chain. induction texts as [|t ts IH]; intros n h Hn.
  - cbn. rewrite app_nil_r, Nat.add_0_r. auto.
  - cbn [fold_left List.length number_from]. destruct (add_description_numbered n h t Hn) as [E Hn'].
    destruct (IH (S n) _ Hn') as [E2 Hn2]. split.
    + rewrite E2, E, <- app_assoc. reflexivity.
    + replace (n + S (List.length ts)) with (S n + List.length ts) by lia. exact Hn2.
Qed.

(* Shuffle keeps every entry (the description gets a suffix, in place) and adds one *)
Lemma has_key_suffix h k : has_key (suffix_description h) k = has_key h k.
Proof.
  unfold has_key, suffix_description. induction h as [|e h IH]; [reflexivity|]. cbn [map existsb].
  rewrite IH. destruct (hkey_eqb (fst e) (KO "description")); reflexivity.
Qed.
Lemma suffix_numbered n h : numbered n h -> numbered n (suffix_description h).
Proof.
  intros [L K]. split; [unfold suffix_description; now rewrite map_length|].
  intros i. rewrite has_key_suffix. apply K.
Qed.
Theorem shuffle_header_numbered n h : numbered n h ->
  shuffle_header h = suffix_description h ++ [(KT (S n), "Formula reshuffling"%string)]
  /\ numbered (S n) (shuffle_header h).
Proof. intros H. unfold shuffle_header. apply add_description_numbered. now apply suffix_numbered. Qed.
