(* Property C17 — a command line builds the same formula as the library call it
   stands for.  The theorem part is the handling of -T (parse_command_line):
   argparse and the option tables are covered by the three-way differential run
   (DESIGN.md section 5, C17). *)
From Coq Require Import List Bool String.
From Cnfgen Require Import Cli CliFacts.
Import ListNotations.

(* splitting around -T loses nothing and invents nothing: joining the chunks with
   -T gives back the command line, for EVERY argument vector *)
Theorem C17_split_T : forall argv, join_T (split_T argv) = argv.
Proof. exact join_split_T. Qed.
Print Assumptions C17_split_T.

(* each transformation sees only its own arguments *)
Theorem C17_chunks_have_no_T : forall argv chunk, In chunk (split_T argv) -> ~ In "-T"%string chunk.
Proof. exact split_T_chunks_have_no_T. Qed.
Print Assumptions C17_chunks_have_no_T.

Example C17_nonvacuous :
  split_T ["cnfgen"; "php"; "5"; "4"; "-T"; "xor"; "2"; "-T"; "flip"]%string
  = [["cnfgen"; "php"; "5"; "4"]; ["xor"; "2"]; ["flip"]]%string
  /\ split_T ["cnfgen"; "op"; "3"; "-T"]%string = [["cnfgen"; "op"; "3"]; []]%string.
Proof. vm_compute. split; reflexivity. Qed.
