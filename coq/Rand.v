(* Rand.v — model of cnfgen/families/randomformulas.py (clause_satisfied,
   sample_clauses, all_clauses, RandomKCNF), cnfgen/families/randomkxor.py
   (parity_satisfied, sample_parities, all_good_parities, RandomKXOR) and of
   RandCmdHelper.build_formula / RandXorHelper.build_formula in
   cnfgen/clihelpers/simple_helpers.py.   Definitions only.

   Randomness.  The samplers are functions of an ORACLE STREAM: the list of
   values the functions of Python's `random` module returned, in the order
   of the calls.  A draw is
     DSample idx : random.sample(pop, k) returned [pop[i] for i in idx]
     DChoice z   : random.choice(l) returned z
     DInt z      : random.randint(a, b) returned z
   Each oracle_* function below consumes one draw and checks the CONTRACT of
   the random function at that call (sample_ok: k positions, pairwise
   distinct, inside the population; choice: a member of the list; randint:
   inside [a,b]).  A stream that ends early gives ROracleEnd, a draw of the
   wrong kind or outside the contract gives ROracleBad; so "for every stream
   respecting the contracts" reads "whenever the result is not ROracle*".
   `random.seed` is not modelled (the stream is what the seed determines).

   Abstracted: the description string of the formula, formula_class, the
   TypeError of non_negative_int for non-integers (arguments are Z), the text
   of error messages (all ValueErrors are RValueError), Python sets of tuples
   (modelled as lists with membership by equality), the undefined behaviour of
   random.sample for k > len(pop) is modelled as the ValueError CPython raises.
   The rejection loop `while len(clauses) < m and t < 10*m` runs on the fuel
   10*m - t. *)
From Coq Require Import ZArith List Bool.
From Cnfgen Require Import Sem Comb Linear.
Import ListNotations.
Open Scope Z_scope.

Inductive draw := DSample (idx : list nat) | DChoice (z : Z) | DInt (z : Z).

Inductive rres (A : Type) :=
| ROk (a : A)
| RValueError          (* the Python code raises ValueError *)
| ROracleEnd           (* the stream of draws ended *)
| ROracleBad.          (* the next draw is not a possible answer to the call *)
Arguments ROk {A} a.
Arguments RValueError {A}.
Arguments ROracleEnd {A}.
Arguments ROracleBad {A}.

(* ---------- contracts of random.sample / choice / randint ---------- *)

Fixpoint nodupb (l : list nat) : bool :=
  match l with
  | [] => true
  | x :: t => negb (existsb (Nat.eqb x) t) && nodupb t
  end.

Definition sample_ok (popsize k : nat) (idx : list nat) : bool :=
  Nat.eqb (length idx) k && nodupb idx && forallb (fun i => Nat.ltb i popsize) idx.

Definition memz (x : Z) (l : list Z) : bool := existsb (Z.eqb x) l.

(* random.sample(pop, k): ValueError when k > len(pop) (CPython) *)
Definition oracle_sample {A} (d : A) (pop : list A) (k : nat) (s : list draw) : rres (list A * list draw) :=
  if Nat.ltb (length pop) k then RValueError
  else match s with
       | [] => ROracleEnd
       | DSample idx :: s' =>
           if sample_ok (length pop) k idx then ROk (map (fun i => nth i pop d) idx, s') else ROracleBad
       | _ :: _ => ROracleBad
       end.

(* random.choice(l) *)
Definition oracle_choice (l : list Z) (s : list draw) : rres (Z * list draw) :=
  match s with
  | [] => ROracleEnd
  | DChoice z :: s' => if memz z l then ROk (z, s') else ROracleBad
  | _ :: _ => ROracleBad
  end.

(* random.randint(a, b) *)
Definition oracle_randint (a b : Z) (s : list draw) : rres (Z * list draw) :=
  match s with
  | [] => ROracleEnd
  | DInt z :: s' => if (a <=? z) && (z <=? b) then ROk (z, s') else ROracleBad
  | _ :: _ => ROracleBad
  end.

(* [f(v, random.choice(l)) for v in vs] : one choice per element, left to right *)
Fixpoint oracle_choices (l : list Z) (vs : list Z) (s : list draw) : rres (list Z * list draw) :=
  match vs with
  | [] => ROk ([], s)
  | _ :: t => match oracle_choice l s with
              | ROk (c, s1) => match oracle_choices l t s1 with
                               | ROk (cs, s2) => ROk (c :: cs, s2)
                               | e => e
                               end
              | RValueError => RValueError
              | ROracleEnd => ROracleEnd
              | ROracleBad => ROracleBad
              end
  end.

(* ---------- sorted(), list equality ---------- *)

Fixpoint insert_z (x : Z) (l : list Z) : list Z :=
  match l with
  | [] => [x]
  | y :: t => if x <=? y then x :: l else y :: insert_z x t
  end.
Definition sort_z (l : list Z) : list Z := fold_right insert_z [] l.

Fixpoint zl_eqb (a b : list Z) : bool :=
  match a, b with
  | [], [] => true
  | x :: a', y :: b' => (x =? y) && zl_eqb a' b'
  | _, _ => false
  end.
Definition mem_zl (c : list Z) (l : list (list Z)) : bool := existsb (zl_eqb c) l.

(* ---------- randomformulas.py ---------- *)

(* clause_satisfied(cls, assignments): every assignment (a sequence of
   literals) contains some literal of the clause *)
Definition clause_satisfied (cls : list Z) (asgs : list (list Z)) : bool :=
  forallb (fun asg => existsb (fun lit => memz lit asg) cls) asgs.

(* [p*v for p,v in zip(polarity,domain)] *)
Definition zipmul (ps vs : list Z) : list Z := map (fun pv => fst pv * snd pv) (combine ps vs).

Definition variables (n : Z) : list Z := zrange 1 (n + 1).

(* all_clauses(k, n, planted_assignments) *)
Definition all_clauses (k n : Z) (planted : list (list Z)) : list (list Z) :=
  flat_map (fun domain =>
    flat_map (fun polarity =>
                let cls := zipmul polarity domain in
                if clause_satisfied cls planted then [cls] else [])
             (prod_rep [-1; 1] (Z.to_nat k)))
    (combs (variables n) (Z.to_nat k)).

(* the rejection loop of sample_clauses; fuel = 10*m - t *)
Fixpoint sample_clauses_loop (fuel : nat) (k n m : Z) (planted : list (list Z))
         (sampled clauses : list (list Z)) (s : list draw) : rres (list (list Z) * list draw) :=
  match fuel with
  | O => ROk (clauses, s)
  | S fuel' =>
    if len clauses <? m then
      match oracle_sample 0 (variables n) (Z.to_nat k) s with
      | ROk (sel, s1) =>
        let selection := sort_z sel in
        match oracle_choices [1; -1] selection s1 with
        | ROk (cs, s2) =>
          let cls := zipmul selection cs in          (* v * random.choice([1,-1]) *)
          if mem_zl cls sampled then sample_clauses_loop fuel' k n m planted sampled clauses s2
          else if negb (clause_satisfied cls planted) then sample_clauses_loop fuel' k n m planted sampled clauses s2
          else sample_clauses_loop fuel' k n m planted (cls :: sampled) (clauses ++ [cls]) s2
        | RValueError => RValueError
        | ROracleEnd => ROracleEnd
        | ROracleBad => ROracleBad
        end
      | RValueError => RValueError
      | ROracleEnd => ROracleEnd
      | ROracleBad => ROracleBad
      end
    else ROk (clauses, s)
  end.

Definition sample_clauses (k n m : Z) (planted : list (list Z)) (s : list draw) : rres (list (list Z) * list draw) :=
  match sample_clauses_loop (Z.to_nat (10 * m)) k n m planted [] [] s with
  | ROk (clauses, s1) =>
    if len clauses =? m then ROk (clauses, s1)
    else
      let fullset := all_clauses k n planted in
      if len fullset <? m then RValueError
      else oracle_sample [] fullset (Z.to_nat m) s1
  | e => e
  end.

(* RandomKCNF(k, n, m, planted_assignments): (number of variables, clauses, unread draws) *)
Definition random_kcnf (k n m : Z) (planted : list (list Z)) (s : list draw) : rres (Z * list (list Z) * list draw) :=
  if (n <? 0) || (m <? 0) || (k <? 0) then RValueError
  else if k >? n then RValueError
  else match sample_clauses k n m planted s with
       | ROk (cl, s1) => ROk (n, cl, s1)
       | RValueError => RValueError
       | ROracleEnd => ROracleEnd
       | ROracleBad => ROracleBad
       end.

(* ---------- randomkxor.py ---------- *)

(* inner loop of parity_satisfied: None = "Xor value undefined" (ValueError) *)
Fixpoint parity_value (X asg : list Z) : option Z :=
  match X with
  | [] => Some 0
  | x :: t =>
    if memz x asg then option_map (Z.add 1) (parity_value t asg)
    else if memz (- x) asg then parity_value t asg
    else None
  end.

Fixpoint parity_satisfied (X : list Z) (b : Z) (asgs : list (list Z)) : option bool :=
  match asgs with
  | [] => Some true
  | asg :: rest =>
    match parity_value X asg with
    | None => None
    | Some v => if negb (v mod 2 =? b) then Some false else parity_satisfied X b rest
    end
  end.

Definition parity := (list Z * Z)%type.

Fixpoint good_parities (doms : list (list Z)) (planted : list (list Z)) : option (list parity) :=
  match doms with
  | [] => Some []
  | X :: t =>
    match parity_satisfied X 0 planted, parity_satisfied X 1 planted, good_parities t planted with
    | Some b0, Some b1, Some r => Some ((if b0 then [(X, 0)] else []) ++ (if b1 then [(X, 1)] else []) ++ r)
    | _, _, _ => None
    end
  end.
(* list(all_good_parities(k, n, planted_assignments)) *)
Definition all_good_parities (k n : Z) (planted : list (list Z)) : option (list parity) :=
  good_parities (combs (variables n) (Z.to_nat k)) planted.

Fixpoint sample_parities_loop (fuel : nat) (k n m : Z) (planted : list (list Z))
         (sampled_set : list (list Z)) (sampled_list : list parity) (s : list draw) : rres (list parity * list draw) :=
  match fuel with
  | O => ROk (sampled_list, s)
  | S fuel' =>
    if len sampled_list <? m then
      match oracle_sample 0 (variables n) (Z.to_nat k) s with
      | ROk (sel, s1) =>
        let X := sort_z sel in
        match oracle_randint 0 1 s1 with
        | ROk (b, s2) =>
          let sample := X ++ [b] in
          if mem_zl sample sampled_set then sample_parities_loop fuel' k n m planted sampled_set sampled_list s2
          else match parity_satisfied X b planted with
               | None => RValueError
               | Some false => sample_parities_loop fuel' k n m planted sampled_set sampled_list s2
               | Some true => sample_parities_loop fuel' k n m planted (sample :: sampled_set) (sampled_list ++ [(X, b)]) s2
               end
        | RValueError => RValueError
        | ROracleEnd => ROracleEnd
        | ROracleBad => ROracleBad
        end
      | RValueError => RValueError
      | ROracleEnd => ROracleEnd
      | ROracleBad => ROracleBad
      end
    else ROk (sampled_list, s)
  end.

Definition sample_parities (k n m : Z) (planted : list (list Z)) (s : list draw) : rres (list parity * list draw) :=
  match sample_parities_loop (Z.to_nat (10 * m)) k n m planted [] [] s with
  | ROk (sl, s1) =>
    if len sl >=? m then ROk (sl, s1)
    else
      match all_good_parities k n planted with
      | None => RValueError
      | Some fullset =>
        if len fullset <? m then RValueError
        else oracle_sample ([], 0) fullset (Z.to_nat m) s1
      end
  | e => e
  end.

Definition xor_clauses (ps : list parity) : list (list Z) :=
  flat_map (fun Xb => add_parity (fst Xb) (snd Xb)) ps.

(* RandomKXOR: (number of variables, parities, clauses, unread draws) *)
Definition random_kxor (k n m : Z) (planted : list (list Z)) (s : list draw)
  : rres (Z * list parity * list (list Z) * list draw) :=
  if (n <? 0) || (m <? 0) || (k <? 0) then RValueError
  else if k >? n then RValueError
  else match sample_parities k n m planted s with
       | ROk (ps, s1) => ROk (n, ps, xor_clauses ps, s1)
       | RValueError => RValueError
       | ROracleEnd => ROracleEnd
       | ROracleBad => ROracleBad
       end.

(* ---------- simple_helpers.py: RandCmdHelper / RandXorHelper build_formula ---------- *)

(* planted = [random.choice([-1,1])*v for v in range(1,n+1)] *)
Definition plant (n : Z) (s : list draw) : rres (list Z * list draw) :=
  match oracle_choices [-1; 1] (variables n) s with
  | ROk (cs, s1) => ROk (zipmul cs (variables n), s1)
  | RValueError => RValueError
  | ROracleEnd => ROracleEnd
  | ROracleBad => ROracleBad
  end.

Definition rand_cmd (k n m : Z) (plant_flag : bool) (s : list draw) : rres (Z * list (list Z) * list draw) :=
  if plant_flag then
    match plant n s with
    | ROk (p, s1) => random_kcnf k n m [p] s1
    | RValueError => RValueError
    | ROracleEnd => ROracleEnd
    | ROracleBad => ROracleBad
    end
  else random_kcnf k n m [] s.

Definition randxor_cmd (k n m : Z) (plant_flag : bool) (s : list draw)
  : rres (Z * list parity * list (list Z) * list draw) :=
  if plant_flag then
    match plant n s with
    | ROk (p, s1) => random_kxor k n m [p] s1
    | RValueError => RValueError
    | ROracleEnd => ROracleEnd
    | ROracleBad => ROracleBad
    end
  else random_kxor k n m [] s.

(* ---------- vocabulary of the statements ---------- *)

(* the total assignment a list of literals stands for *)
Definition asg_of (p : list Z) : Z -> bool := fun v => memz v p.
(* p gives exactly one value to every variable 1..n *)
Definition total_consistent (n : Z) (p : list Z) : Prop :=
  forall v, 1 <= v <= n -> (memz v p = true \/ memz (- v) p = true) /\ ~ (memz v p = true /\ memz (- v) p = true).
Definition total_on (n : Z) (p : list Z) : Prop :=
  forall v, 1 <= v <= n -> memz v p = true \/ memz (- v) p = true.
