(* VarsBip.v — the bipartite-edge core of the graph-indexed groups: prefix sums of
   the degrees + bisect.  Through it: bipartite edges / sparse mappings, unary
   mappings (complete bipartite graph), directed edges sorted by predecessor or by
   successor, edges of simple graphs. *)
From Coq Require Import ZArith List Bool Lia ZifyBool.
From Cnfgen Require Import Sem Comb SemFacts Vars VarsLists VarsFacts.
Import ListNotations.
Open Scope Z_scope.

Definition adj_nodup (adj : list (list Z)) : Prop := Forall (@NoDup Z) adj.
Definition pair_id (f : Z -> Z -> option Z) (i : idx) : option Z :=
  match i with [u; v] => f u v | _ => None end.

(* versions with a generalised first vertex, for the induction over the adjacency list *)
Definition bip_id_from (u0 start : Z) (adj : list (list Z)) (u v : Z) : option Z :=
  match znth (u - u0) adj, znth (u - u0) (bip_offsets start adj) with
  | Some vs, Some o => match index_of v vs with Some p => Some (o + p) | None => None end
  | _, _ => None
  end.

Definition bip_index_from (u0 start : Z) (adj : list (list Z)) (var : Z) : option idx :=
  let offs := bip_offsets start adj in
  let k := bisect_right var offs in
  match znth (k - 1) offs, znth (k - 1) adj with
  | Some o, Some vs => match znth (var - o) vs with Some v => Some [u0 + k - 1; v] | None => None end
  | _, _ => None
  end.

Lemma bip_to_id_from off adj u v : bip_to_id off adj u v = bip_id_from 1 (off + 1) adj u v.
Proof. reflexivity. Qed.

Lemma bip_to_index_from off adj var : bip_to_index off adj var = bip_index_from 1 (off + 1) adj var.
Proof.
  unfold bip_to_index, bip_index_from. cbv zeta.
  destruct (znth _ (bip_offsets _ _)); [|reflexivity]. destruct (znth _ adj); [|reflexivity].
  destruct (znth _ l); [|reflexivity]. f_equal. f_equal. lia.
Qed.

Lemma bip_size_cons vs t : bip_size (vs :: t) = len vs + bip_size t.
Proof. reflexivity. Qed.
Lemma bip_size_nonneg adj : 0 <= bip_size adj.
Proof. induction adj as [|vs t IH]; [cbn; lia|]. rewrite bip_size_cons. pose proof (len_nonneg vs). lia. Qed.

Lemma bip_id_from_cons u0 start vs t u v :
  bip_id_from u0 start (vs :: t) u v =
  if u =? u0 then option_map (Z.add start) (index_of v vs) else bip_id_from (u0 + 1) (start + len vs) t u v.
Proof.
  unfold bip_id_from. cbn [bip_offsets]. rewrite !znth_cons.
  destruct (Z.eqb_spec u u0) as [->|N].
  - replace (u0 - u0) with 0 by lia. cbn [Z.eqb]. destruct (index_of v vs); reflexivity.
  - destruct (Z.eqb_spec (u - u0) 0); [lia|]. replace (u - u0 - 1) with (u - (u0 + 1)) by lia. reflexivity.
Qed.

Lemma bip_edges_from_shape u0 adj i : In i (bip_edges_from u0 adj) -> exists u v, i = [u; v] /\ u0 <= u.
Proof.
  revert u0. induction adj as [|vs t IH]; intros u0 H; [destruct H|].
  cbn [bip_edges_from] in H. apply in_app_iff in H as [H|H].
  - apply in_map_iff in H as [v [<- _]]. exists u0, v. split; [reflexivity|lia].
  - apply IH in H as [u [v [-> Hu]]]. exists u, v. split; [reflexivity|lia].
Qed.

Lemma in_bip_edges_from adj : forall u0 u v,
  In [u; v] (bip_edges_from u0 adj) <-> exists vs, znth (u - u0) adj = Some vs /\ In v vs.
Proof.
  induction adj as [|vs t IH]; intros u0 u v.
  - cbn. split; [tauto|]. intros [vs [H _]]. now rewrite znth_nil in H.
  - cbn [bip_edges_from]. rewrite in_app_iff, znth_cons, IH. split.
    + intros [H|[ws [H1 H2]]].
      * apply in_map_iff in H as [w [E Hw]]. injection E as <- <-. exists vs. replace (u0 - u0) with 0 by lia. split; [reflexivity|exact Hw].
      * exists ws. apply znth_Some in H1 as H3. destruct (Z.eqb_spec (u - u0) 0); [lia|].
        replace (u - u0 - 1) with (u - (u0 + 1)) by lia. auto.
    + intros [ws [H1 H2]]. destruct (Z.eqb_spec (u - u0) 0) as [E|N].
      * injection H1 as <-. left. apply in_map_iff. exists v. split; [f_equal; lia|exact H2].
      * right. exists ws. replace (u - (u0 + 1)) with (u - u0 - 1) by lia. auto.
Qed.

(* enumeration in identifier order: prefix sums *)
Lemma bip_enum_from adj : adj_nodup adj -> forall u0 start,
  map (pair_id (bip_id_from u0 start adj)) (bip_edges_from u0 adj) = map Some (zrange start (start + bip_size adj)).
Proof.
  induction 1 as [|vs t Hvs Ht IH]; intros u0 start.
  - cbn. now rewrite zrange_empty by (cbn; lia).
  - cbn [bip_edges_from]. rewrite map_app, map_map, bip_size_cons.
    pose proof (len_nonneg vs). pose proof (bip_size_nonneg t).
    rewrite (zrange_app start (start + len vs)) by lia. rewrite map_app. f_equal.
    + rewrite <- (map_index_of_self vs Hvs start). apply map_ext. intros v. cbn [pair_id].
      now rewrite bip_id_from_cons, Z.eqb_refl.
    + replace (start + (len vs + bip_size t)) with (start + len vs + bip_size t) by lia.
      rewrite <- (IH (u0 + 1) (start + len vs)). apply map_ext_in. intros i Hi.
      apply bip_edges_from_shape in Hi as [u [v [-> Hu]]]. cbn [pair_id].
      rewrite bip_id_from_cons. destruct (Z.eqb_spec u u0); [lia|reflexivity].
Qed.

Lemma bip_offsets_ge start adj o : In o (bip_offsets start adj) -> start <= o.
Proof.
  revert start. induction adj as [|vs t IH]; intros start H; [destruct H|].
  cbn [bip_offsets] in H. destruct H as [<-|H]; [lia|]. apply IH in H. pose proof (len_nonneg vs). lia.
Qed.

(* identifier -> edge is "the (var-start)-th edge": bisect over the prefix sums *)
Lemma bip_unrank_from adj : forall u0 start var, start <= var < start + bip_size adj ->
  bip_index_from u0 start adj var = znth (var - start) (bip_edges_from u0 adj).
Proof.
  induction adj as [|vs t IH]; intros u0 start var R; [cbn in R; lia|].
  rewrite bip_size_cons in R. pose proof (len_nonneg vs) as Lv.
  unfold bip_index_from. cbv zeta. cbn [bip_offsets bisect_right bip_edges_from].
  destruct (Z.ltb_spec var start); [lia|].
  destruct (Z.ltb_spec var (start + len vs)) as [C|C].
  - rewrite bisect_right_all_gt by (intros y Hy; apply bip_offsets_ge in Hy; lia).
    replace (1 + 0 - 1) with 0 by lia. rewrite !znth_cons. cbn [Z.eqb].
    rewrite znth_app1 by (rewrite len_map; lia). rewrite znth_map.
    destruct (znth (var - start) vs); cbn [option_map]; [f_equal; f_equal; lia|reflexivity].
  - rewrite znth_app2 by (rewrite len_map; lia). rewrite len_map.
    replace (var - start - len vs) with (var - (start + len vs)) by lia.
    rewrite <- (IH (u0 + 1) (start + len vs) var) by lia.
    unfold bip_index_from. cbv zeta.
    set (k' := bisect_right var (bip_offsets (start + len vs) t)).
    assert (K : 1 <= k').
    { subst k'. destruct t as [|ws t']; [cbn in R; lia|]. cbn [bip_offsets bisect_right].
      destruct (Z.ltb_spec var (start + len vs)); [lia|]. pose proof (bisect_right_nonneg var (bip_offsets (start + len vs + len ws) t')). lia. }
    rewrite !znth_cons. destruct (Z.eqb_spec (1 + k' - 1) 0); [lia|].
    replace (1 + k' - 1 - 1) with (k' - 1) by lia.
    destruct (znth (k' - 1) (bip_offsets (start + len vs) t)); [|reflexivity].
    destruct (znth (k' - 1) t); [|reflexivity]. destruct (znth (var - z) l); [|reflexivity].
    f_equal. f_equal. lia.
Qed.

Lemma bip_id_from_dom adj : forall u0 start u v x, bip_id_from u0 start adj u v = Some x -> In [u; v] (bip_edges_from u0 adj).
Proof.
  intros u0 start u v x H. apply in_bip_edges_from. unfold bip_id_from in H.
  destruct (znth (u - u0) adj) as [vs|]; [|discriminate]. exists vs. split; [reflexivity|].
  destruct (znth (u - u0) (bip_offsets start adj)); [|discriminate].
  destruct (index_of v vs) eqn:E; [|discriminate]. apply index_of_Some in E as [E _]. eapply znth_In; eauto.
Qed.

(* ---------- the three core facts ---------- *)
Lemma bip_core_enum off adj : adj_nodup adj ->
  map (pair_id (bip_to_id off adj)) (bip_edges adj) = map Some (zrange (off + 1) (off + bip_size adj + 1)).
Proof.
  intros H. unfold bip_edges. rewrite (map_ext _ (pair_id (bip_id_from 1 (off + 1) adj))) by reflexivity.
  rewrite bip_enum_from by exact H. f_equal. f_equal. lia.
Qed.

Lemma bip_core_back off adj u v x : adj_nodup adj -> In [u; v] (bip_edges adj) -> bip_to_id off adj u v = Some x ->
  bip_to_index off adj x = Some [u; v] /\ off + 1 <= x <= off + bip_size adj.
Proof.
  intros H Hi Hx. destruct (In_znth _ _ Hi) as [j Hj].
  destruct (map_eq_zrange_nth _ _ _ _ (bip_core_enum off adj H) j _ Hj) as [E R]. cbn [pair_id] in E.
  rewrite Hx in E. injection E as ->. split; [|lia].
  rewrite bip_to_index_from, bip_unrank_from by lia. unfold bip_edges in Hj.
  replace (off + 1 + j - (off + 1)) with j by lia. exact Hj.
Qed.

Lemma bip_core_dom off adj u v x : bip_to_id off adj u v = Some x -> In [u; v] (bip_edges adj).
Proof. rewrite bip_to_id_from. apply bip_id_from_dom. Qed.

Lemma bip_edges_pairs adj e : In e (bip_edges adj) -> exists u v, e = [u; v].
Proof. intros H. apply bip_edges_from_shape in H as [u [v [-> _]]]. eauto. Qed.

(* ---------- every graph-indexed shape, through its core ---------- *)
Lemma shape_via_bip s adj R : shape_bip s = Some (adj, R) ->
  gsize s = bip_size adj /\ vg_indices s = map (of_core s) (bip_edges adj) /\
  (forall off i, vg_to_id off s i = pair_id (bip_to_id off adj) (to_core s i)) /\
  (forall off l, vg_to_index off s l =
     if (off + 1 <=? Z.abs l) && (Z.abs l <=? off + bip_size adj)
     then option_map (of_core s) (bip_to_index off adj (Z.abs l)) else None).
Proof.
  intros H. destruct s as [| | | | ? [|] | | |]; try discriminate; cbn [shape_bip] in H; injection H as <- <-;
    (split; [reflexivity|]; split; [reflexivity|]; split;
     [intros off i; cbn [vg_to_id shape_bip]; destruct (to_core _ i) as [|u [|v [|? ?]]]; reflexivity
     |intros off l; reflexivity]).
Qed.

Lemma swap2_swap2_pair u v : swap2 (swap2 [u; v]) = [u; v]. Proof. reflexivity. Qed.

Theorem bip_shape_laws off s adj R : 0 <= off -> shape_bip s = Some (adj, R) -> adj_nodup adj ->
  (forall e, In e (bip_edges adj) -> to_core s (of_core s e) = e) -> group_laws off s.
Proof.
  intros Hoff Hs Hn Hc. destruct (shape_via_bip s adj R Hs) as [Gs [Gi [Gt Gx]]].
  unfold group_laws. rewrite Gs. split; [apply bip_size_nonneg|]. split; [|split].
  - unfold law_enum. rewrite Gs, Gi, map_map.
    rewrite (map_ext_in _ (pair_id (bip_to_id off adj))) by (intros e He; rewrite Gt, Hc by exact He; reflexivity).
    now apply bip_core_enum.
  - intros i x Hi Hx. rewrite Gi in Hi. apply in_map_iff in Hi as [e [<- He]].
    rewrite Gt, Hc in Hx by exact He. destruct (bip_edges_pairs _ _ He) as [u [v ->]]. cbn [pair_id] in Hx.
    destruct (bip_core_back off adj u v x Hn He Hx) as [B R']. rewrite Gx, Z.abs_eq by lia.
    destruct (Z.leb_spec (off + 1) x); [|lia]. destruct (Z.leb_spec x (off + bip_size adj)); [|lia].
    cbn [andb]. now rewrite B.
  - intros i x Hx. rewrite Gt in Hx. destruct (to_core s i) as [|u [|v [|? ?]]] eqn:E; try discriminate.
    cbn [pair_id] in Hx. pose proof (bip_core_dom _ _ _ _ _ Hx) as He. unfold canon. rewrite E, Gi.
    split; [now apply in_map|]. rewrite Gt, Hc by exact He. exact Hx.
Qed.

(* ---------- well-formedness of the cores ---------- *)
Lemma adj_nodup_complete n m : adj_nodup (complete_adj n m).
Proof. unfold adj_nodup, complete_adj. apply Forall_forall. intros l H. apply repeat_spec in H. subst. apply NoDup_zrange. Qed.

Lemma left_nbrs_from_ge adj : forall u v x, In x (left_nbrs_from u adj v) -> u <= x.
Proof.
  induction adj as [|vs t IH]; intros u v x H; [destruct H|].
  cbn [left_nbrs_from] in H. apply in_app_iff in H as [H|H].
  - destruct (in_list v vs); [|destruct H]. destruct H as [<-|[]]. lia.
  - apply IH in H. lia.
Qed.

Lemma NoDup_left_nbrs_from adj : forall u v, NoDup (left_nbrs_from u adj v).
Proof.
  induction adj as [|vs t IH]; intros u v; [constructor|].
  cbn [left_nbrs_from]. apply NoDup_app_intro; [destruct (in_list v vs); repeat constructor; intros []|apply IH|].
  intros x H1 H2. destruct (in_list v vs); [|destruct H1]. destruct H1 as [<-|[]].
  apply left_nbrs_from_ge in H2. lia.
Qed.

Lemma adj_nodup_transpose adj n : adj_nodup (transpose adj n).
Proof. unfold adj_nodup, transpose. apply Forall_forall. intros l H. apply in_map_iff in H as [v [<- _]]. apply NoDup_left_nbrs_from. Qed.

Lemma adj_nodup_upper_from adj : adj_nodup adj -> forall u, adj_nodup (upper_from u adj).
Proof.
  induction 1 as [|vs t Hvs Ht IH]; intros u; [constructor|].
  cbn [upper_from]. constructor; [now apply NoDup_filter|apply IH].
Qed.

Lemma upper_edges_increasing adj : forall u0 u v, In [u; v] (bip_edges_from u0 (upper_from u0 adj)) -> u < v.
Proof.
  induction adj as [|vs t IH]; intros u0 u v H; [destruct H|].
  cbn [upper_from bip_edges_from] in H. apply in_app_iff in H as [H|H].
  - apply in_map_iff in H as [w [E Hw]]. injection E as <- <-. apply filter_In in Hw as [_ Hw]. lia.
  - now apply IH in H.
Qed.

Definition shape_wf (s : shape) : Prop :=
  match s with
  | GSingle => True
  | GBlock ranges => ranges <> [] /\ nonneg_all ranges
  | GWords _ n k => 0 <= n /\ 0 <= k
  | BipEdges adj _ => adj_nodup adj
  | DiEdges succ _ => adj_nodup succ
  | GraphEdges adj => adj_nodup adj
  | UMap n m => 0 <= n /\ 0 <= m
  | BinMap n m => 1 <= n /\ 1 <= m
  end.

Theorem graph_shape_laws off s adj R : 0 <= off -> shape_bip s = Some (adj, R) -> shape_wf s -> group_laws off s.
Proof.
  intros Hoff Hs Hw. destruct s as [| | | | succ [|] | | |]; try discriminate; cbn [shape_bip] in Hs; injection Hs as <- <-.
  - eapply bip_shape_laws; [exact Hoff|reflexivity|exact Hw|]. reflexivity.
  - eapply bip_shape_laws; [exact Hoff|reflexivity|apply adj_nodup_transpose|].
    intros e He. destruct (bip_edges_pairs _ _ He) as [u [v ->]]. reflexivity.
  - eapply bip_shape_laws; [exact Hoff|reflexivity|exact Hw|]. reflexivity.
  - eapply bip_shape_laws; [exact Hoff|reflexivity|now apply adj_nodup_upper_from|].
    intros e He. destruct (bip_edges_pairs _ _ He) as [u [v ->]]. apply upper_edges_increasing in He.
    cbn [of_core to_core sort2]. f_equal; [|f_equal]; lia.
  - eapply bip_shape_laws; [exact Hoff|reflexivity|apply adj_nodup_complete|]. reflexivity.
Qed.

(* strictly increasing neighbour lists (what cnfgen's graph objects maintain) are duplicate free *)
Fixpoint increasing (l : list Z) : Prop :=
  match l with
  | [] => True
  | x :: t => match t with [] => True | y :: _ => x < y end /\ increasing t
  end.
Lemma increasing_lower x l : increasing (x :: l) -> forall y, In y l -> x < y.
Proof.
  revert x. induction l as [|z t IH]; intros x H y Hy; [destruct Hy|].
  destruct H as [H1 H2]. destruct Hy as [<-|Hy]; [exact H1|]. specialize (IH z H2 y Hy). lia.
Qed.
Lemma increasing_NoDup l : increasing l -> NoDup l.
Proof.
  induction l as [|x t IH]; intros H; [constructor|]. constructor.
  - intros I. pose proof (increasing_lower x t H x I). lia.
  - apply IH. now destruct H.
Qed.
Lemma adj_increasing_nodup adj : Forall increasing adj -> adj_nodup adj.
Proof. intros H. eapply Forall_impl; [|exact H]. apply increasing_NoDup. Qed.

(* closed form used by the families: the unary mapping n -> m is laid out row by row *)
Lemma complete_adj_nth n m u : 1 <= u <= n -> znth (u - 1) (complete_adj n m) = Some (zrange 1 (m + 1)).
Proof.
  intros H. unfold complete_adj, znth. destruct (Z.ltb_spec (u - 1) 0); [lia|].
  rewrite (nth_error_nth' _ (zrange 1 (m + 1))) by (rewrite repeat_length; lia). f_equal.
  apply nth_repeat.
Qed.
