(* Fam_count_Facts.v — counting and perfect matching principles encode partitions /
   perfect matchings (C01). *)
From Coq Require Import ZArith List Bool Lia ZifyBool.
From Cnfgen Require Import Sem Comb Linear IR SemFacts LinearFacts IRFacts FamTab FamTabFacts Fam_count Spec_C01.
Import ListNotations.
Open Scope Z_scope.

(* ================= CountingPrinciple ================= *)
Lemma count_tab_pos M p e : In e (count_tab M p) -> 0 < snd e.
Proof. apply number_pos. lia. Qed.

Lemma count_ok M p : irs_ok (count_ir M p) = true.
Proof. unfold count_ir. apply irs_ok_map. intros i _. apply lits_ok_ids_where. apply count_tab_pos. Qed.

Theorem count_T1 a M p :
  irs_hold a (count_ir M p) = true <-> partition_of M (count_sel a M p).
Proof.
  unfold count_ir, partition_of, count_sel. rewrite irs_hold_map. split.
  - intros H i Hi. specialize (H i (proj2 (In_upto i M) Hi)). cbn [ir_holds cop_holds] in H.
    rewrite count_ids_where in H by apply count_tab_pos. lia.
  - intros H i Hi. apply In_upto in Hi. cbn [ir_holds cop_holds].
    rewrite count_ids_where by apply count_tab_pos. specialize (H i Hi). lia.
Qed.

(* ================= PerfectMatchingPrinciple ================= *)
Lemma matching_tab_pos es e : In e (matching_tab es) -> 0 < snd e.
Proof. apply number_pos. lia. Qed.

Lemma matching_ok n es : irs_ok (matching_ir n es) = true.
Proof.
  unfold matching_ir. apply irs_ok_map. intros u _. unfold ir_ok, incident_ids. cbn [ir_lits].
  rewrite lits_ok_app, !lits_ok_ids_where by apply matching_tab_pos. reflexivity.
Qed.

Lemma graph_wf_edges n es : graph_wf n es = true -> forall e, In e es -> 1 <= fst e /\ fst e < snd e /\ snd e <= n.
Proof.
  unfold graph_wf. intros H e He. apply andb_true_iff in H as [H _]. rewrite forallb_forall in H.
  specialize (H e He). lia.
Qed.

Lemma filter_or_len {A} (p q : A -> bool) l : (forall x, In x l -> p x = true -> q x = true -> False) ->
  len (filter (fun x => p x || q x) l) = len (filter p l) + len (filter q l).
Proof.
  induction l as [|x t IH]; intros H; [reflexivity|]. cbn [filter].
  assert (forall y, In y t -> p y = true -> q y = true -> False) as Ht by (intros y Hy; apply H; now right).
  specialize (IH Ht). destruct (p x) eqn:Px, (q x) eqn:Qx; cbn [orb]; rewrite ?len_cons, IH; try lia.
  exfalso. apply (H x); auto. now left.
Qed.

Lemma matching_sel_edges a es : incl (matching_sel a es) es.
Proof.
  intros x Hx. apply In_sel in Hx as [v [Hv _]]. unfold matching_tab in Hv.
  rewrite <- (number_fst es 0). change x with (fst (x, v)). now apply in_map.
Qed.

Theorem matching_T1 a n es : graph_wf n es = true ->
  (irs_hold a (matching_ir n es) = true <-> perfect_matching n (matching_sel a es)).
Proof.
  intros Hwf. unfold matching_ir, perfect_matching, matching_sel.
  assert (E : forall u, count_true a (incident_ids (matching_tab es) u) = len (filter (touches u) (sel a (matching_tab es)))).
  { intros u. unfold incident_ids. rewrite count_true_app, !count_ids_where by apply matching_tab_pos.
    unfold touches. rewrite filter_or_len; [lia|]. intros e He P Q. apply matching_sel_edges in He.
    pose proof (graph_wf_edges n es Hwf e He). lia. }
  rewrite irs_hold_map. split.
  - intros H u Hu. specialize (H u (proj2 (In_upto u n) Hu)). cbn [ir_holds cop_holds] in H. rewrite E in H. lia.
  - intros H u Hu. apply In_upto in Hu. cbn [ir_holds cop_holds]. rewrite E. specialize (H u Hu). lia.
Qed.
