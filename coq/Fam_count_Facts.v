(* Fam_count_Facts.v — counting and perfect matching principles encode partitions /
   perfect matchings (C01). *)
From Coq Require Import ZArith List Bool Lia ZifyBool.
From Cnfgen Require Import Sem Comb Linear IR SemFacts LinearFacts IRFacts FamTab FamTabFacts Fam_count Spec_C01.
Import ListNotations.
Open Scope Z_scope.

(* ================= CountingPrinciple ================= *)
Lemma count_tab_pos M p e : In e (count_tab M p) -> 0 < snd e.
Proof. apply number_pos. lia. Qed.

Lemma count_ok M p : irs_ok (count_ir M p) = true.
Proof. unfold count_ir. apply irs_ok_map. intros i _. apply lits_ok_ids_where. apply count_tab_pos. Qed.

Theorem count_T1 a M p :
  irs_hold a (count_ir M p) = true <-> partition_of M (count_sel a M p).
Proof.
  unfold count_ir, partition_of, count_sel. rewrite irs_hold_map. split.
  - intros H i Hi. specialize (H i (proj2 (In_upto i M) Hi)). cbn [ir_holds cop_holds] in H.
    rewrite count_ids_where in H by apply count_tab_pos. lia.
  - intros H i Hi. apply In_upto in Hi. cbn [ir_holds cop_holds].
    rewrite count_ids_where by apply count_tab_pos. specialize (H i Hi). lia.
Qed.

(* ================= PerfectMatchingPrinciple ================= *)
Lemma matching_tab_pos es e : In e (matching_tab es) -> 0 < snd e.
Proof. apply number_pos. lia. Qed.

Lemma matching_ok n es : irs_ok (matching_ir n es) = true.
Proof.
  unfold matching_ir. apply irs_ok_map. intros u _. unfold ir_ok, incident_ids. cbn [ir_lits].
  rewrite lits_ok_app, !lits_ok_ids_where by apply matching_tab_pos. reflexivity.
Qed.

Lemma graph_wf_edges n es : simple_graph_wf n es = true -> forall e, In e es -> 1 <= fst e /\ fst e < snd e /\ snd e <= n.
Proof.
  unfold simple_graph_wf. intros H e He. apply andb_true_iff in H as [H _]. rewrite forallb_forall in H.
  specialize (H e He). lia.
Qed.

Lemma filter_or_len {A} (p q : A -> bool) l : (forall x, In x l -> p x = true -> q x = true -> False) ->
  len (filter (fun x => p x || q x) l) = len (filter p l) + len (filter q l).
Proof.
  induction l as [|x t IH]; intros H; [reflexivity|]. cbn [filter].
  assert (forall y, In y t -> p y = true -> q y = true -> False) as Ht by (intros y Hy; apply H; now right).
  specialize (IH Ht). destruct (p x) eqn:Px, (q x) eqn:Qx; cbn [orb]; rewrite ?len_cons, IH; try lia.
  exfalso. apply (H x); auto. now left.
Qed.

Lemma matching_sel_edges a es : incl (matching_sel a es) es.
Proof.
  intros x Hx. apply In_sel in Hx as [v [Hv _]]. unfold matching_tab in Hv.
  rewrite <- (number_fst es 0). change x with (fst (x, v)). now apply in_map.
Qed.

Theorem matching_T1 a n es : simple_graph_wf n es = true ->
  (irs_hold a (matching_ir n es) = true <-> perfect_matching n (matching_sel a es)).
Proof.
  intros Hwf. unfold matching_ir, perfect_matching, matching_sel.
  assert (E : forall u, count_true a (incident_ids (matching_tab es) u) = len (filter (touches u) (sel a (matching_tab es)))).
  { intros u. unfold incident_ids. rewrite count_true_app, !count_ids_where by apply matching_tab_pos.
    unfold touches. rewrite filter_or_len; [lia|]. intros e He P Q. apply matching_sel_edges in He.
    pose proof (graph_wf_edges n es Hwf e He). lia. }
  rewrite irs_hold_map. split.
  - intros H u Hu. specialize (H u (proj2 (In_upto u n) Hu)). cbn [ir_holds cop_holds] in H. rewrite E in H. lia.
  - intros H u Hu. apply In_upto in Hu. cbn [ir_holds cop_holds]. rewrite E. specialize (H u Hu). lia.
Qed.

(* ---------- T2 and uniqueness ---------- *)
Lemma combs_incl {A} : forall (l : list A) k c, In c (combs l k) -> forall y, In y c -> In y l.
Proof.
  induction l as [|x t IH]; intros k c Hc y Hy.
  - destruct k; cbn in Hc; [destruct Hc as [<-|[]]; destruct Hy|destruct Hc].
  - destruct k as [|k]; cbn [combs] in Hc; [destruct Hc as [<-|[]]; destruct Hy|].
    apply in_app_or in Hc as [Hc|Hc].
    + apply in_map_iff in Hc as [c' [<- Hc']]. destruct Hy as [<-|Hy]; [now left|right; eapply IH; eauto].
    + right. eapply IH; eauto.
Qed.
Lemma combs_NoDup {A} : forall (l : list A) k, NoDup l -> NoDup (combs l k).
Proof.
  induction l as [|x t IH]; intros k Hnd.
  - destruct k; cbn; [constructor; [intros []|constructor]|constructor].
  - inversion Hnd as [|? ? Hx Ht]; subst. destruct k as [|k]; cbn [combs]; [constructor; [intros []|constructor]|].
    apply NoDup_app_intro.
    + apply NoDup_map_inj_in; [intros; congruence|]. now apply IH.
    + now apply IH.
    + intros c H1 H2. apply in_map_iff in H1 as [c' [<- _]]. apply Hx. apply (combs_incl t (S k) _ H2). now left.
Qed.
Lemma combs_length {A} : forall (l : list A) k c, In c (combs l k) -> length c = k.
Proof.
  induction l as [|x t IH]; intros k c Hc.
  - destruct k; cbn in Hc; [destruct Hc as [<-|[]]; reflexivity|destruct Hc].
  - destruct k as [|k]; cbn [combs] in Hc; [destruct Hc as [<-|[]]; reflexivity|].
    apply in_app_or in Hc as [Hc|Hc].
    + apply in_map_iff in Hc as [c' [<- Hc']]. cbn. f_equal. eapply IH; eauto.
    + eapply IH; eauto.
Qed.
Lemma combs_elem_NoDup {A} : forall (l : list A) k c, NoDup l -> In c (combs l k) -> NoDup c.
Proof.
  induction l as [|x t IH]; intros k c Hnd Hc.
  - destruct k; cbn in Hc; [destruct Hc as [<-|[]]; constructor|destruct Hc].
  - inversion Hnd as [|? ? Hx Ht]; subst. destruct k as [|k]; cbn [combs] in Hc; [destruct Hc as [<-|[]]; constructor|].
    apply in_app_or in Hc as [Hc|Hc].
    + apply in_map_iff in Hc as [c' [<- Hc']]. constructor; [|eapply IH; eauto].
      intros Hin. apply Hx. eapply combs_incl; eauto.
    + eapply IH; eauto.
Qed.

Lemma count_blocks_NoDup M p : NoDup (count_blocks M p).
Proof. apply combs_NoDup, NoDup_upto. Qed.

Theorem count_T2 M p (blk : list Z -> bool) : partition_of M (filter blk (count_blocks M p)) ->
  exists a, irs_hold a (count_ir M p) = true /\ count_sel a M p = filter blk (count_blocks M p).
Proof.
  intros HP. exists (enc (count_tab M p) blk).
  assert (E : count_sel (enc (count_tab M p) blk) M p = filter blk (count_blocks M p)).
  { unfold count_sel. rewrite sel_enc by apply number_NoDup_snd. unfold count_tab. now rewrite number_fst. }
  split; [|exact E]. apply count_T1. now rewrite E.
Qed.

Theorem count_unique a b M p :
  (forall S, In S (count_sel a M p) <-> In S (count_sel b M p)) ->
  forall v, 1 <= v <= count_numvar M p -> a v = b v.
Proof.
  intros H v Hv. unfold count_numvar in Hv.
  destruct (number_surj (count_blocks M p) 0 v ltac:(lia)) as [x Hx].
  assert (NoDup (map fst (count_tab M p))) as Hnd by (unfold count_tab; rewrite number_fst; apply count_blocks_NoDup).
  apply (sel_inj a b (count_tab M p) Hnd H (x, v) Hx).
Qed.

Lemma count_sel_blocks a M p : incl (count_sel a M p) (count_blocks M p).
Proof.
  intros x Hx. apply In_sel in Hx as [v [Hv _]]. unfold count_tab in Hv.
  rewrite <- (number_fst (count_blocks M p) 0). change x with (fst (x, v)). now apply in_map.
Qed.

(* ---------- matching ---------- *)
Lemma edge_lt_trans e f g : edge_lt e f = true -> edge_lt f g = true -> edge_lt e g = true.
Proof. unfold edge_lt. lia. Qed.
Lemma edges_increasing_head : forall l x, edges_increasing (x :: l) = true -> forall y, In y l -> edge_lt x y = true.
Proof.
  induction l as [|z t IH]; intros x H y Hy; [destruct Hy|]. cbn [edges_increasing] in H.
  apply andb_true_iff in H as [Hxz Hr]. destruct Hy as [<-|Hy]; [assumption|].
  apply (edge_lt_trans x z y Hxz). now apply IH.
Qed.
Lemma edges_increasing_NoDup : forall l, edges_increasing l = true -> NoDup l.
Proof.
  induction l as [|x t IH]; intros H; [constructor|]. constructor.
  - intros Hin. pose proof (edges_increasing_head t x H x Hin) as F. unfold edge_lt in F. lia.
  - apply IH. cbn [edges_increasing] in H. destruct t; [reflexivity|]. now apply andb_true_iff in H as [_ H].
Qed.
Lemma graph_wf_NoDup n es : simple_graph_wf n es = true -> NoDup es.
Proof. unfold simple_graph_wf. intros H. apply andb_true_iff in H as [_ H]. now apply edges_increasing_NoDup. Qed.

Theorem matching_T2 n es (obj : Z * Z -> bool) : simple_graph_wf n es = true ->
  perfect_matching n (filter obj es) ->
  exists a, irs_hold a (matching_ir n es) = true /\ matching_sel a es = filter obj es.
Proof.
  intros Hwf HP. exists (enc (matching_tab es) obj).
  assert (E : matching_sel (enc (matching_tab es) obj) es = filter obj es).
  { unfold matching_sel. rewrite sel_enc by apply number_NoDup_snd. unfold matching_tab. now rewrite number_fst. }
  split; [|exact E]. apply matching_T1; [assumption|]. now rewrite E.
Qed.

Theorem matching_unique a b n es : simple_graph_wf n es = true ->
  (forall e, In e (matching_sel a es) <-> In e (matching_sel b es)) ->
  forall v, 1 <= v <= matching_numvar es -> a v = b v.
Proof.
  intros Hwf H v Hv. unfold matching_numvar in Hv.
  destruct (number_surj es 0 v ltac:(lia)) as [x Hx].
  assert (NoDup (map fst (matching_tab es))) as Hnd by (unfold matching_tab; rewrite number_fst; now apply (graph_wf_NoDup n)).
  apply (sel_inj a b (matching_tab es) Hnd H (x, v) Hx).
Qed.

(* ================= T3: the counting principle is satisfiable iff p divides M ================= *)
Definition zsum (l : list Z) : Z := fold_right Z.add 0 l.
Lemma zsum_map_add {A} (f g : A -> Z) l : zsum (map (fun x => f x + g x) l) = zsum (map f l) + zsum (map g l).
Proof. induction l as [|x t IH]; cbn; [reflexivity|]. unfold zsum in *. lia. Qed.
Lemma zsum_map_const {A} (c : Z) (l : list A) : zsum (map (fun _ => c) l) = c * len l.
Proof. induction l as [|x t IH]; [cbn; unfold len; cbn; lia|]. cbn [map zsum fold_right]. fold (zsum (map (fun _ => c) t)). rewrite IH, len_cons. lia. Qed.
Lemma zsum_map_ext_in {A} (f g : A -> Z) l : (forall x, In x l -> f x = g x) -> zsum (map f l) = zsum (map g l).
Proof. intros H. f_equal. apply map_ext_in, H. Qed.
Lemma zsum_b2z_filter {A} (P : A -> bool) l : zsum (map (fun x => b2z (P x)) l) = len (filter P l).
Proof.
  induction l as [|x t IH]; [reflexivity|]. cbn [map zsum fold_right filter]. fold (zsum (map (fun x => b2z (P x)) t)).
  rewrite IH. destruct (P x); cbn [b2z]; rewrite ?len_cons; lia.
Qed.

Lemma double_count {A B} (P : A -> B -> bool) (la : list A) (lb : list B) :
  zsum (map (fun x => len (filter (P x) lb)) la) = zsum (map (fun y => len (filter (fun x => P x y) la)) lb).
Proof.
  induction lb as [|y t IH].
  - cbn [filter map zsum fold_right]. rewrite (zsum_map_const (len (@nil B)) la). unfold len at 1. cbn. lia.
  - cbn [map zsum fold_right]. fold (zsum (map (fun y => len (filter (fun x => P x y) la)) t)). rewrite <- IH.
    rewrite <- zsum_b2z_filter, <- zsum_map_add. apply zsum_map_ext_in. intros x _. cbn [filter].
    destruct (P x y); cbn [b2z]; rewrite ?len_cons; lia.
Qed.

Lemma memz_In i S : block_mem i S = true <-> In i S.
Proof.
  unfold block_mem. rewrite existsb_exists. split.
  - intros [x [Hx E]]. assert (i = x) by lia. now subst.
  - intros H. exists i. split; [assumption|lia].
Qed.

Lemma count_members {l S : list Z} : NoDup l -> NoDup S -> incl S l ->
  length (filter (fun i => block_mem i S) l) = length S.
Proof.
  intros Hl HS Hincl. apply Nat.le_antisymm.
  - apply NoDup_incl_length; [now apply NoDup_filter|]. intros x Hx. apply filter_In in Hx as [_ Hx]. now apply memz_In.
  - apply NoDup_incl_length; [assumption|]. intros x Hx. apply filter_In. split; [now apply Hincl|now apply memz_In].
Qed.

Lemma zrange_cons a b : a < b -> zrange a b = a :: zrange (a + 1) b.
Proof.
  intros H. unfold zrange. replace (Z.to_nat (b - a)) with (S (Z.to_nat (b - (a + 1)))) by lia.
  cbn [seq map]. f_equal; [lia|]. rewrite <- seq_shift, map_map. apply map_ext. intros i. lia.
Qed.
Lemma zrange_nil a b : b <= a -> zrange a b = [].
Proof. intros H. unfold zrange. replace (Z.to_nat (b - a)) with O by lia. reflexivity. Qed.

Lemma zrange_in_combs : forall (n : nat) a b lo hi, Z.of_nat n = b - a -> a <= lo -> lo <= hi -> hi <= b ->
  In (zrange lo hi) (combs (zrange a b) (Z.to_nat (hi - lo))).
Proof.
  induction n as [|n IH]; intros a b lo hi Hn H1 H2 H3.
  - assert (hi = lo) by lia. subst. rewrite Z.sub_diag, zrange_nil by lia. destruct (zrange a b); cbn; now left.
  - destruct (Z.eq_dec hi lo) as [->|Hne].
    { rewrite Z.sub_diag, zrange_nil by lia. destruct (zrange a b); cbn; now left. }
    rewrite (zrange_cons a b) by lia. replace (Z.to_nat (hi - lo)) with (S (Z.to_nat (hi - lo - 1))) by lia.
    cbn [combs]. apply in_or_app. destruct (Z.eq_dec lo a) as [->|Hla].
    + left. rewrite (zrange_cons a hi) by lia. apply in_map.
      replace (hi - a - 1) with (hi - (a + 1)) by lia. apply (IH (a + 1) b (a + 1) hi); lia.
    + right. replace (S (Z.to_nat (hi - lo - 1))) with (Z.to_nat (hi - lo)) by lia. apply (IH (a + 1) b lo hi); lia.
Qed.

Lemma filter_unique_len {A} (P : A -> bool) l x : NoDup l -> In x l -> P x = true ->
  (forall y, In y l -> P y = true -> y = x) -> len (filter P l) = 1.
Proof.
  intros Hnd Hx Px Huniq.
  assert (1 <= len (filter P l)) by (apply filter_len_exists; eauto).
  assert (len (filter P l) <= 1); [|lia]. apply (filter_le1 P l Hnd). intros y z Hy Hz Py Pz.
  rewrite (Huniq y Hy Py), (Huniq z Hz Pz). reflexivity.
Qed.

Theorem count_sat_iff M p : 0 <= M -> 1 <= p ->
  ((exists a, irs_hold a (count_ir M p) = true) <-> (p | M)).
Proof.
  intros HM Hp. split.
  - intros [a Ha]. apply count_T1 in Ha. unfold partition_of in Ha. set (B := count_sel a M p) in *.
    pose proof (double_count (fun i S => block_mem i S) (upto M) B) as D.
    rewrite (zsum_map_ext_in _ (fun _ => 1) (upto M)) in D by (intros i Hi; apply In_upto in Hi; now apply Ha).
    rewrite (zsum_map_ext_in _ (fun _ => p) B) in D.
    + rewrite !zsum_map_const, len_upto in D by assumption. exists (len B). lia.
    + intros S HS. apply count_sel_blocks in HS. unfold count_blocks in HS. unfold len.
      rewrite (@count_members (upto M) S).
      * rewrite (combs_length _ _ _ HS). lia.
      * apply NoDup_upto.
      * eapply combs_elem_NoDup; [apply NoDup_upto|exact HS].
      * intros y Hy. eapply combs_incl; eauto.
  - intros [q Hq].
    set (blk := fun S : list Z => match S with [] => false | x :: _ => ((x - 1) mod p =? 0) && zlist_eqb S (zrange x (x + p)) end).
    destruct (count_T2 M p blk) as [a [Ha _]]; [|eauto].
    intros i Hi. set (j := (i - 1) / p). set (x0 := j * p + 1).
    pose proof (Z.div_mod (i - 1) p ltac:(lia)) as Edm. pose proof (Z.mod_pos_bound (i - 1) p ltac:(lia)) as Bm. fold j in Edm.
    assert (0 <= j) as Hj0 by (apply Z.div_pos; lia).
    assert (j < q) as Hjq by (apply Z.div_lt_upper_bound; nia).
    assert (x0 + p <= M + 1) as Hx0 by (unfold x0; nia).
    apply (filter_unique_len (block_mem i) _ (zrange x0 (x0 + p))).
    + apply NoDup_filter, count_blocks_NoDup.
    + apply filter_In. split.
      * unfold count_blocks, upto. replace (Z.to_nat p) with (Z.to_nat (x0 + p - x0)) by lia.
        apply (zrange_in_combs (Z.to_nat M) 1 (M + 1) x0 (x0 + p)); unfold x0; nia.
      * unfold blk. rewrite (zrange_cons x0 (x0 + p)) by lia. rewrite <- (zrange_cons x0 (x0 + p)) by lia.
        apply andb_true_iff. split; [|now apply zlist_eqb_spec].
        unfold x0. replace (j * p + 1 - 1) with (j * p) by lia. rewrite Z.mod_mul by lia. reflexivity.
    + apply memz_In, In_zrange. unfold x0. nia.
    + intros S HS Hmem. apply filter_In in HS as [_ Hb]. unfold blk in Hb. destruct S as [|y0 r]; [discriminate|].
      apply andb_true_iff in Hb as [Hmod Heq]. apply zlist_eqb_spec in Heq. rewrite Heq in Hmem |- *.
      apply memz_In, In_zrange in Hmem.
      assert (y0 = x0); [|now subst]. unfold x0.
      pose proof (Z.div_mod (y0 - 1) p ltac:(lia)) as Ey. assert ((y0 - 1) mod p = 0) as Ey0 by lia. rewrite Ey0 in Ey.
      assert ((y0 - 1) / p = j); [|nia].
      unfold j. apply (Z.div_unique (i - 1) p ((y0 - 1) / p) (i - y0)); [lia|nia].
Qed.

(* ---------- satisfiable iff the object exists ---------- *)
Corollary count_sat_iff_exists M p :
  (exists a, irs_hold a (count_ir M p) = true) <-> exists blk, partition_of M (filter blk (count_blocks M p)).
Proof.
  split.
  - intros [a Ha]. apply count_T1 in Ha. exists (fun x => existsb (zlist_eqb x) (count_sel a M p)).
    assert (NoDup (map fst (count_tab M p))) as Hnd by (unfold count_tab; rewrite number_fst; apply count_blocks_NoDup).
    pose proof (sel_as_filter zlist_eqb a (count_tab M p) zlist_eqb_spec Hnd) as E.
    unfold count_tab in E at 3. rewrite number_fst in E. unfold count_sel in *. now rewrite <- E.
  - intros [blk Hb]. destruct (count_T2 M p blk Hb) as [a [Ha _]]. eauto.
Qed.

Corollary matching_sat_iff_exists n es : simple_graph_wf n es = true ->
  ((exists a, irs_hold a (matching_ir n es) = true) <-> exists obj, perfect_matching n (filter obj es)).
Proof.
  intros Hwf. split.
  - intros [a Ha]. apply matching_T1 in Ha; [|assumption]. exists (fun x => existsb (pair_eqb x) (matching_sel a es)).
    assert (NoDup (map fst (matching_tab es))) as Hnd by (unfold matching_tab; rewrite number_fst; now apply (graph_wf_NoDup n)).
    pose proof (sel_as_filter pair_eqb a (matching_tab es) pair_eqb_spec Hnd) as E.
    unfold matching_tab in E at 3. rewrite number_fst in E. unfold matching_sel in *. now rewrite <- E.
  - intros [obj Hb]. destruct (matching_T2 n es obj Hwf Hb) as [a [Ha _]]. eauto.
Qed.

(* ---------- the formulas mention the documented variables only ---------- *)
Lemma count_in_range M p : irs_in_range (count_numvar M p) (count_ir M p).
Proof.
  unfold count_ir, count_numvar. apply irs_in_range_map. intros i x _ Hx. cbn [ir_lits] in Hx.
  now apply ids_where_range in Hx.
Qed.
Lemma matching_in_range n es : irs_in_range (matching_numvar es) (matching_ir n es).
Proof.
  unfold matching_ir, matching_numvar. apply irs_in_range_map. intros u x _ Hx. cbn [ir_lits] in Hx.
  unfold incident_ids in Hx. apply in_app_or in Hx as [Hx|Hx]; now apply ids_where_range in Hx.
Qed.
