(* Fam_count_Facts.v — counting and perfect matching principles encode partitions /
   perfect matchings (C01). *)
From Coq Require Import ZArith List Bool Lia ZifyBool.
From Cnfgen Require Import Sem Comb Linear IR SemFacts LinearFacts IRFacts FamTab FamTabFacts Fam_count Spec_C01.
Import ListNotations.
Open Scope Z_scope.

(* ================= CountingPrinciple ================= *)
Lemma count_tab_pos M p e : In e (count_tab M p) -> 0 < snd e.
Proof. apply number_pos. lia. Qed.

Lemma count_ok M p : irs_ok (count_ir M p) = true.
Proof. unfold count_ir. apply irs_ok_map. intros i _. apply lits_ok_ids_where. apply count_tab_pos. Qed.

Theorem count_T1 a M p :
  irs_hold a (count_ir M p) = true <-> partition_of M (count_sel a M p).
Proof.
  unfold count_ir, partition_of, count_sel. rewrite irs_hold_map. split.
  - intros H i Hi. specialize (H i (proj2 (In_upto i M) Hi)). cbn [ir_holds cop_holds] in H.
    rewrite count_ids_where in H by apply count_tab_pos. lia.
  - intros H i Hi. apply In_upto in Hi. cbn [ir_holds cop_holds].
    rewrite count_ids_where by apply count_tab_pos. specialize (H i Hi). lia.
Qed.

(* ================= PerfectMatchingPrinciple ================= *)
Lemma matching_tab_pos es e : In e (matching_tab es) -> 0 < snd e.
Proof. apply number_pos. lia. Qed.

Lemma matching_ok n es : irs_ok (matching_ir n es) = true.
Proof.
  unfold matching_ir. apply irs_ok_map. intros u _. unfold ir_ok, incident_ids. cbn [ir_lits].
  rewrite lits_ok_app, !lits_ok_ids_where by apply matching_tab_pos. reflexivity.
Qed.

Lemma graph_wf_edges n es : graph_wf n es = true -> forall e, In e es -> 1 <= fst e /\ fst e < snd e /\ snd e <= n.
Proof.
  unfold graph_wf. intros H e He. apply andb_true_iff in H as [H _]. rewrite forallb_forall in H.
  specialize (H e He). lia.
Qed.

Lemma filter_or_len {A} (p q : A -> bool) l : (forall x, In x l -> p x = true -> q x = true -> False) ->
  len (filter (fun x => p x || q x) l) = len (filter p l) + len (filter q l).
Proof.
  induction l as [|x t IH]; intros H; [reflexivity|]. cbn [filter].
  assert (forall y, In y t -> p y = true -> q y = true -> False) as Ht by (intros y Hy; apply H; now right).
  specialize (IH Ht). destruct (p x) eqn:Px, (q x) eqn:Qx; cbn [orb]; rewrite ?len_cons, IH; try lia.
  exfalso. apply (H x); auto. now left.
Qed.

Lemma matching_sel_edges a es : incl (matching_sel a es) es.
Proof.
  intros x Hx. apply In_sel in Hx as [v [Hv _]]. unfold matching_tab in Hv.
  rewrite <- (number_fst es 0). change x with (fst (x, v)). now apply in_map.
Qed.

Theorem matching_T1 a n es : graph_wf n es = true ->
  (irs_hold a (matching_ir n es) = true <-> perfect_matching n (matching_sel a es)).
Proof.
  intros Hwf. unfold matching_ir, perfect_matching, matching_sel.
  assert (E : forall u, count_true a (incident_ids (matching_tab es) u) = len (filter (touches u) (sel a (matching_tab es)))).
  { intros u. unfold incident_ids. rewrite count_true_app, !count_ids_where by apply matching_tab_pos.
    unfold touches. rewrite filter_or_len; [lia|]. intros e He P Q. apply matching_sel_edges in He.
    pose proof (graph_wf_edges n es Hwf e He). lia. }
  rewrite irs_hold_map. split.
  - intros H u Hu. specialize (H u (proj2 (In_upto u n) Hu)). cbn [ir_holds cop_holds] in H. rewrite E in H. lia.
  - intros H u Hu. apply In_upto in Hu. cbn [ir_holds cop_holds]. rewrite E. specialize (H u Hu). lia.
Qed.

(* ---------- T2 and uniqueness ---------- *)
Lemma combs_incl {A} : forall (l : list A) k c, In c (combs l k) -> forall y, In y c -> In y l.
Proof.
  induction l as [|x t IH]; intros k c Hc y Hy.
  - destruct k; cbn in Hc; [destruct Hc as [<-|[]]; destruct Hy|destruct Hc].
  - destruct k as [|k]; cbn [combs] in Hc; [destruct Hc as [<-|[]]; destruct Hy|].
    apply in_app_or in Hc as [Hc|Hc].
    + apply in_map_iff in Hc as [c' [<- Hc']]. destruct Hy as [<-|Hy]; [now left|right; eapply IH; eauto].
    + right. eapply IH; eauto.
Qed.
Lemma combs_NoDup {A} : forall (l : list A) k, NoDup l -> NoDup (combs l k).
Proof.
  induction l as [|x t IH]; intros k Hnd.
  - destruct k; cbn; [constructor; [intros []|constructor]|constructor].
  - inversion Hnd as [|? ? Hx Ht]; subst. destruct k as [|k]; cbn [combs]; [constructor; [intros []|constructor]|].
    apply NoDup_app_intro.
    + apply NoDup_map_inj_in; [intros; congruence|]. now apply IH.
    + now apply IH.
    + intros c H1 H2. apply in_map_iff in H1 as [c' [<- _]]. apply Hx. apply (combs_incl t (S k) _ H2). now left.
Qed.
Lemma combs_length {A} : forall (l : list A) k c, In c (combs l k) -> length c = k.
Proof.
  induction l as [|x t IH]; intros k c Hc.
  - destruct k; cbn in Hc; [destruct Hc as [<-|[]]; reflexivity|destruct Hc].
  - destruct k as [|k]; cbn [combs] in Hc; [destruct Hc as [<-|[]]; reflexivity|].
    apply in_app_or in Hc as [Hc|Hc].
    + apply in_map_iff in Hc as [c' [<- Hc']]. cbn. f_equal. eapply IH; eauto.
    + eapply IH; eauto.
Qed.
Lemma combs_elem_NoDup {A} : forall (l : list A) k c, NoDup l -> In c (combs l k) -> NoDup c.
Proof.
  induction l as [|x t IH]; intros k c Hnd Hc.
  - destruct k; cbn in Hc; [destruct Hc as [<-|[]]; constructor|destruct Hc].
  - inversion Hnd as [|? ? Hx Ht]; subst. destruct k as [|k]; cbn [combs] in Hc; [destruct Hc as [<-|[]]; constructor|].
    apply in_app_or in Hc as [Hc|Hc].
    + apply in_map_iff in Hc as [c' [<- Hc']]. constructor; [|eapply IH; eauto].
      intros Hin. apply Hx. eapply combs_incl; eauto.
    + eapply IH; eauto.
Qed.

Lemma count_blocks_NoDup M p : NoDup (count_blocks M p).
Proof. apply combs_NoDup, NoDup_upto. Qed.

Theorem count_T2 M p (blk : list Z -> bool) : partition_of M (filter blk (count_blocks M p)) ->
  exists a, irs_hold a (count_ir M p) = true /\ count_sel a M p = filter blk (count_blocks M p).
Proof.
  intros HP. exists (enc (count_tab M p) blk).
  assert (E : count_sel (enc (count_tab M p) blk) M p = filter blk (count_blocks M p)).
  { unfold count_sel. rewrite sel_enc by apply number_NoDup_snd. unfold count_tab. now rewrite number_fst. }
  split; [|exact E]. apply count_T1. now rewrite E.
Qed.

Theorem count_unique a b M p :
  (forall S, In S (count_sel a M p) <-> In S (count_sel b M p)) ->
  forall v, 1 <= v <= count_numvar M p -> a v = b v.
Proof.
  intros H v Hv. unfold count_numvar in Hv.
  destruct (number_surj (count_blocks M p) 0 v ltac:(lia)) as [x Hx].
  assert (NoDup (map fst (count_tab M p))) as Hnd by (unfold count_tab; rewrite number_fst; apply count_blocks_NoDup).
  apply (sel_inj a b (count_tab M p) Hnd H (x, v) Hx).
Qed.

Lemma count_sel_blocks a M p : incl (count_sel a M p) (count_blocks M p).
Proof.
  intros x Hx. apply In_sel in Hx as [v [Hv _]]. unfold count_tab in Hv.
  rewrite <- (number_fst (count_blocks M p) 0). change x with (fst (x, v)). now apply in_map.
Qed.

(* ---------- matching ---------- *)
Lemma edge_lt_trans e f g : edge_lt e f = true -> edge_lt f g = true -> edge_lt e g = true.
Proof. unfold edge_lt. lia. Qed.
Lemma edges_increasing_head : forall l x, edges_increasing (x :: l) = true -> forall y, In y l -> edge_lt x y = true.
Proof.
  induction l as [|z t IH]; intros x H y Hy; [destruct Hy|]. cbn [edges_increasing] in H.
  apply andb_true_iff in H as [Hxz Hr]. destruct Hy as [<-|Hy]; [assumption|].
  apply (edge_lt_trans x z y Hxz). now apply IH.
Qed.
Lemma edges_increasing_NoDup : forall l, edges_increasing l = true -> NoDup l.
Proof.
  induction l as [|x t IH]; intros H; [constructor|]. constructor.
  - intros Hin. pose proof (edges_increasing_head t x H x Hin) as F. unfold edge_lt in F. lia.
  - apply IH. cbn [edges_increasing] in H. destruct t; [reflexivity|]. now apply andb_true_iff in H as [_ H].
Qed.
Lemma graph_wf_NoDup n es : graph_wf n es = true -> NoDup es.
Proof. unfold graph_wf. intros H. apply andb_true_iff in H as [_ H]. now apply edges_increasing_NoDup. Qed.

Theorem matching_T2 n es (obj : Z * Z -> bool) : graph_wf n es = true ->
  perfect_matching n (filter obj es) ->
  exists a, irs_hold a (matching_ir n es) = true /\ matching_sel a es = filter obj es.
Proof.
  intros Hwf HP. exists (enc (matching_tab es) obj).
  assert (E : matching_sel (enc (matching_tab es) obj) es = filter obj es).
  { unfold matching_sel. rewrite sel_enc by apply number_NoDup_snd. unfold matching_tab. now rewrite number_fst. }
  split; [|exact E]. apply matching_T1; [assumption|]. now rewrite E.
Qed.

Theorem matching_unique a b n es : graph_wf n es = true ->
  (forall e, In e (matching_sel a es) <-> In e (matching_sel b es)) ->
  forall v, 1 <= v <= matching_numvar es -> a v = b v.
Proof.
  intros Hwf H v Hv. unfold matching_numvar in Hv.
  destruct (number_surj es 0 v ltac:(lia)) as [x Hx].
  assert (NoDup (map fst (matching_tab es))) as Hnd by (unfold matching_tab; rewrite number_fst; now apply (graph_wf_NoDup n)).
  apply (sel_inj a b (matching_tab es) Hnd H (x, v) Hx).
Qed.
