(* MappingFacts.v — unary and sparse mappings: the constraints added by force_*
   hold exactly when the relation  R i j := a (id (i,j))  is total / functional /
   injective / surjective / non-decreasing. *)
From Coq Require Import ZArith List Bool Lia ZifyBool.
From Cnfgen Require Import Sem Comb Linear IR SemFacts LinearFacts IRFacts Vars VarsLists VarsFacts VarsBip Mapping MappingBin.
Import ListNotations.
Open Scope Z_scope.

(* the relation described by an assignment: pigeon i sits in hole j *)
Definition rel (a : Z -> bool) (off : Z) (adj : list (list Z)) (i j : Z) : bool :=
  match bip_to_id off adj i j with Some x => a x | None => false end.

Definition uid (off : Z) (adj : list (list Z)) (u v : Z) : Z := id_or_0 (bip_to_id off adj u v).

(* ---------- counting ---------- *)
Fixpoint cnt {A} (p : A -> bool) (l : list A) : Z :=
  match l with [] => 0 | x :: t => b2z (p x) + cnt p t end.
Lemma cnt_nonneg {A} (p : A -> bool) l : 0 <= cnt p l.
Proof. induction l as [|x t IH]; cbn [cnt]; [lia|]. pose proof (b2z_range (p x)). lia. Qed.
Lemma cnt_zero {A} (p : A -> bool) l : cnt p l = 0 <-> forall x, In x l -> p x = false.
Proof.
  induction l as [|x t IH]; cbn [cnt]; [split; [intros _ ? []|reflexivity]|].
  pose proof (cnt_nonneg p t) as Hc. destruct (p x) eqn:E; cbn [b2z].
  - split; [lia|]. intros H. specialize (H x (or_introl eq_refl)). congruence.
  - rewrite Z.add_0_l, IH. split; [intros H y [<-|Hy]; auto|intros H y Hy; apply H; now right].
Qed.
Lemma cnt_le1 {A} (p : A -> bool) l : NoDup l ->
  (cnt p l <= 1 <-> forall x y, In x l -> In y l -> p x = true -> p y = true -> x = y).
Proof.
  induction 1 as [|x t Hx Ht IH]; cbn [cnt]; [split; [intros _ ? ? []|lia]|].
  pose proof (cnt_nonneg p t) as Hc. destruct (p x) eqn:E; cbn [b2z].
  - split.
    + intros H1. assert (Z0 : cnt p t = 0) by lia. rewrite cnt_zero in Z0.
      intros y z [<-|Hy] [<-|Hz] Py Pz; try reflexivity; exfalso.
      * specialize (Z0 z Hz). congruence.
      * specialize (Z0 y Hy). congruence.
      * specialize (Z0 y Hy). congruence.
    + intros H1. assert (Z0 : cnt p t = 0); [|lia]. apply cnt_zero. intros y Hy. destruct (p y) eqn:Py; [|reflexivity].
      exfalso. apply Hx. rewrite (H1 x y); auto; [now left|now right].
  - rewrite Z.add_0_l, IH. split.
    + intros H1 y z [<-|Hy] [<-|Hz] Py Pz; try congruence. now apply H1.
    + intros H1 y z Hy Hz. apply H1; now right.
Qed.
Lemma count_true_map_cnt {A} a (f : A -> Z) l : count_true a (map f l) = cnt (fun c => lit_true a (f c)) l.
Proof. induction l as [|x t IH]; [reflexivity|]. cbn [map count_true cnt]. now rewrite IH. Qed.
Lemma cnt_ext_in {A} (p q : A -> bool) l : (forall x, In x l -> p x = q x) -> cnt p l = cnt q l.
Proof. induction l as [|x t IH]; intros H; [reflexivity|]. cbn [cnt]. rewrite H by now left. rewrite IH; [reflexivity|]. intros; apply H; now right. Qed.

(* ---------- edges have positive identifiers ---------- *)
Section Unary.
  Context (a : Z -> bool) (off : Z) (adj : list (list Z)) (R : Z) (Hoff : 0 <= off) (Hn : adj_nodup adj).
  Let L := len adj.

  Lemma edge_id u v : In [u; v] (bip_edges adj) -> exists x, bip_to_id off adj u v = Some x /\ 0 < x.
  Proof.
    intros H. destruct (In_znth _ _ H) as [j Hj].
    destruct (map_eq_zrange_nth _ _ _ _ (bip_core_enum off adj Hn) j _ Hj) as [E Rg]. cbn [pair_id] in E.
    exists (off + 1 + j). split; [exact E|lia].
  Qed.

  Lemma rel_lit u v : In [u; v] (bip_edges adj) -> lit_true a (uid off adj u v) = rel a off adj u v /\ nonzero (uid off adj u v) = true.
  Proof.
    intros H. destruct (edge_id u v H) as [x [E P]]. unfold uid, rel. rewrite E. cbn [id_or_0].
    split; [now apply lit_true_pos|apply nonzero_spec; lia].
  Qed.

  Lemma row_edge x v : In v (m_range_of adj x) -> In [x; v] (bip_edges adj).
  Proof.
    unfold m_range_of, right_nbrs. destruct (znth (x - 1) adj) as [vs|] eqn:E; [|intros []]. intros Hv.
    apply in_bip_edges_from. exists vs. auto.
  Qed.

  Lemma in_left_nbrs_from : forall ad u0 u y, In u (left_nbrs_from u0 ad y) <-> exists vs, znth (u - u0) ad = Some vs /\ In y vs.
  Proof.
    induction ad as [|vs t IH]; intros u0 u y.
    - cbn. split; [tauto|]. intros [vs [H _]]. now rewrite znth_nil in H.
    - cbn [left_nbrs_from]. rewrite in_app_iff, znth_cons, IH. split.
      + intros [H|[ws [H1 H2]]].
        * destruct (in_list y vs) eqn:E; [|destruct H]. destruct H as [<-|[]]. exists vs. replace (u0 - u0) with 0 by lia. split; [reflexivity|].
          unfold in_list in E. apply existsb_exists in E as [z [Hz Ez]]. apply Z.eqb_eq in Ez. now subst.
        * exists ws. apply znth_Some in H1 as H3. destruct (Z.eqb_spec (u - u0) 0); [lia|].
          replace (u - u0 - 1) with (u - (u0 + 1)) by lia. auto.
      + intros [ws [H1 H2]]. destruct (Z.eqb_spec (u - u0) 0) as [E|N].
        * injection H1 as <-. left. assert (I : in_list y vs = true) by (apply existsb_exists; exists y; split; [exact H2|apply Z.eqb_refl]).
          rewrite I. left. lia.
        * right. exists ws. replace (u - (u0 + 1)) with (u - u0 - 1) by lia. auto.
  Qed.

  Lemma col_edge u y : In u (left_nbrs adj y) -> In [u; y] (bip_edges adj).
  Proof. intros H. apply in_left_nbrs_from in H. now apply in_bip_edges_from. Qed.

  Lemma in_left_nbrs u y : In u (left_nbrs adj y) <-> In y (m_range_of adj u).
  Proof.
    unfold left_nbrs. rewrite in_left_nbrs_from. unfold m_range_of, right_nbrs. split.
    - intros [vs [E H]]. now rewrite E.
    - destruct (znth (u - 1) adj) as [vs|]; [|intros []]. eauto.
  Qed.

  Lemma NoDup_range_of x : NoDup (m_range_of adj x).
  Proof.
    unfold m_range_of, right_nbrs. destruct (znth (x - 1) adj) as [vs|] eqn:E; [|constructor].
    apply znth_In in E. unfold adj_nodup in Hn. rewrite Forall_forall in Hn. now apply Hn.
  Qed.

  (* the literals f(x, None) and f(None, y) *)
  Lemma row_ids x : 1 <= x <= L ->
    pattern_ids off (BipEdges adj R) [Some x; None] = map (uid off adj x) (m_range_of adj x).
  Proof.
    intros Hx. unfold pattern_ids, m_range_of. cbn [pattern_indices shape_bip bip_pattern].
    destruct (right_nbrs adj x) as [vs|] eqn:E.
    - cbn [option_map]. rewrite !map_map. apply map_ext. intros v. reflexivity.
    - exfalso. unfold right_nbrs, znth in E. destruct (Z.ltb_spec (x - 1) 0); [lia|].
      apply nth_error_None in E. subst L. unfold len in Hx. lia.
  Qed.

  Lemma col_ids y : 1 <= y <= R ->
    pattern_ids off (BipEdges adj R) [None; Some y] = map (fun u => uid off adj u y) (left_nbrs adj y).
  Proof.
    intros Hy. unfold pattern_ids. cbn [pattern_indices shape_bip bip_pattern].
    destruct (Z.leb_spec 1 y); [|lia]. destruct (Z.leb_spec y R); [|lia]. cbn [andb option_map].
    rewrite !map_map. apply map_ext. intros u. reflexivity.
  Qed.

  Lemma existsb_ext_in {A} (p q : A -> bool) l : (forall x, In x l -> p x = q x) -> existsb p l = existsb q l.
  Proof. induction l as [|x t IH]; intros H; [reflexivity|]. cbn [existsb]. rewrite H by now left. rewrite IH; [reflexivity|]. intros; apply H; now right. Qed.

  Lemma row_clause x : 1 <= x <= L ->
    clause_sat a (pattern_ids off (BipEdges adj R) [Some x; None]) = existsb (rel a off adj x) (m_range_of adj x).
  Proof.
    intros Hx. rewrite row_ids by exact Hx. unfold clause_sat. rewrite existsb_map.
    apply existsb_ext_in. intros v Hv. apply (proj1 (rel_lit x v (row_edge x v Hv))).
  Qed.

  Lemma col_clause y : 1 <= y <= R ->
    clause_sat a (pattern_ids off (BipEdges adj R) [None; Some y]) = existsb (fun u => rel a off adj u y) (left_nbrs adj y).
  Proof.
    intros Hy. rewrite col_ids by exact Hy. unfold clause_sat. rewrite existsb_map.
    apply existsb_ext_in. intros u Hu. apply (proj1 (rel_lit u y (col_edge u y Hu))).
  Qed.

  Lemma row_count x : 1 <= x <= L ->
    count_true a (pattern_ids off (BipEdges adj R) [Some x; None]) = cnt (rel a off adj x) (m_range_of adj x).
  Proof.
    intros Hx. rewrite row_ids by exact Hx. rewrite count_true_map_cnt. apply cnt_ext_in.
    intros v Hv. apply (proj1 (rel_lit x v (row_edge x v Hv))).
  Qed.

  Lemma col_count y : 1 <= y <= R ->
    count_true a (pattern_ids off (BipEdges adj R) [None; Some y]) = cnt (fun u => rel a off adj u y) (left_nbrs adj y).
  Proof.
    intros Hy. rewrite col_ids by exact Hy. rewrite count_true_map_cnt. apply cnt_ext_in.
    intros u Hu. apply (proj1 (rel_lit u y (col_edge u y Hu))).
  Qed.

  (* ---------- the five constraints ---------- *)
  Theorem un_complete_sem :
    irs_hold a (vm_force_complete off (MUnary adj R)) = true <->
    forall i, 1 <= i <= L -> exists j, In j (m_range_of adj i) /\ rel a off adj i j = true.
  Proof.
    cbn [vm_force_complete m_domain mapping_shape]. rewrite irs_hold_map, forallb_forall. split.
    - intros H i Hi. specialize (H i ltac:(apply in_zrange; subst L; lia)). cbn [ir_holds] in H.
      rewrite row_clause in H by exact Hi. now apply existsb_exists in H.
    - intros H i Hi. apply in_zrange in Hi. cbn [ir_holds]. rewrite row_clause by (subst L; lia).
      apply existsb_exists. apply H. subst L. lia.
  Qed.

  Theorem un_functional_sem :
    irs_hold a (vm_force_functional off (MUnary adj R)) = true <->
    forall i, 1 <= i <= L -> forall j1 j2, In j1 (m_range_of adj i) -> In j2 (m_range_of adj i) ->
      rel a off adj i j1 = true -> rel a off adj i j2 = true -> j1 = j2.
  Proof.
    cbn [vm_force_functional m_domain mapping_shape]. rewrite irs_hold_map, forallb_forall. split.
    - intros H i Hi. specialize (H i ltac:(apply in_zrange; subst L; lia)). cbn [ir_holds cop_holds] in H.
      rewrite row_count in H by exact Hi. apply Z.leb_le in H. now apply (cnt_le1 _ _ (NoDup_range_of i)).
    - intros H i Hi. apply in_zrange in Hi. cbn [ir_holds cop_holds]. rewrite row_count by (subst L; lia).
      apply Z.leb_le. apply (cnt_le1 _ _ (NoDup_range_of i)). apply H. subst L. lia.
  Qed.

  Theorem un_surjective_sem :
    snd (vm_force_surjective off (MUnary adj R)) = false /\
    (irs_hold a (fst (vm_force_surjective off (MUnary adj R))) = true <->
     forall j, 1 <= j <= R -> exists i, In j (m_range_of adj i) /\ rel a off adj i j = true).
  Proof.
    split; [reflexivity|]. cbn [vm_force_surjective fst m_range mapping_shape]. rewrite irs_hold_map, forallb_forall. split.
    - intros H j Hj. specialize (H j ltac:(apply in_zrange; lia)). cbn [ir_holds] in H.
      rewrite col_clause in H by exact Hj. apply existsb_exists in H as [i [Hi Hr]]. exists i. split; [now apply in_left_nbrs|exact Hr].
    - intros H j Hj. apply in_zrange in Hj. cbn [ir_holds]. rewrite col_clause by lia.
      apply existsb_exists. destruct (H j ltac:(lia)) as [i [Hi Hr]]. exists i. split; [now apply in_left_nbrs|exact Hr].
  Qed.

  Theorem un_injective_sem :
    irs_hold a (vm_force_injective off (MUnary adj R)) = true <->
    forall j, 1 <= j <= R -> forall i1 i2, In j (m_range_of adj i1) -> In j (m_range_of adj i2) ->
      rel a off adj i1 j = true -> rel a off adj i2 j = true -> i1 = i2.
  Proof.
    cbn [vm_force_injective m_range mapping_shape]. rewrite irs_hold_map, forallb_forall.
    assert (ND : forall y, NoDup (left_nbrs adj y)) by (intros; apply NoDup_left_nbrs_from). split.
    - intros H j Hj i1 i2 H1 H2. specialize (H j ltac:(apply in_zrange; lia)). cbn [ir_holds cop_holds] in H.
      rewrite col_count in H by exact Hj. apply Z.leb_le in H. pose proof (proj1 (cnt_le1 (fun u => rel a off adj u j) _ (ND j)) H) as H'.
      intros R1 R2. apply H'; try assumption; now apply in_left_nbrs.
    - intros H j Hj. apply in_zrange in Hj. cbn [ir_holds cop_holds]. rewrite col_count by lia.
      apply Z.leb_le. apply (cnt_le1 (fun u => rel a off adj u j) _ (ND j)). intros i1 i2 H1 H2. apply H; try lia; now apply in_left_nbrs.
  Qed.

  Theorem un_nondecreasing_sem :
    irs_hold a (vm_force_nondecreasing off (MUnary adj R)) = true <->
    forall i1 i2, 1 <= i1 < i2 /\ i2 <= L -> forall j1 j2, In j1 (m_range_of adj i1) -> In j2 (m_range_of adj i2) ->
      rel a off adj i1 j1 = true -> rel a off adj i2 j2 = true -> j1 <= j2.
  Proof.
    cbn [vm_force_nondecreasing m_domain mapping_shape]. rewrite irs_hold_flat_map, forallb_forall.
    assert (CL : forall u1 u2 v1 v2, In v1 (m_range_of adj u1) -> In v2 (m_range_of adj u2) ->
       clause_sat a [- id_or_0 (vg_to_id off (BipEdges adj R) [u1; v1]); - id_or_0 (vg_to_id off (BipEdges adj R) [u2; v2])] =
       negb (rel a off adj u1 v1 && rel a off adj u2 v2)).
    { intros u1 u2 v1 v2 H1 H2. cbn [vg_to_id shape_bip to_core]. fold (uid off adj u1 v1). fold (uid off adj u2 v2).
      destruct (rel_lit u1 v1 (row_edge _ _ H1)) as [E1 N1]. destruct (rel_lit u2 v2 (row_edge _ _ H2)) as [E2 N2].
      apply nonzero_spec in N1, N2. cbn [clause_sat existsb]. rewrite !lit_true_opp, E1, E2 by assumption.
      destruct (rel a off adj u1 v1), (rel a off adj u2 v2); reflexivity. }
    split.
    - intros H i1 i2 Hi j1 j2 H1 H2 R1 R2. destruct (Z.le_gt_cases j1 j2) as [C|C]; [exact C|exfalso].
      specialize (H (i1, i2) ltac:(apply in_pairs_zrange_Z; subst L; lia)). cbn [fst snd] in H.
      rewrite irs_hold_flat_map, forallb_forall in H. specialize (H j1 H1).
      rewrite irs_hold_flat_map, forallb_forall in H. specialize (H j2 H2).
      destruct (Z.gtb_spec j1 j2); [|lia]. unfold irs_hold in H. cbn [forallb ir_holds] in H.
      rewrite CL, R1, R2 in H by assumption. discriminate.
    - intros H [i1 i2] Hi. apply in_pairs_zrange_Z in Hi. cbn [fst snd].
      rewrite irs_hold_flat_map, forallb_forall. intros j1 H1. rewrite irs_hold_flat_map, forallb_forall. intros j2 H2.
      destruct (Z.gtb_spec j1 j2) as [C|C]; [|reflexivity]. unfold irs_hold. cbn [forallb ir_holds]. rewrite CL by assumption.
      rewrite andb_true_r. apply negb_true_iff. destruct (rel a off adj i1 j1) eqn:R1; [|reflexivity]. destruct (rel a off adj i2 j2) eqn:R2; [|reflexivity].
      exfalso. specialize (H i1 i2 ltac:(subst L; lia) j1 j2 H1 H2 R1 R2). lia.
  Qed.

  (* every literal is non-zero: the constraints mean the same in the CNF and in the OPB rendering *)
  Lemma lits_ok_row x : 1 <= x <= L -> lits_ok (pattern_ids off (BipEdges adj R) [Some x; None]) = true.
  Proof.
    intros Hx. rewrite row_ids by exact Hx. unfold lits_ok. rewrite forallb_map. apply forallb_forall.
    intros v Hv. apply (proj2 (rel_lit x v (row_edge x v Hv))).
  Qed.
  Lemma lits_ok_col y : 1 <= y <= R -> lits_ok (pattern_ids off (BipEdges adj R) [None; Some y]) = true.
  Proof.
    intros Hy. rewrite col_ids by exact Hy. unfold lits_ok. rewrite forallb_map. apply forallb_forall.
    intros u Hu. apply (proj2 (rel_lit u y (col_edge u y Hu))).
  Qed.

  Theorem un_constraints_ok :
    irs_ok (vm_force_complete off (MUnary adj R)) = true /\ irs_ok (vm_force_functional off (MUnary adj R)) = true /\
    irs_ok (fst (vm_force_surjective off (MUnary adj R))) = true /\ irs_ok (vm_force_injective off (MUnary adj R)) = true /\
    irs_ok (vm_force_nondecreasing off (MUnary adj R)) = true.
  Proof.
    repeat split.
    - cbn [vm_force_complete m_domain mapping_shape]. rewrite irs_ok_map. apply forallb_forall. intros x Hx. apply in_zrange in Hx.
      apply lits_ok_row. subst L. lia.
    - cbn [vm_force_functional m_domain mapping_shape]. rewrite irs_ok_map. apply forallb_forall. intros x Hx. apply in_zrange in Hx.
      apply lits_ok_row. subst L. lia.
    - cbn [vm_force_surjective fst m_range mapping_shape]. rewrite irs_ok_map. apply forallb_forall. intros y Hy. apply in_zrange in Hy.
      apply lits_ok_col. lia.
    - cbn [vm_force_injective m_range mapping_shape]. rewrite irs_ok_map. apply forallb_forall. intros y Hy. apply in_zrange in Hy.
      apply lits_ok_col. lia.
    - cbn [vm_force_nondecreasing m_domain mapping_shape]. rewrite irs_ok_flat_map. apply forallb_forall. intros [u1 u2] _. cbn [fst snd].
      rewrite irs_ok_flat_map. apply forallb_forall. intros v1 H1. rewrite irs_ok_flat_map. apply forallb_forall. intros v2 H2.
      destruct (v1 >? v2); [|reflexivity]. unfold irs_ok, ir_ok. cbn [forallb ir_lits lits_ok vg_to_id shape_bip to_core].
      fold (uid off adj u1 v1). fold (uid off adj u2 v2).
      destruct (rel_lit u1 v1 (row_edge _ _ H1)) as [_ N1]. destruct (rel_lit u2 v2 (row_edge _ _ H2)) as [_ N2].
      apply nonzero_spec in N1, N2. rewrite !andb_true_r. apply andb_true_iff. split; apply nonzero_spec; lia.
  Qed.
End Unary.

(* the unary mapping new_mapping(n,m) is the sparse mapping over the complete bipartite graph:
   every pair is available and its identifier is laid out row by row *)
Lemma complete_range_of n m i : 1 <= i <= n -> m_range_of (complete_adj n m) i = zrange 1 (m + 1).
Proof. intros H. unfold m_range_of, right_nbrs. now rewrite complete_adj_nth. Qed.

Lemma len_complete_adj n m : 0 <= n -> len (complete_adj n m) = n.
Proof. intros H. unfold len, complete_adj. rewrite repeat_length. lia. Qed.

(* ---------- statements in the form quoted by Prop_C04_mapping.v ---------- *)
Lemma un_ok off adj R : 0 <= off -> adj_nodup adj ->
  irs_ok (vm_force_complete off (MUnary adj R)) = true /\ irs_ok (vm_force_functional off (MUnary adj R)) = true /\
  irs_ok (fst (vm_force_surjective off (MUnary adj R))) = true /\ irs_ok (vm_force_injective off (MUnary adj R)) = true /\
  irs_ok (vm_force_nondecreasing off (MUnary adj R)) = true.
Proof. exact (un_constraints_ok (fun _ => true) off adj R). Qed.

Lemma bin_ok off n m : 0 <= off -> 1 <= m ->
  irs_ok (vm_force_complete off (MBinary n m)) = true /\ irs_ok (vm_force_injective off (MBinary n m)) = true /\
  irs_ok (vm_force_nondecreasing off (MBinary n m)) = true.
Proof. exact (bin_constraints_ok (fun _ => true) off n m). Qed.

Lemma bin_surjective_always_raises off n m : 1 <= m -> snd (vm_force_surjective off (MBinary n m)) = true.
Proof. exact (bin_surjective_raises (fun _ => true) off n m). Qed.

Theorem mapping_transfer a l : irs_ok l = true ->
  cnf_sat a (to_cnf l) = irs_hold a l /\ opb_sat a (to_opb l) = irs_hold a l.
Proof. intros H. split; [now apply to_cnf_sem|now apply to_opb_sem]. Qed.

(* on the complete bipartite graph every pair (i,j) is available, with the row-major identifier *)
Lemma umap_id off n m i j : 0 <= off -> 1 <= i <= n -> 1 <= j <= m ->
  bip_to_id off (complete_adj n m) i j = Some (off + (i - 1) * m + j).
Proof.
  intros Hoff Hi Hj. unfold bip_to_id. rewrite complete_adj_nth by exact Hi.
  assert (O : forall (k : nat) start u, 1 <= u <= Z.of_nat k ->
            znth (u - 1) (bip_offsets start (repeat (zrange 1 (m + 1)) k)) = Some (start + (u - 1) * m)).
  { induction k as [|k IH]; intros start u Hu; [lia|]. cbn [repeat bip_offsets]. rewrite znth_cons.
    destruct (Z.eqb_spec (u - 1) 0) as [E|E]; [f_equal; nia|].
    replace (u - 1 - 1) with ((u - 1) - 1) by lia. rewrite IH by lia. rewrite zrange_len by lia. f_equal. nia. }
  unfold complete_adj. rewrite O by lia.
  rewrite (index_of_nth (zrange 1 (m + 1)) (NoDup_zrange _ _) (j - 1) j) by (rewrite znth_zrange by lia; f_equal; lia).
  f_equal. lia.
Qed.
