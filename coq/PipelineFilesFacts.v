(* PipelineFilesFacts.v -- lemmas about the whole-program models with file arguments (coq/PipelineFiles.v);
   statements in Prop_C17_files.v. *)
From Coq Require Import ZArith List Bool Ascii String Lia ZifyBool.
From Cnfgen Require Import Sem Comb Linear IR Text Dimacs OpbText OpbTextFacts Cli GraphSpec GText GraphIO Subst FamTab FamFast
     Fam_php Fam_count Fam_cliquecol Fam_subsetcard C02Common Fam_tseitin Fam_coloring Fam_domset Fam_subgraph
     C03_Util Fam_ordering Fam_ramsey Fam_cpls Fam_pebbling PipelineGraph.
From Cnfgen Require Import SemFacts GraphSpecFacts IRFacts IRRange SubstFacts DimacsFacts EndToEnd CliFacts FamFastFacts
     FamRange_Util FamRange_C01 FamRange_C02 FamRange_C03 C03_UtilFacts GraphIOFacts GraphIOSound PipelineGraphFacts Pipeline
     PipelineFacts PipelineFiles.
Import ListNotations.
Open Scope Z_scope.
Ltac Zify.zify_post_hook ::= Z.to_euclidean_division_equations.

(* ------------------------------------------------------------------ *)
(* the repeated parsers are the parsers of Pipeline.v                  *)
(* ------------------------------------------------------------------ *)
Theorem plf_parse_formula_old name toks : plf_parse_formula plg_graph_arg name toks = pl_parse_formula name toks.
Proof. reflexivity. Qed.

(* ------------------------------------------------------------------ *)
(* reading a graph file: a well-formed graph of the kind, or an error   *)
(* ------------------------------------------------------------------ *)
Definition plf_inhouse (f : gio_fmt) : Prop := f <> FGml /\ f <> FDot.

(* property C14 inside the pipeline: no exception other than ValueError leaves a reader *)
Theorem plf_read_text_total g f text : plf_inhouse f ->
  forall e, gio_read_graph true (plf_gtype_of g) f text = GRaise e -> e = EValueError.
Proof. intros [H1 H2] e. now apply read_graph_exn. Qed.

Lemma plf_read_graph_wf t f text G : gio_read_graph true t f text = GOk G -> gio_wf G.
Proof.
  unfold gio_read_graph, gio_read_graph_gen.
  destruct (negb (existsb (gio_fmt_eqb f) (gio_supported true t))) eqn:S; [discriminate|].
  assert (Hin : forall r : gio_res iograph, (forall G0, r = GOk G0 -> gio_wf G0) ->
                gio_bind r (fun G1 => match t with TDag => if gio_is_dag G1 then GOk G1 else GRaise EValueError | _ => GOk G1 end) = GOk G ->
                gio_wf G).
  { intros [G0|e0] Hr; cbn [gio_bind]; [|discriminate].
    destruct t; try (intros H; inversion H; subst; now apply Hr).
    destruct (gio_is_dag G0); [|discriminate]. intros H; inversion H; subst; now apply Hr. }
  apply Hin. intros G0. destruct f; try discriminate.
  - destruct t.
    + intros H. apply (kth_sound GioSimple) in H; [|discriminate]. destruct H as (? & ? & ? & ? & _ & _ & _ & _ & _ & _ & W & _). exact W.
    + intros H. apply (kth_sound GioDirected) in H; [|discriminate]. destruct H as (? & ? & ? & ? & _ & _ & _ & _ & _ & _ & W & _). exact W.
    + intros H. apply (kth_sound GioDirected) in H; [|discriminate]. destruct H as (? & ? & ? & ? & _ & _ & _ & _ & _ & _ & W & _). exact W.
    + intros H. apply kthb_sound in H. destruct H as (? & ? & ? & ? & _ & _ & _ & _ & _ & W & _). exact W.
  - intros H. assert (K : gio_kind_of t <> GioBipartite).
    { destruct t; cbn; try discriminate. }
    apply (dimacs_sound _ _ _ K) in H. destruct H as (? & ? & _ & _ & _ & _ & _ & W & _). exact W.
  - intros H. apply matrix_sound in H. apply H.
Qed.

Lemma plf_read_text_wf g f text G : plf_read_text g f text = PlOk G -> gio_wf G /\ io_kind G = plg_kind_of g.
Proof.
  unfold plf_read_text.
  assert (X : (if negb (pl_is_ascii text) then PlOutside
               else match gio_read_graph true (plf_gtype_of g) f text with
                    | GOk G0 => if plg_kind_eqb (io_kind G0) (plg_kind_of g) then PlOk G0 else PlOutside
                    | GRaise EValueError => PlErr
                    | GRaise _ => PlOutside
                    end) = PlOk G -> gio_wf G /\ io_kind G = plg_kind_of g).
  { destruct (negb (pl_is_ascii text)); [discriminate|].
    destruct (gio_read_graph true (plf_gtype_of g) f text) as [G0|e] eqn:E; [|destruct e; discriminate].
    destruct (plg_kind_eqb (io_kind G0) (plg_kind_of g)) eqn:K; [|discriminate].
    intros H. inversion H; subst G0. split; [now apply (plf_read_graph_wf _ _ _ _ E)|now apply plg_kind_eqb_eq]. }
  destruct f; try discriminate; exact X.
Qed.

Lemma plf_read_wf env g file fmt G : plf_read env g file fmt = PlOk G -> gio_wf G /\ io_kind G = plg_kind_of g.
Proof.
  unfold plf_read. destruct (plf_open env file); [|discriminate]. destruct (plf_fmt_of fmt); [|discriminate].
  apply plf_read_text_wf.
Qed.

(* what the sub-command parsers need from a graph argument *)
Definition plf_ga_wf (ga : plf_graph_fun) : Prop :=
  forall g vs G, ga g vs = PlOk G -> gio_wf G /\ io_kind G = plg_kind_of g.

Theorem plf_graph_arg_wf env : plf_ga_wf (plf_graph_arg env).
Proof.
  intros g vs G. unfold plf_graph_arg.
  destruct (gs_parse g vs) as [p|e|]; try apply plg_graph_arg_wf.
  destruct (p_construction p); [apply plg_graph_arg_wf|].
  destruct (p_opts p); [|discriminate].
  destruct (gs_validate (0, 0) p) as [plan|t|k]; try discriminate.
  destruct plan as [|[c| | | | |] [|? ?]]; try discriminate; try (destruct c; discriminate).
  destruct c; try discriminate. apply plf_read_wf.
Qed.

Lemma plf_simple_arg_wf ga vs G : plf_ga_wf ga -> ga GSSimple vs = PlOk G -> graph_wf (io_n G) (io_edges G) = true.
Proof. intros Hga H. apply Hga in H as [W K]. now apply plg_simple_graph_wf. Qed.

(* ------------------------------------------------------------------ *)
(* the parsers return well-formed commands (as in PipelineFacts.v)     *)
(* ------------------------------------------------------------------ *)
Lemma plf_parse_int_graph_inv ga flags longs ty g mk toks c : plf_parse_int_graph ga flags longs ty g mk toks = PlOk c ->
  exists cls x vs G, ga g vs = PlOk G /\ c = mk cls x G.
Proof.
  unfold plf_parse_int_graph. set (cls := map _ toks).
  destruct (existsb pl_is_out cls); [discriminate|]. destruct (existsb pl_is_unknown cls); [discriminate|].
  destruct (pl_one_plus cls) as [[tx vs]|]; [|discriminate]. destruct (gs_int tx) as [x|]; [|discriminate].
  destruct (argty_ok ty x); [|discriminate]. intros H. apply pl_map_parsed_inv in H as (G & E & ->).
  now exists cls, x, vs, G.
Qed.

Lemma plf_parse_graph_only_inv ga g mk toks c : plf_parse_graph_only ga g mk toks = PlOk c ->
  exists vs G, ga g vs = PlOk G /\ c = mk G.
Proof.
  unfold plf_parse_graph_only. set (cls := map _ toks).
  destruct (existsb pl_is_out cls); [discriminate|]. destruct (existsb pl_is_unknown cls); [discriminate|].
  destruct (pl_plus cls) as [vs|]; [|discriminate]. intros H. apply pl_map_parsed_inv in H as (G & E & ->).
  now exists vs, G.
Qed.

Lemma plf_parse_php_wf ga toks c : plf_parse_php ga toks = PlOk c -> pl_cmd_wf c.
Proof.
  unfold plf_parse_php.
  repeat match goal with
         | |- (if ?b then _ else _) = PlOk _ -> _ => destruct b
         | |- match ?x with _ => _ end = PlOk _ -> _ => destruct x
         end; try discriminate; intros H; inversion H; exact I.
Qed.

Lemma plf_parse_op_wf ga toks c : plf_ga_wf ga -> plf_parse_op ga toks = PlOk c -> pl_cmd_wf c.
Proof.
  intros Hga. unfold plf_parse_op. set (cls := map _ toks). destruct (existsb pl_is_out cls); [discriminate|].
  destruct (pl_star cls) as [[|v0 vs]|]; try discriminate.
  destruct (negb (gs_float_ok v0)).
  - destruct (ga GSSimple (v0 :: vs)) as [G| |] eqn:E; try discriminate.
    destruct (_ || _); [discriminate|]. intros H. inversion H; subst. cbn [pl_cmd_wf].
    pose proof (plf_simple_arg_wf ga _ _ Hga E) as W. destruct (graph_wf_parts _ _ W). now apply plg_nbrs_ok.
  - repeat match goal with
           | |- (if ?b then _ else _) = PlOk _ -> _ => destruct b
           | |- match ?x with _ => _ end = PlOk _ -> _ => destruct x
           end; try discriminate; intros H; inversion H; exact I.
Qed.

Lemma plf_parse_tseitin_wf ga toks c : plf_parse_tseitin ga toks = PlOk c -> pl_cmd_wf c.
Proof.
  unfold plf_parse_tseitin.
  repeat match goal with
         | |- (if ?b then _ else _) = PlOk _ -> _ => destruct b
         | |- match ?x with _ => _ end = PlOk _ -> _ => destruct x
         end; try discriminate; intros H; inversion H; exact I.
Qed.

Lemma plf_parse_subsetcard_wf ga toks c : plf_parse_subsetcard ga toks = PlOk c -> pl_cmd_wf c.
Proof.
  unfold plf_parse_subsetcard.
  repeat match goal with
         | |- (if ?b then _ else _) = PlOk _ -> _ => destruct b
         | |- match ?x with _ => _ end = PlOk _ -> _ => destruct x
         end; try discriminate; intros H; apply pl_map_parsed_inv in H as (G & _ & ->); exact I.
Qed.

Theorem plf_parse_formula_wf ga name toks c : plf_ga_wf ga -> plf_parse_formula ga name toks = PlOk c -> pl_cmd_wf c.
Proof.
  intros Hga. unfold plf_parse_formula.
  repeat match goal with |- (if pl_is name ?s then _ else _) = PlOk c -> _ => destruct (pl_is name s) end.
  all: try (apply pl_with_ints_wf; pl_ints_case).
  - apply plf_parse_php_wf.
  - now apply plf_parse_op_wf.
  - (* kcolor *) intros H. apply plf_parse_int_graph_inv in H as (cls & x & vs & G & E & ->). cbn [pl_cmd_wf]. now apply (plf_simple_arg_wf ga vs).
  - (* kcliquebin *) intros H. apply plf_parse_int_graph_inv in H as (cls & x & vs & G & E & ->). exact I.
  - (* kclique *) intros H. apply plf_parse_int_graph_inv in H as (cls & x & vs & G & E & ->). cbn [pl_cmd_wf].
    pose proof (plf_simple_arg_wf ga vs G Hga E) as W. now destruct (graph_wf_parts _ _ W).
  - (* domset *) intros H. apply plf_parse_int_graph_inv in H as (cls & x & vs & G & E & ->). cbn [pl_cmd_wf]. now apply (plf_simple_arg_wf ga vs).
  - (* stone *) intros H. apply plf_parse_int_graph_inv in H as (cls & x & vs & G & E & ->). exact I.
  - (* ec *) intros H. apply plf_parse_graph_only_inv in H as (vs & G & E & ->). exact I.
  - (* tiling *) intros H. apply plf_parse_graph_only_inv in H as (vs & G & E & ->). cbn [pl_cmd_wf]. now apply (plf_simple_arg_wf ga vs).
  - (* matching *) intros H. apply plf_parse_graph_only_inv in H as (vs & G & E & ->). exact I.
  - (* peb *) intros H. apply plf_parse_graph_only_inv in H as (vs & G & E & ->). exact I.
  - apply plf_parse_tseitin_wf.
  - apply plf_parse_subsetcard_wf.
  - now apply pl_no_args_wf.
  - now apply pl_no_args_wf.
  - destruct (gs_mem name pl_other_formulas); discriminate.
Qed.

(* what the first chunk may ask for *)
Definition plf_gen_wf (g : plf_gen) : Prop := match g with GenCmd c => pl_cmd_wf c | GenDimacs _ => True end.

Lemma plf_parse_main_wf env : forall toks q v b o g, plf_parse_main env q v b toks = PlOk (o, Some g) -> plf_gen_wf g.
Proof.
  intros toks. remember (List.length toks) as k eqn:Hk. revert toks Hk.
  induction k as [k IHk] using lt_wf_ind. intros toks Hk q v b o g.
  destruct toks as [|t r]; cbn [plf_parse_main]; [discriminate|]. cbn [List.length] in Hk.
  destruct (_ || _).
  - destruct v; [discriminate|]. apply (IHk (List.length r)); [lia|reflexivity].
  - destruct (_ || _).
    + destruct q; [discriminate|]. apply (IHk (List.length r)); [lia|reflexivity].
    + destruct (_ || _).
      * destruct r as [|f r']; [discriminate|]. cbn [List.length] in Hk.
        destruct (pl_starts_dash f); [discriminate|].
        destruct (gs_teqb f (lit "dimacs")); [apply (IHk (List.length r')); [lia|reflexivity]|].
        destruct (gs_teqb f (lit "opb")); [apply (IHk (List.length r')); [lia|reflexivity]|].
        destruct (gs_teqb f (lit "latex")); discriminate.
      * destruct (pl_starts_dash t); [discriminate|].
        destruct (pl_is t "dimacs").
        -- destruct (plf_parse_dimacs env r) as [c| |] eqn:E; try discriminate.
           intros H. inversion H; subst. unfold plf_parse_dimacs in E.
           destruct (existsb pl_is_out _); [discriminate|]. destruct (existsb pl_is_unknown _); [discriminate|].
           destruct r as [|f [|? ?]]; try discriminate.
           ++ inversion E. exact I.
           ++ destruct (plf_open env f); inversion E. exact I.
        -- destruct (plf_parse_formula (plf_graph_arg env) t r) as [c| |] eqn:E; try discriminate.
           intros H. inversion H; subst. cbn [plf_gen_wf]. apply (plf_parse_formula_wf (plf_graph_arg env) t r); [apply plf_graph_arg_wf|exact E].
Qed.

Theorem plf_parse_chunks_wf env chunks c g : plf_parse_chunks env chunks = PlOk c -> plf_g c = Some g -> plf_gen_wf g.
Proof.
  destruct chunks as [|c0 rest]; cbn [plf_parse_chunks]; [discriminate|].
  destruct (plf_parse_chunk0 env c0) as [[o g0]| |] eqn:E0; try discriminate.
  destruct (pl_parse_tchunks rest); try discriminate. intros H. inversion H; subst. cbn [plf_g]. intros ->.
  unfold plf_parse_chunk0 in E0. destruct (negb _); [discriminate|]. now apply (plf_parse_main_wf env c0 false false false o).
Qed.

(* ------------------------------------------------------------------ *)
(* what reaches the writer                                             *)
(* ------------------------------------------------------------------ *)
Lemma plf_valid_in_range n F : valid n F -> lits_in_range n F = true.
Proof.
  intros [_ H]. unfold lits_in_range. apply forallb_forall. intros c Hc. apply forallb_forall. intros l Hl.
  rewrite Forall_forall in H. specialize (H c Hc). rewrite Forall_forall in H. specialize (H l Hl). unfold lit_in in H.
  apply andb_true_iff. split; [apply nonzero_spec; lia|lia].
Qed.

(* a formula with its literals in range, a clean error, or outside the grammar -- never the crash value *)
Definition plf_good (r : pl_fres) : Prop := match r with FrOutside => True | _ => pl_good r end.

Lemma plf_chain_outside : forall ts, pl_chain FrOutside ts = FrOutside.
Proof. unfold pl_chain. induction ts as [|t ts IH]; [reflexivity|exact IH]. Qed.

Lemma plf_chain_good ts start : plf_good start -> plf_good (pl_chain start ts).
Proof.
  intros H. destruct start as [n F| | |].
  - pose proof (pl_chain_good ts (FrOk n F) H) as G. destruct (pl_chain (FrOk n F) ts); try exact G. exact I.
  - pose proof (pl_chain_good ts FrErr H) as G. destruct (pl_chain FrErr ts); try exact G. exact I.
  - contradiction.
  - rewrite plf_chain_outside. exact I.
Qed.

Lemma plf_start_good g : plf_gen_wf g -> plf_good (plf_start_with pl_build g).
Proof.
  destruct g as [c|bytes]; cbn [plf_gen_wf plf_start_with].
  - intros W. pose proof (pl_build_good c W) as G. destruct (pl_build c); try exact G. exact I.
  - intros _. destruct (negb (pl_is_ascii bytes)); [exact I|].
    destruct (parse_dimacs false bytes) as [n F|e k] eqn:E; [|exact I].
    destruct (parse_sound_proved false bytes n F E) as (sl & m & _ & _ & _ & Hn & _ & HF).
    cbn [plf_good pl_good]. split; [exact Hn|]. apply plf_valid_in_range. split; assumption.
Qed.

Theorem plf_run_good c : (forall g, plf_g c = Some g -> plf_gen_wf g) -> plf_good (plf_run_with pl_build c).
Proof.
  intros W. unfold plf_run_with. destruct (plf_g c) as [g|]; [|exact I]. destruct (pl_all_some (plf_ts c)); [|exact I].
  apply plf_chain_good, plf_start_good. now apply W.
Qed.

Theorem plf_formula_good argv env : plf_good (plf_formula argv env).
Proof.
  unfold plf_formula, plf_formula_with.
  destruct (plf_parse_chunks env (pl_chunks_of argv)) as [c| |] eqn:Ec; try exact I.
  apply plf_run_good. intros g. now apply (plf_parse_chunks_wf env _ c g Ec).
Qed.

Theorem plf_formula_in_range argv env n F : plf_formula argv env = FrOk n F -> 0 <= n /\ lits_in_range n F = true.
Proof. intros E. pose proof (plf_formula_good argv env) as G. rewrite E in G. exact G. Qed.

Theorem plf_formula_no_crash argv env : plf_formula argv env <> FrCrash.
Proof. intros E. pose proof (plf_formula_good argv env) as G. rewrite E in G. exact G. Qed.

Theorem cnfgen_files_main_total argv env :
  (exists text, cnfgen_files_main argv env = POut text) \/ cnfgen_files_main argv env = PCliError \/
  cnfgen_files_main argv env = POutside.
Proof.
  unfold cnfgen_files_main. pose proof (plf_formula_no_crash argv env) as H.
  destruct (plf_formula argv env) as [n F| | |]; cbn [pl_render].
  - destruct (pl_quiet (plf_opts_of argv env)); [left; eexists; reflexivity|right; right; reflexivity].
  - right; left; reflexivity.
  - contradiction.
  - right; right; reflexivity.
Qed.

Theorem cnfgen_files_main_roundtrip argv env text : cnfgen_files_main argv env = POut text ->
  exists n F, plf_formula argv env = FrOk n F /\ text = pl_write (pl_opb (plf_opts_of argv env)) None n F /\
              0 <= n /\ lits_in_range n F = true /\
              (printable n -> printable (len F) -> pl_reads_back (pl_opb (plf_opts_of argv env)) text n F).
Proof.
  unfold cnfgen_files_main. destruct (plf_formula argv env) as [n F| | |] eqn:E; cbn [pl_render]; try discriminate.
  destruct (pl_quiet (plf_opts_of argv env)); [|discriminate]. intros H. inversion H; subst.
  destruct (plf_formula_in_range argv env n F E) as [Hn HR].
  exists n, F. refine (conj eq_refl (conj eq_refl (conj Hn (conj HR _)))).
  intros P1 P2. now apply pl_write_reads_back.
Qed.

(* the fast rendering is the reference rendering *)
Lemma plf_start_fast_eq g : plf_start_with pl_build_fast g = plf_start_with pl_build g.
Proof. destruct g; cbn [plf_start_with]; [apply pl_build_fast_eq|reflexivity]. Qed.

Theorem plf_formula_fast_eq argv env : plf_formula_fast argv env = plf_formula argv env.
Proof.
  unfold plf_formula_fast, plf_formula, plf_formula_with.
  destruct (plf_parse_chunks env (pl_chunks_of argv)) as [c| |]; try reflexivity.
  unfold plf_run_with. destruct (plf_g c); [|reflexivity]. destruct (pl_all_some (plf_ts c)); [|reflexivity].
  now rewrite plf_start_fast_eq.
Qed.

Theorem cnfgen_files_main_fast_eq argv env : cnfgen_files_main_fast argv env = cnfgen_files_main argv env.
Proof. unfold cnfgen_files_main_fast, cnfgen_files_main. now rewrite plf_formula_fast_eq. Qed.

(* ------------------------------------------------------------------ *)
(* one more -T chunk (as PipelineFacts.pl_formula_step)                *)
(* ------------------------------------------------------------------ *)
Definition plf_wellformed (argv : list String.string) (env : plf_env) : Prop :=
  exists c g l, plf_parse_chunks env (pl_chunks_of argv) = PlOk c /\ plf_g c = Some g /\ pl_all_some (plf_ts c) = Some l.

Lemma plf_formula_ok_wellformed argv env n F : plf_formula argv env = FrOk n F -> plf_wellformed argv env.
Proof.
  unfold plf_formula, plf_formula_with, plf_wellformed.
  destruct (plf_parse_chunks env (pl_chunks_of argv)) as [c| |] eqn:E; try discriminate.
  unfold plf_run_with. destruct (plf_g c) as [g|] eqn:G; [|discriminate].
  destruct (pl_all_some (plf_ts c)) as [l|] eqn:L; [|discriminate]. intros _. now exists c, g, l.
Qed.

Lemma plf_parse_chunks_app env chunks t : chunks <> [] ->
  plf_parse_chunks env (chunks ++ [t]) =
  match plf_parse_chunks env chunks with
  | PlOk c => match pl_parse_tchunk t with
              | PlOk x => PlOk (mk_plf_cmdline (plf_o c) (plf_g c) (plf_ts c ++ [x]))
              | PlErr => PlErr
              | PlOutside => PlOutside
              end
  | PlErr => PlErr
  | PlOutside => PlOutside
  end.
Proof.
  intros Hne. destruct chunks as [|c0 rest]; [contradiction|]. cbn [app plf_parse_chunks].
  destruct (plf_parse_chunk0 env c0) as [[o g]| |]; [|reflexivity|reflexivity].
  rewrite pl_parse_tchunks_app. destruct (pl_parse_tchunks rest); [|reflexivity|reflexivity].
  destruct (pl_parse_tchunk t); reflexivity.
Qed.

Theorem plf_formula_step a t tc env : noT t -> plf_wellformed a env ->
  pl_parse_tchunk (map lit t) = PlOk (Some tc) ->
  plf_wellformed (a ++ "-T"%string :: t) env /\
  plf_formula (a ++ "-T"%string :: t) env = pl_step (plf_formula a env) tc.
Proof.
  intros Ht (c & g & l & Ec & Eg & El) Etc.
  unfold plf_wellformed, plf_formula, plf_formula_with.
  rewrite (pl_chunks_of_app a t Ht), (plf_parse_chunks_app env _ _ (pl_chunks_of_nonempty a)), Ec, Etc.
  split.
  - eexists; exists g, (l ++ [tc]). split; [reflexivity|]. cbn [plf_g plf_ts]. split; [assumption|].
    rewrite pl_all_some_app, El. reflexivity.
  - unfold plf_run_with. cbn [plf_g plf_ts]. rewrite Eg, pl_all_some_app, El. cbn [option_map].
    now rewrite pl_chain_app.
Qed.

Theorem plf_formula_chain env : forall ts tcs a, plf_wellformed a env -> Forall noT ts ->
  Forall2 (fun t tc => pl_parse_tchunk (map lit t) = PlOk (Some tc)) ts tcs ->
  plf_formula (a ++ flat_map (fun t => "-T"%string :: t) ts) env = fold_left pl_step tcs (plf_formula a env).
Proof.
  induction ts as [|t ts IH]; intros tcs a Wa Hn H2.
  - inversion H2; subst. cbn. now rewrite app_nil_r.
  - inversion H2 as [|? tc ? tcs' Et H2']; subst. inversion Hn; subst.
    cbn [flat_map fold_left].
    replace (a ++ ("-T"%string :: t) ++ flat_map (fun t0 => "-T"%string :: t0) ts)
      with ((a ++ "-T"%string :: t) ++ flat_map (fun t0 => "-T"%string :: t0) ts)
      by (rewrite <- app_assoc; reflexivity).
    destruct (plf_formula_step a t tc env) as [W E]; try assumption.
    rewrite (IH tcs' _ W); [|assumption|assumption]. now rewrite E.
Qed.
